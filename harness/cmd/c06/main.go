// znh_c06 — harness for C06 (block scoping; constants and inputs cannot be reassigned).
//
//	scope : an operation history applied to a real runtime.NewScope()
//	vm    : an operation history applied to a real runtime.InitVM(exec.GlobalValues) with a pushed script call frame
//	prog  : a probe program (optionally with further module files) run through the interpreter
//
// An operation is [opcode, name id, value id, module index]:
//
//	0 BeginScope  1 EndScope  2 Declare  3 DeclareConst  4 DeclareExternal  5 Assign  6 Lookup  7 LookupWithModule
//
// Name ids 0..6 are the predefined names 真 假 空 异常 显示 取随机数 数值, id k >= 7 is the identifier "名k".
// Value id k >= 1 is value.NewNumber(k) (one shared element per id, compared by identity), 0 is the nil element,
// -(i+1) is the element bound to predefined name i.
// Every step answers [code, value id, module id] (code 0 = ok, otherwise the runtime error code) and, for vm,
// the [depth, live symbol count] of the current module's symbol stack (runtime.VerifScopeInfo).
package main

import (
	"os"
	"path/filepath"
	"sort"
	"strings"
	"znverif/hlib"

	zerr "github.com/DemoHn/Zn/pkg/error"
	"github.com/DemoHn/Zn/pkg/exec"
	r "github.com/DemoHn/Zn/pkg/runtime"
	"github.com/DemoHn/Zn/pkg/value"
	libFile "github.com/DemoHn/Zn/stdlib/file"
	libJson "github.com/DemoHn/Zn/stdlib/json"
)

var predefined = []string{"真", "假", "空", "异常", "显示", "取随机数", "数值"}

func nameOf(id int) string {
	if id >= 0 && id < len(predefined) {
		return predefined[id]
	}
	return "名" + itoa(id)
}

func itoa(n int) string {
	if n == 0 {
		return "0"
	}
	neg := n < 0
	if neg {
		n = -n
	}
	s := ""
	for n > 0 {
		s = string(rune('0'+n%10)) + s
		n /= 10
	}
	if neg {
		s = "-" + s
	}
	return s
}

// value table: one element per id so that answers are compared by identity
type valTable struct {
	byID map[int]r.Element
}

func newValTable() *valTable { return &valTable{byID: map[int]r.Element{}} }

func (t *valTable) elem(id int) r.Element {
	if id == 0 {
		return nil
	}
	if e, ok := t.byID[id]; ok {
		return e
	}
	e := value.NewNumber(float64(id))
	t.byID[id] = e
	return e
}

// idOf: identity-based reverse lookup. 0 = nil, -(i+1) = predefined element i, -1000 = unknown element.
func (t *valTable) idOf(e r.Element) int {
	if e == nil {
		return 0
	}
	for id, x := range t.byID {
		if x == e {
			return id
		}
	}
	for i, n := range predefined {
		if exec.GlobalValues[n] == e {
			return -(i + 1)
		}
	}
	return -1000
}

func errCode(err error) int {
	if err == nil {
		return 0
	}
	if re, ok := err.(*zerr.RuntimeError); ok {
		return re.Code
	}
	return -1
}

func opsOf(in map[string]interface{}) [][4]int {
	res := [][4]int{}
	for _, o := range in["ops"].([]interface{}) {
		q := o.([]interface{})
		var op [4]int
		for i := 0; i < 4 && i < len(q); i++ {
			op[i] = int(q[i].(float64))
		}
		res = append(res, op)
	}
	return res
}

var commands = map[string]hlib.Handler{}

func main() {
	register()
	hlib.Main(commands)
}

func register() {
	// bare Scope: module argument of DeclareExternal is the raw module id
	commands["scope"] = func(in map[string]interface{}) map[string]interface{} {
		vt := newValTable()
		sp := r.NewScope()
		out := [][]int{}
		for _, op := range opsOf(in) {
			name := nameOf(op[1])
			ans := []int{0, 0, -1}
			switch op[0] {
			case 0:
				sp.BeginScope()
			case 1:
				sp.EndScope()
			case 2:
				ans[0] = errCode(sp.DeclareValue(name, vt.elem(op[2])))
			case 3:
				ans[0] = errCode(sp.DeclareConstValue(name, vt.elem(op[2])))
			case 4:
				ans[0] = errCode(sp.DeclareExternalValue(name, vt.elem(op[2]), op[3]))
			case 5:
				ans[0] = errCode(sp.SetValue(name, vt.elem(op[2])))
			case 6:
				ans[1] = vt.idOf(sp.GetValue(name))
			case 7:
				e, m := sp.GetValueWithModuleID(name)
				ans[1] = vt.idOf(e)
				ans[2] = m
			}
			out = append(out, ans)
		}
		return map[string]interface{}{"steps": out}
	}

	// VM wrappers. modules: 0 = main (frame pushed), 1.. = further allocated modules; module argument = module id.
	commands["vm"] = func(in map[string]interface{}) map[string]interface{} {
		vt := newValTable()
		vm := r.InitVM(exec.GlobalValues)
		nmod := 3
		if v, ok := in["modules"].(float64); ok {
			nmod = int(v)
		}
		mods := []*r.Module{}
		for i := 0; i < nmod; i++ {
			mods = append(mods, vm.AllocateModule("模块"+itoa(i), nil))
		}
		vm.PushCallFrame(r.NewScriptCallFrame(mods[0]))
		out := [][]int{}
		for _, op := range opsOf(in) {
			name := r.NewIDName(nameOf(op[1]))
			ans := []int{0, 0, -1}
			switch op[0] {
			case 0:
				vm.BeginScope()
			case 1:
				vm.EndScope()
			case 2:
				ans[0] = errCode(vm.DeclareElement(name, vt.elem(op[2])))
			case 3:
				ans[0] = errCode(vm.DeclareConstElement(name, vt.elem(op[2])))
			case 4:
				m := mods[op[3]%len(mods)]
				ans[0] = errCode(vm.DeclareExternalElement(name, vt.elem(op[2]), m))
			case 5:
				ans[0] = errCode(vm.SetElement(name, vt.elem(op[2])))
			case 6:
				e, err := vm.FindElement(name)
				ans[0] = errCode(err)
				ans[1] = vt.idOf(e)
			case 7:
				e, m, err := vm.FindElementWithModule(name)
				ans[0] = errCode(err)
				ans[1] = vt.idOf(e)
				if err == nil {
					if m != nil {
						ans[2] = m.GetID()
					} else {
						ans[2] = -2 // no such module in the module graph
					}
				}
			}
			depth, count := -1000, -1000
			for _, si := range vm.VerifScopeInfo() {
				if si[0] == mods[0].GetID() {
					depth, count = si[1], si[2]
				}
			}
			out = append(out, append(ans, depth, count))
		}
		return map[string]interface{}{"steps": out}
	}

	// {"src": text, "files": {"name.zn": text}, "inputs": {"名": number}} -> outcome of the run.
	// With files the program is written to a temporary directory and run through LoadFile (custom modules).
	commands["prog"] = func(in map[string]interface{}) map[string]interface{} {
		src := in["src"].(string)
		inputs := r.ElementMap{}
		if m, ok := in["inputs"].(map[string]interface{}); ok {
			for k, v := range m {
				inputs[k] = value.NewNumber(v.(float64))
			}
		}
		var elem r.Element
		var err error
		disp := hlib.CaptureStdout(func() {
			z := exec.NewInterpreter("verif").SetExternalLibs([]*r.Library{libJson.Export(), libFile.Export()})
			if files, ok := in["files"].(map[string]interface{}); ok && len(files) > 0 {
				dir, _ := os.MkdirTemp("", "znh06")
				defer os.RemoveAll(dir)
				names := []string{}
				for k := range files {
					names = append(names, k)
				}
				sort.Strings(names)
				for _, k := range names {
					os.WriteFile(filepath.Join(dir, k), []byte(files[k].(string)), 0644)
				}
				p := filepath.Join(dir, "main.zn")
				os.WriteFile(p, []byte(src), 0644)
				elem, err = z.LoadFile(p).Execute(inputs)
			} else {
				elem, err = z.LoadScript([]rune(src)).Execute(inputs)
			}
		})
		lines := strings.Split(disp, "\n")
		if len(lines) > 0 && lines[len(lines)-1] == "" {
			lines = lines[:len(lines)-1]
		}
		out := map[string]interface{}{"display": lines}
		if err != nil {
			out["kind"] = "error"
			de := hlib.DumpError(err)
			out["err"] = de
			// error code: of the runtime error itself, or - when a method boundary has turned it into an
			// exception value carrying only the message - the code whose constructor yields that very message
			// on this tree for one of the names the probe uses (no wording is compared)
			ecode := -1
			if c, ok := de["code"].(int); ok && de["class"] == "runtime" {
				ecode = c
			} else if de["class"] == "goexception" {
				inner, _ := exec.VerifUnwrapError(err)
				if ex, ok := inner.(*value.Exception); ok {
					if ex.Message == zerr.AssignToConstant().Error() {
						ecode = zerr.AssignToConstant().Code
					}
					if ns, ok := in["names"].([]interface{}); ok {
						for _, n := range ns {
							if ex.Message == zerr.NameNotDefined(n.(string)).Error() {
								ecode = zerr.NameNotDefined(n.(string)).Code
							}
							if ex.Message == zerr.NameRedeclared(n.(string)).Error() {
								ecode = zerr.NameRedeclared(n.(string)).Code
							}
						}
					}
				}
			}
			out["ecode"] = ecode
		} else {
			out["kind"] = "value"
			out["value"] = hlib.DumpValue(elem, 0)
		}
		return out
	}
}
