// c12 — harness for property C12 (lists are 1-indexed sequences, dictionaries insertion-ordered maps).
// Applies operation histories to the real value.Array / value.HashMap / value.IV through their public
// API and dumps the collection after every operation; runs generated programs.
package main

import (
	"reflect"
	"fmt"
	"math"
	"strings"
	"znverif/hlib"

	zerr "github.com/DemoHn/Zn/pkg/error"
	"github.com/DemoHn/Zn/pkg/exec"
	r "github.com/DemoHn/Zn/pkg/runtime"
	"github.com/DemoHn/Zn/pkg/value"
	libFile "github.com/DemoHn/Zn/stdlib/file"
	libJson "github.com/DemoHn/Zn/stdlib/json"
)

type obj = map[string]interface{}

// ---- JSON -> Element
func numOf(o obj) float64 {
	switch o["k"].(string) {
	case "int":
		return o["z"].(float64)
	case "half":
		return o["z"].(float64) + 0.5
	case "nan":
		return math.NaN()
	case "inf":
		if o["neg"].(bool) {
			return math.Inf(-1)
		}
		return math.Inf(1)
	case "big":
		if o["neg"].(bool) {
			return -1e300
		}
		return 1e300
	}
	panic("bad num")
}

func elemOf(v interface{}) r.Element {
	o := v.(map[string]interface{})
	switch o["t"].(string) {
	case "null", "self":
		return value.NewNull()
	case "bool":
		return value.NewBool(o["v"].(bool))
	case "num":
		return value.NewNumber(numOf(o))
	case "str":
		return value.NewString(hlib.StrOfCps(o["v"]))
	case "list":
		items := []r.Element{}
		for _, it := range o["v"].([]interface{}) {
			items = append(items, elemOf(it))
		}
		return value.NewArray(items)
	case "dict":
		return value.NewHashMap(pairsOf(o["v"]))
	}
	panic("bad value")
}

func pairsOf(v interface{}) []value.KVPair {
	pairs := []value.KVPair{}
	for _, p := range v.([]interface{}) {
		kv := p.([]interface{})
		pairs = append(pairs, value.KVPair{Key: hlib.StrOfCps(kv[0]), Value: elemOf(kv[1])})
	}
	return pairs
}

func elemsOf(v interface{}) []r.Element {
	res := []r.Element{}
	if v == nil {
		return res
	}
	for _, it := range v.([]interface{}) {
		res = append(res, elemOf(it))
	}
	return res
}

// ---- results
func okRes(e r.Element) obj { return obj{"kind": "ok", "v": hlib.DumpValue(e, 0)} }
func okNone() obj           { return obj{"kind": "ok", "v": obj{"t": "null"}} }
func errRes(err error) obj {
	if re, ok := err.(*zerr.RuntimeError); ok {
		return obj{"kind": "err", "code": re.Code}
	}
	d := hlib.DumpError(err)
	return obj{"kind": "err", "code": d["code"], "class": d["class"]}
}

func guard(f func() obj) (out obj) {
	defer func() {
		if p := recover(); p != nil {
			out = obj{"kind": "crash", "panic": fmt.Sprintf("%v", p)}
		}
	}()
	return f()
}

func textOf(e r.Element) (out interface{}) {
	defer func() {
		if p := recover(); p != nil {
			out = nil
		}
	}()
	return hlib.RunesOf(e.String())
}

const iterProg = "输入甲\n令结果 = 【】\n以K、V遍历甲：\n    以结果（后增：【K，V】）\n输出结果\n"

// the same walk, leaving every other pass through 继续循环 (after recording the pair): what a pass leaves with has no
// influence on the key / index and the value of the passes after it
const iterProgC = "输入甲\n令结果 = 【】\n令计 = 0\n以K、V遍历甲：\n    计 = 计 + 1\n    如果计 % 2 == 1：\n        以结果（后增：【K，V】）\n        继续循环\n    以结果（后增：【K，V】）\n输出结果\n"

// the (key, value) sequence produced by the real evalIterateStmt over the real collection object
func iterate(coll r.Element) obj {
	run := func(prog string) (r.Element, error) {
		var elem r.Element
		var err error
		hlib.CaptureStdout(func() {
			z := exec.NewInterpreter("verif").SetExternalLibs([]*r.Library{libJson.Export(), libFile.Export()})
			elem, err = z.LoadScript([]rune(prog)).Execute(r.ElementMap{"甲": coll})
		})
		return elem, err
	}
	elem, err := run(iterProg)
	if err != nil {
		return errRes(err)
	}
	elemC, errC := run(iterProgC)
	if errC != nil {
		return errRes(errC)
	}
	if elemC.String() != elem.String() {
		// report the walk that differs from the plain one
		return okRes(elemC)
	}
	return okRes(elem)
}

// the collection the last list method handed back when it is a list other than the receiver (合并, 逆序 ...)
var lastProduced r.Element

// one operation on a list; returns the result and the (possibly replaced) current list
func listOp(cur *value.Array, op obj) (obj, *value.Array) {
	next := cur
	lastProduced = nil
	res := guard(func() obj {
		switch op["op"].(string) {
		case "iget":
			// eval.go getMemberExprIV: vri := int(vr.GetValue()); value.NewArrayIV(v, vri)
			idx := elemOf(op["i"]).(*value.Number)
			iv := value.NewArrayIV(cur, int(idx.GetValue()))
			e, err := iv.ReduceRHS()
			if err != nil {
				return errRes(err)
			}
			return okRes(e)
		case "iset":
			idx := elemOf(op["i"]).(*value.Number)
			iv := value.NewArrayIV(cur, int(idx.GetValue()))
			if err := iv.ReduceLHS(elemOf(op["v"])); err != nil {
				return errRes(err)
			}
			return okNone()
		case "getp":
			e, err := value.NewMemberIV(cur, op["p"].(string)).ReduceRHS()
			if err != nil {
				return errRes(err)
			}
			// the reversed list is a list of its own, whatever the length of the receiver
			if a, ok := e.(*value.Array); ok && op["p"].(string) == "逆序" {
				lastProduced = a
			}
			return okRes(e)
		case "setp":
			if err := value.NewMemberIV(cur, op["p"].(string)).ReduceLHS(elemOf(op["v"])); err != nil {
				return errRes(err)
			}
			return okNone()
		case "meth":
			// {"t":"self"} among the arguments stands for the receiver itself (以A（合并：B、A）)
			args := elemsOf(op["args"])
			if raw, ok := op["args"].([]interface{}); ok {
				for i, a := range raw {
					if m, ok := a.(map[string]interface{}); ok && m["t"] == "self" {
						args[i] = cur
					}
				}
			}
			e, err := cur.ExecMethod(op["m"].(string), args)
			if err != nil {
				return errRes(err)
			}
			if a, ok := e.(*value.Array); ok && a != cur {
				lastProduced = a
			}
			return okRes(e)
		case "rev":
			e, err := cur.GetProperty("逆序")
			if err != nil {
				return errRes(err)
			}
			next = e.(*value.Array)
			return okRes(e)
		case "copy":
			e := value.DuplicateValue(cur)
			next = e.(*value.Array)
			return okRes(e)
		case "iter":
			return iterate(cur)
		}
		panic("bad op")
	})
	return res, next
}

func dictKey(i r.Element) string {
	// eval.go getMemberExprIV: a number index is used through its String()
	switch x := i.(type) {
	case *value.Number:
		return x.String()
	case *value.String:
		return x.String()
	}
	panic("bad dict index")
}

func dictOp(cur *value.HashMap, op obj) (obj, *value.HashMap) {
	next := cur
	res := guard(func() obj {
		switch op["op"].(string) {
		case "iget":
			e, err := value.NewHashMapIV(cur, dictKey(elemOf(op["i"]))).ReduceRHS()
			if err != nil {
				return errRes(err)
			}
			return okRes(e)
		case "iset":
			if err := value.NewHashMapIV(cur, dictKey(elemOf(op["i"]))).ReduceLHS(elemOf(op["v"])); err != nil {
				return errRes(err)
			}
			return okNone()
		case "getp":
			e, err := value.NewMemberIV(cur, op["p"].(string)).ReduceRHS()
			if err != nil {
				return errRes(err)
			}
			return okRes(e)
		case "setp":
			if err := value.NewMemberIV(cur, op["p"].(string)).ReduceLHS(elemOf(op["v"])); err != nil {
				return errRes(err)
			}
			return okNone()
		case "meth":
			e, err := cur.ExecMethod(op["m"].(string), elemsOf(op["args"]))
			if err != nil {
				return errRes(err)
			}
			return okRes(e)
		case "copy":
			e := value.DuplicateValue(cur)
			next = e.(*value.HashMap)
			return okRes(e)
		case "iter":
			return iterate(cur)
		}
		panic("bad op")
	})
	return res, next
}

// the collections an earlier "copy" operation duplicated: a copy is an independent value, so nothing done to the copy
// (or to a copy of the copy) may change what they hold or how they are displayed
type shadow struct {
	e    r.Element
	dump interface{}
	text interface{}
}

func dumpOf(e r.Element) (out interface{}) {
	defer func() {
		if p := recover(); p != nil {
			out = fmt.Sprintf("panic: %v", p)
		}
	}()
	return hlib.DumpValue(e, 0)
}

func newShadow(e r.Element) shadow { return shadow{e, dumpOf(e), textOf(e)} }

// checkShadows replaces the step's result by a "crash" record when an original changed under an operation on its copy
func checkShadows(shs []shadow, res obj) obj {
	for i, sh := range shs {
		if !reflect.DeepEqual(dumpOf(sh.e), sh.dump) || !reflect.DeepEqual(textOf(sh.e), sh.text) {
			return obj{"kind": "crash", "panic": fmt.Sprintf("the collection kept from earlier step #%d (the original of a copy, or a list a method returned) changed under a later operation on another collection: was %v, is %v",
				i+1, sh.text, textOf(sh.e)), "alias": true}
		}
	}
	return res
}

var commands = map[string]hlib.Handler{
	// {"init":[val...], "ops":[op...]}
	"list": func(in map[string]interface{}) map[string]interface{} {
		cur := value.NewArray(elemsOf(in["init"]))
		steps := []interface{}{}
		shs := []shadow{}
		for _, o := range in["ops"].([]interface{}) {
			var res obj
			prev := cur
			res, cur = listOp(cur, o.(map[string]interface{}))
			if o.(map[string]interface{})["op"] == "copy" && cur != prev {
				shs = append(shs, newShadow(prev))
			}
			// a list handed back by a method is a value of its own as well: later operations on the receiver leave it alone
			if lastProduced != nil {
				shs = append(shs, newShadow(lastProduced))
			}
			res = checkShadows(shs, res)
			steps = append(steps, obj{"r": res, "state": hlib.DumpValue(cur, 0), "text": textOf(cur)})
		}
		return obj{"steps": steps}
	},
	// {"init":[[key,val]...], "ops":[op...]}
	"dict": func(in map[string]interface{}) map[string]interface{} {
		cur := value.NewHashMap(pairsOf(in["init"]))
		steps := []interface{}{}
		first := obj{"state": hlib.DumpValue(cur, 0), "text": textOf(cur)}
		shs := []shadow{}
		for _, o := range in["ops"].([]interface{}) {
			var res obj
			prev := cur
			res, cur = dictOp(cur, o.(map[string]interface{}))
			if o.(map[string]interface{})["op"] == "copy" && cur != prev {
				shs = append(shs, newShadow(prev))
			}
			res = checkShadows(shs, res)
			steps = append(steps, obj{"r": res, "state": hlib.DumpValue(cur, 0), "text": textOf(cur)})
		}
		return obj{"init": first, "steps": steps}
	},
	// {"src": text}  ->  display lines, result kind, error code
	"prog": func(in map[string]interface{}) map[string]interface{} {
		var elem r.Element
		var err error
		src := hlib.RunesOfCps(in["src"])
		disp := hlib.CaptureStdout(func() {
			z := exec.NewInterpreter("verif").SetExternalLibs([]*r.Library{libJson.Export(), libFile.Export()})
			elem, err = z.LoadScript(src).Execute(r.ElementMap{})
		})
		lines := strings.Split(disp, "\n")
		if len(lines) > 0 && lines[len(lines)-1] == "" {
			lines = lines[:len(lines)-1]
		}
		dl := []interface{}{}
		for _, l := range lines {
			dl = append(dl, hlib.RunesOf(l))
		}
		out := obj{"display": dl}
		if err != nil {
			out["kind"] = "error"
			d := hlib.DumpError(err)
			out["code"] = d["code"]
			out["class"] = d["class"]
		} else {
			out["kind"] = "value"
			out["value"] = hlib.DumpValue(elem, 0)
		}
		return out
	},
}

func main() { hlib.Main(commands) }
