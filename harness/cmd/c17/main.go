package main

import (
	"crypto/sha256"
	"encoding/hex"
	"io"
	"os"
	"path/filepath"
	"strings"
	"znverif/hlib"

	zerr "github.com/DemoHn/Zn/pkg/error"
	"github.com/DemoHn/Zn/pkg/exec"
	zio "github.com/DemoHn/Zn/pkg/io"
	r "github.com/DemoHn/Zn/pkg/runtime"
	libFile "github.com/DemoHn/Zn/stdlib/file"
	libJson "github.com/DemoHn/Zn/stdlib/json"
)

// scripted reader: delivers the given chunks; a chunk flagged eof returns io.EOF together
// with its bytes; after the script, (0, io.EOF).
type scriptReader struct {
	chunks [][]byte
	eofs   []bool
	pos    int
}

func (s *scriptReader) Read(p []byte) (int, error) {
	if s.pos >= len(s.chunks) {
		return 0, io.EOF
	}
	c := s.chunks[s.pos]
	n := copy(p, c)
	if n < len(c) {
		// caller's buffer smaller than scripted chunk: deliver the rest next time
		s.chunks[s.pos] = c[n:]
		return n, nil
	}
	eof := s.eofs[s.pos]
	s.pos++
	if eof {
		s.pos = len(s.chunks)
		return n, io.EOF
	}
	return n, nil
}

func decodeResult(rs []rune, err error) map[string]interface{} {
	if err != nil {
		out := map[string]interface{}{"ok": false}
		if ioe, ok := err.(*zerr.IOError); ok {
			out["code"] = ioe.Code
		}
		return out
	}
	cps := make([]int, 0, len(rs))
	for _, c := range rs {
		cps = append(cps, int(c))
	}
	return map[string]interface{}{"ok": true, "runes": cps}
}

var commands = map[string]hlib.Handler{}

func main() {
	register()
	hlib.Main(commands)
}

func register() {
	// {"mode":"file","reads":[["hex",eof],...]} | {"mode":"bytes","hex":...} | {"mode":"realfile","hex":...}
	// | {"mode":"exec","hex":...}  (LoadFile + Execute on a temp file)
	commands["decode"] = func(in map[string]interface{}) map[string]interface{} {
		switch in["mode"].(string) {
		case "file":
			sr := &scriptReader{}
			for _, rd := range in["reads"].([]interface{}) {
				pr := rd.([]interface{})
				sr.chunks = append(sr.chunks, hlib.Unhex(pr[0].(string)))
				sr.eofs = append(sr.eofs, pr[1].(bool))
			}
			fs := zio.VerifNewFileStream(sr)
			return decodeResult(fs.ReadAll())
		case "bytes":
			bs := zio.NewByteStream(hlib.Unhex(in["hex"].(string)))
			return decodeResult(bs.ReadAll())
		case "realfile":
			dir, _ := os.MkdirTemp("", "znh")
			defer os.RemoveAll(dir)
			p := filepath.Join(dir, "a.zn")
			os.WriteFile(p, hlib.Unhex(in["hex"].(string)), 0644)
			fs, err := zio.NewFileStream(p)
			if err != nil {
				return map[string]interface{}{"ok": false, "open": true}
			}
			return decodeResult(fs.ReadAll())
		case "sized":
			// a real file of the given size: the unit repeated, cut at size; answer = rune count + sha256 of the re-encoded text
			dir, _ := os.MkdirTemp("", "znh")
			defer os.RemoveAll(dir)
			p := filepath.Join(dir, "a.zn")
			unit := hlib.Unhex(in["unit"].(string))
			size := int(in["size"].(float64))
			buf := make([]byte, 0, size+len(unit))
			for len(buf) < size {
				buf = append(buf, unit...)
			}
			buf = append(buf[:size], hlib.Unhex(in["tail"].(string))...)
			os.WriteFile(p, buf, 0644)
			fs, err := zio.NewFileStream(p)
			if err != nil {
				return map[string]interface{}{"ok": false, "open": true}
			}
			rs, err := fs.ReadAll()
			if err != nil {
				return map[string]interface{}{"ok": false}
			}
			sum := sha256.Sum256([]byte(string(rs)))
			return map[string]interface{}{"ok": true, "count": len(rs), "sha": hex.EncodeToString(sum[:])}
		case "exec":
			dir, _ := os.MkdirTemp("", "znh")
			defer os.RemoveAll(dir)
			p := filepath.Join(dir, "a.zn")
			os.WriteFile(p, hlib.Unhex(in["hex"].(string)), 0644)
			var elem r.Element
			var err error
			disp := hlib.CaptureStdout(func() {
				z := exec.NewInterpreter("verif").SetExternalLibs([]*r.Library{libJson.Export(), libFile.Export()})
				elem, err = z.LoadFile(p).Execute(r.ElementMap{})
			})
			out := map[string]interface{}{"display": strings.Split(disp, "\n")}
			if err != nil {
				out["kind"] = "error"
				out["err"] = hlib.DumpError(err)
			} else {
				out["kind"] = "value"
				out["value"] = hlib.DumpValue(elem, 0)
			}
			return out
		}
		return map[string]interface{}{"bad": true}
	}
}
