// c14 harness: text operations of pkg/value/string.go and the % formatter of pkg/exec
// (format_str.go + the % dispatch of eval.go), driven through exported API only:
//   - value.NewString(s).GetProperty / ExecMethod   (direct)
//   - a one-line program `输入甲、乙…` + `输出 …` run by the interpreter with the operands
//     handed over as input variables (so arbitrary texts / doubles need no literal syntax).
package main

import (
	"fmt"
	"math"
	"strconv"
	"znverif/hlib"

	"github.com/DemoHn/Zn/pkg/exec"
	r "github.com/DemoHn/Zn/pkg/runtime"
	"github.com/DemoHn/Zn/pkg/value"
	libFile "github.com/DemoHn/Zn/stdlib/file"
	libJson "github.com/DemoHn/Zn/stdlib/json"
)

var commands = map[string]hlib.Handler{}

func main() {
	register()
	hlib.Main(commands)
}

func bitsOf(s string) float64 {
	u, err := strconv.ParseUint(s, 16, 64)
	if err != nil {
		panic("bad bits")
	}
	return math.Float64frombits(u)
}

// goString: {"cps":[...]} (string(runes)) or {"hex":"..."} (raw bytes)
func goString(v interface{}) string {
	switch x := v.(type) {
	case map[string]interface{}:
		if h, ok := x["hex"]; ok {
			return string(hlib.Unhex(h.(string)))
		}
		return string(hlib.RunesOfCps(x["cps"]))
	}
	return string(hlib.RunesOfCps(v))
}

// mkElem builds an element from its tagged description.
// rv collects the %v rendering (Element.String) of every number met: bits -> code points.
func mkElem(d map[string]interface{}, rv map[string]interface{}) r.Element {
	switch d["t"].(string) {
	case "num":
		n := value.NewNumber(bitsOf(d["bits"].(string)))
		rv[d["bits"].(string)] = hlib.RunesOf(n.String())
		return n
	case "str":
		return value.NewString(goString(d["v"]))
	case "bool":
		return value.NewBool(d["v"].(bool))
	case "null":
		return value.NewNull()
	case "list":
		items := []r.Element{}
		for _, it := range d["v"].([]interface{}) {
			items = append(items, mkElem(it.(map[string]interface{}), rv))
		}
		return value.NewArray(items)
	case "dict":
		pairs := []value.KVPair{}
		for _, it := range d["v"].([]interface{}) {
			kv := it.([]interface{})
			pairs = append(pairs, value.KVPair{Key: goString(kv[0]), Value: mkElem(kv[1].(map[string]interface{}), rv)})
		}
		return value.NewHashMap(pairs)
	case "exc":
		return value.NewException("x")
	case "func":
		return value.NewFunction(nil)
	}
	panic("bad element tag")
}

func bytesOf(s string) []int {
	out := make([]int, 0, len(s))
	for i := 0; i < len(s); i++ {
		out = append(out, int(s[i]))
	}
	return out
}

// dumpB: like hlib.DumpValue but text as raw BYTES (so a split character is visible as such)
func dumpB(e r.Element, depth int) interface{} {
	if depth > 50 {
		return map[string]interface{}{"t": "deep"}
	}
	switch v := e.(type) {
	case *value.String:
		return map[string]interface{}{"t": "str", "b": bytesOf(v.GetValue())}
	case *value.Array:
		items := []interface{}{}
		for _, it := range v.GetValue() {
			items = append(items, dumpB(it, depth+1))
		}
		return map[string]interface{}{"t": "list", "v": items}
	}
	return hlib.DumpValue(e, depth)
}

func result(elem r.Element, err error) map[string]interface{} {
	if err != nil {
		return map[string]interface{}{"kind": "error", "err": hlib.DumpError(err)}
	}
	return map[string]interface{}{"kind": "value", "value": dumpB(elem, 0)}
}

func runProgram(src string, inputs r.ElementMap) (r.Element, error, string) {
	var elem r.Element
	var err error
	disp := hlib.CaptureStdout(func() {
		z := exec.NewInterpreter("verif").SetExternalLibs([]*r.Library{libJson.Export(), libFile.Export()})
		elem, err = z.LoadScript([]rune(src)).Execute(inputs)
	})
	return elem, err, disp
}

func register() {
	// {"s":<gostring>, "op": "长度"|"字数"|"字符组"|"文本" (property) or "取样"|"分隔"|... (method),
	//  "args":[elem...], "prop":bool, "via":"api"|"interp"}
	commands["textop"] = func(in map[string]interface{}) map[string]interface{} {
		rv := map[string]interface{}{}
		s := value.NewString(goString(in["s"]))
		op := in["op"].(string)
		args := []r.Element{}
		if a, ok := in["args"].([]interface{}); ok {
			for _, it := range a {
				args = append(args, mkElem(it.(map[string]interface{}), rv))
			}
		}
		isProp, _ := in["prop"].(bool)
		// "history": what is done to the lists that EARLIER reads of 字符组 of this same text handed back, before the read that
		// is reported: the characters of a text are the characters of the text whatever happened to those lists
		if hist, ok := in["history"].([]interface{}); ok && in["via"] != "interp" {
			for _, h := range hist {
				prev, err := s.GetProperty("字符组")
				arr, isArr := prev.(*value.Array)
				if err != nil || !isArr {
					continue
				}
				func() {
					defer func() { recover() }()
					switch h.(string) {
					case "swap":
						arr.ExecMethod("交换", []r.Element{value.NewNumber(1), value.NewNumber(float64(len(arr.GetValue())))})
					case "set-first":
						arr.SetProperty("首项", value.NewString("X"))
					case "set-index":
						value.NewArrayIV(arr, 1).ReduceLHS(value.NewString("Y"))
					case "pop-add":
						arr.ExecMethod("右移", []r.Element{})
						arr.ExecMethod("后增", []r.Element{value.NewString("Z")})
					case "shift-add":
						arr.ExecMethod("左移", []r.Element{})
						arr.ExecMethod("前增", []r.Element{value.NewString("W")})
					case "reverse-assign":
						arr.ExecMethod("后增", []r.Element{value.NewString("Q")})
					}
				}()
			}
		}
		if in["via"] == "interp" {
			inputs := r.ElementMap{"甲": s}
			names := []string{"乙", "丙", "丁"}
			src := "输入甲"
			call := ""
			for i, a := range args {
				inputs[names[i]] = a
				src += "、" + names[i]
				if i > 0 {
					call += "、"
				}
				call += names[i]
			}
			if isProp {
				src += "\n输出甲之" + op + "\n"
			} else if len(args) == 0 {
				src += "\n输出以甲（" + op + "）\n"
			} else {
				src += "\n输出以甲（" + op + "：" + call + "）\n"
			}
			elem, err, _ := runProgram(src, inputs)
			return result(elem, err)
		}
		if isProp {
			return result(s.GetProperty(op))
		}
		return result(s.ExecMethod(op, args))
	}

	// {"tpl":<gostring>, "args":[elem...]}            -> 甲 % 乙 with 甲 text, 乙 list
	// {"left":elem, "right":elem}                     -> 甲 % 乙 with arbitrary operands (dispatch)
	commands["format"] = func(in map[string]interface{}) map[string]interface{} {
		rv := map[string]interface{}{}
		var left, right r.Element
		if l, ok := in["left"]; ok {
			left = mkElem(l.(map[string]interface{}), rv)
			right = mkElem(in["right"].(map[string]interface{}), rv)
		} else {
			left = value.NewString(goString(in["tpl"]))
			items := []r.Element{}
			for _, it := range in["args"].([]interface{}) {
				items = append(items, mkElem(it.(map[string]interface{}), rv))
			}
			right = value.NewArray(items)
		}
		elem, err, _ := runProgram("输入甲、乙\n输出甲 % 乙\n", r.ElementMap{"甲": left, "乙": right})
		out := result(elem, err)
		out["rv"] = rv
		return out
	}

	// Go library behaviour that the model restates: {"bits":hex, "verb":"%+.3f"} -> fmt.Sprintf(verb, x);
	// "mul100":true formats x*100; "int":true returns int(x) (the float->int conversion used by 取样)
	commands["render"] = func(in map[string]interface{}) map[string]interface{} {
		x := bitsOf(in["bits"].(string))
		if b, _ := in["int"].(bool); b {
			return map[string]interface{}{"int": fmt.Sprintf("%d", int(x))}
		}
		if b, _ := in["mul100"].(bool); b {
			x = x * 100
		}
		return map[string]interface{}{"s": hlib.RunesOf(fmt.Sprintf(in["verb"].(string), x)), "bits": hlib.Bits2Str(math.Float64bits(x))}
	}
}
