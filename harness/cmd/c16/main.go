// znh_c16 — isolation of executions (property C16): program sequences in one process, scripted
// interleavings over one shared interpreter, concurrent requests through the playground handler.
package main

import (
	"os"
	"path/filepath"
	"github.com/DemoHn/Zn/pkg/common"
	"bytes"
	"encoding/json"
	"net/http"
	"net/http/httptest"
	"strings"
	"sync"

	"github.com/DemoHn/Zn/pkg/exec"
	r "github.com/DemoHn/Zn/pkg/runtime"
	"github.com/DemoHn/Zn/pkg/server"
	libFile "github.com/DemoHn/Zn/stdlib/file"
	libJson "github.com/DemoHn/Zn/stdlib/json"
	"znverif/hlib"
)

var commands = map[string]hlib.Handler{}

func main() {
	register()
	hlib.Main(commands)
}

// the @HTTP library is registered the way stdlib/http registers it (that package does not compile in this tree):
// its two types live in pkg/common and are process-wide values
func httpLib() *r.Library {
	return r.NewLibrary("@HTTP").
		RegisterClass("HTTP请求", common.CLASS_HttpRequest).
		RegisterClass("HTTP响应", common.CLASS_HttpResponse)
}

func libs() []*r.Library { return []*r.Library{libJson.Export(), libFile.Export(), httpLib()} }

func outcome(elem r.Element, err error, disp string) map[string]interface{} {
	lines := strings.Split(disp, "\n")
	if len(lines) > 0 && lines[len(lines)-1] == "" {
		lines = lines[:len(lines)-1]
	}
	dl := [][]int{}
	for _, l := range lines {
		dl = append(dl, hlib.RunesOf(l))
	}
	out := map[string]interface{}{"display": dl}
	if err != nil {
		out["kind"] = "error"
		e := hlib.DumpError(err)
		delete(e, "stack")
		delete(e, "scopes")
		out["err"] = e
	} else {
		out["kind"] = "value"
		out["value"] = hlib.DumpValue(elem, 0)
	}
	return out
}

func runOne(z *exec.Interpreter, src string) map[string]interface{} {
	var elem r.Element
	var err error
	disp := hlib.CaptureStdout(func() {
		elem, err = z.LoadScript([]rune(src)).Execute(r.ElementMap{})
	})
	return outcome(elem, err, disp)
}

// {"steps":[{"write":{"rel/path.zn":"text",...}} | {"run":"rel/main.zn"}], "shared":bool}: file-based executions (LoadFile, imports
// of module files next to the main file) in one process; files may change between executions. Returns the outcome of every run step.
func fileSeq(in map[string]interface{}) map[string]interface{} {
	dir, err := os.MkdirTemp("", "znc16-")
	if err != nil {
		return map[string]interface{}{"error": err.Error()}
	}
	defer os.RemoveAll(dir)
	shared, _ := in["shared"].(bool)
	z := exec.NewInterpreter("verif").SetExternalLibs(libs())
	outs := []interface{}{}
	for _, st := range in["steps"].([]interface{}) {
		step := st.(map[string]interface{})
		if w, ok := step["write"].(map[string]interface{}); ok {
			for rel, txt := range w {
				full := filepath.Join(dir, rel)
				os.MkdirAll(filepath.Dir(full), 0o755)
				os.WriteFile(full, []byte(txt.(string)), 0o644)
			}
			continue
		}
		zi := z
		if !shared {
			zi = exec.NewInterpreter("verif").SetExternalLibs(libs())
		}
		var elem r.Element
		var rerr error
		disp := hlib.CaptureStdout(func() { elem, rerr = zi.LoadFile(filepath.Join(dir, step["run"].(string))).Execute(r.ElementMap{}) })
		o := outcome(elem, rerr, disp)
		if e, ok := o["err"].(map[string]interface{}); ok {
			delete(e, "display") // quotes absolute paths of the scratch directory
		}
		outs = append(outs, o)
	}
	return map[string]interface{}{"outs": outs}
}

// {"items":[{"vars":"input-variable text","src":"program"}...], "shared":bool}: what cmd/zinc and the playground do for every
// request — evaluate the input-variable text, then execute the program with the values it yields — several times in one process
func varSeq(in map[string]interface{}) map[string]interface{} {
	shared, _ := in["shared"].(bool)
	z := exec.NewInterpreter("verif").SetExternalLibs(libs())
	outs := []interface{}{}
	for _, it := range in["items"].([]interface{}) {
		item := it.(map[string]interface{})
		zi := z
		if !shared {
			zi = exec.NewInterpreter("verif").SetExternalLibs(libs())
		}
		inputs, verr := zi.ExecuteVarInputText(item["vars"].(string))
		if verr != nil {
			outs = append(outs, map[string]interface{}{"kind": "varinput-error", "msg": verr.Error()})
			continue
		}
		outs = append(outs, runWith(zi, item["src"].(string), inputs))
	}
	return map[string]interface{}{"outs": outs}
}

func runWith(z *exec.Interpreter, src string, inputs r.ElementMap) map[string]interface{} {
	var elem r.Element
	var err error
	disp := hlib.CaptureStdout(func() { elem, err = z.LoadScript([]rune(src)).Execute(inputs) })
	return outcome(elem, err, disp)
}

func register() {
	commands["varseq"] = varSeq
	commands["fileseq"] = fileSeq
	// {"progs":[src...], "shared":bool}: run the programs one after the other in this process, through one
	// interpreter object (shared) or a new one each; returns every outcome
	commands["seq"] = func(in map[string]interface{}) map[string]interface{} {
		shared, _ := in["shared"].(bool)
		z := exec.NewInterpreter("verif").SetExternalLibs(libs())
		outs := []interface{}{}
		for _, p := range in["progs"].([]interface{}) {
			zi := z
			if !shared {
				zi = exec.NewInterpreter("verif").SetExternalLibs(libs())
			}
			outs = append(outs, runOne(zi, hlib.StrOfCps(p)))
		}
		return map[string]interface{}{"outs": outs}
	}
	// {"srcs":[src...], "sched":[["load",i]|["exec",i]...]}: handlers share ONE interpreter object;
	// "load i" = the handler's LoadScript call, "exec i" = Execute on what that call returned
	commands["interleave"] = func(in map[string]interface{}) map[string]interface{} {
		z := exec.NewInterpreter("verif").SetExternalLibs(libs())
		srcs := in["srcs"].([]interface{})
		loaded := map[int]*exec.Interpreter{}
		ran := []interface{}{}
		for _, st := range in["sched"].([]interface{}) {
			pr := st.([]interface{})
			i := int(pr[1].(float64))
			if pr[0].(string) == "load" {
				loaded[i] = z.LoadScript([]rune(hlib.StrOfCps(srcs[i])))
			} else {
				var elem r.Element
				var err error
				disp := hlib.CaptureStdout(func() { elem, err = loaded[i].Execute(r.ElementMap{}) })
				ran = append(ran, []interface{}{i, outcome(elem, err, disp)})
			}
		}
		return map[string]interface{}{"ran": ran}
	}
	// {"bodies":[raw request bodies], "shared":bool}: requests through the playground HTTP handler one after the other (one
	// handler over one interpreter, or a new handler and interpreter per request): [status, body] of every response
	commands["pgseq"] = func(in map[string]interface{}) map[string]interface{} {
		shared, _ := in["shared"].(bool)
		var h http.Handler
		if shared {
			h = server.NewZnPlaygroundHandler(exec.NewInterpreter("verif").SetExternalLibs(libs()))
		}
		outs := []interface{}{}
		for _, b := range in["bodies"].([]interface{}) {
			hh := h
			if !shared {
				hh = server.NewZnPlaygroundHandler(exec.NewInterpreter("verif").SetExternalLibs(libs()))
			}
			req := httptest.NewRequest(http.MethodPost, "/", strings.NewReader(b.(string)))
			rec := httptest.NewRecorder()
			hh.ServeHTTP(rec, req)
			outs = append(outs, []interface{}{rec.Code, rec.Body.String()})
		}
		return map[string]interface{}{"outs": outs}
	}
	// {"n":goroutines, "iters":k}: real concurrency through the playground HTTP handler over one interpreter;
	// request j must be answered with j's own result
	commands["concurrent"] = func(in map[string]interface{}) map[string]interface{} {
		n := int(in["n"].(float64))
		iters := int(in["iters"].(float64))
		z := exec.NewInterpreter("verif").SetExternalLibs(libs())
		h := server.NewZnPlaygroundHandler(z)
		var wg sync.WaitGroup
		var mu sync.Mutex
		wrong := []interface{}{}
		for g := 0; g < n; g++ {
			wg.Add(1)
			go func(g int) {
				defer wg.Done()
				for k := 0; k < iters; k++ {
					want := g*1000 + k
					// every other request carries its number in an input-variable text (read through the same stream code as files)
					bodyMap := map[string]string{"SourceCode": "令A = " + itoa(want) + "\n输出A"}
					if k%2 == 1 {
						bodyMap = map[string]string{"VarInput": "注：请求" + itoa(want) + "的输入\nV = " + itoa(want), "SourceCode": "输入V\n输出V"}
					}
					body, _ := json.Marshal(bodyMap)
					req := httptest.NewRequest(http.MethodPost, "/", bytes.NewReader(body))
					rec := httptest.NewRecorder()
					h.ServeHTTP(rec, req)
					got := strings.TrimSpace(rec.Body.String())
					if got != itoa(want) {
						mu.Lock()
						if len(wrong) < 5 {
							wrong = append(wrong, []interface{}{want, got})
						}
						mu.Unlock()
					}
				}
			}(g)
		}
		wg.Wait()
		return map[string]interface{}{"wrong": wrong, "requests": n * iters}
	}
}

func itoa(n int) string {
	if n == 0 {
		return "0"
	}
	s := ""
	for n > 0 {
		s = string(rune('0'+n%10)) + s
		n /= 10
	}
	return s
}
