// znh_sem — runs Zn programs through the interpreter for the evaluator properties (C01 C02 C07 C08 C09 C11 C16 C18).
package main

import (
	"math"
	"strconv"
	"strings"

	"github.com/DemoHn/Zn/pkg/exec"
	r "github.com/DemoHn/Zn/pkg/runtime"
	"github.com/DemoHn/Zn/pkg/syntax"
	"github.com/DemoHn/Zn/pkg/syntax/zh"
	"github.com/DemoHn/Zn/pkg/value"
	libFile "github.com/DemoHn/Zn/stdlib/file"
	libJson "github.com/DemoHn/Zn/stdlib/json"
	"znverif/hlib"
)

var commands = map[string]hlib.Handler{}

func main() {
	register()
	hlib.Main(commands)
}

// buildValue turns a JSON description into an element: {"t":"num","bits":"hex"} {"t":"str","v":[cps]}
// {"t":"bool","v":true} {"t":"null"} {"t":"list","v":[...]} {"t":"dict","v":[[key cps, value],...]}
func buildValue(v interface{}) r.Element {
	m := v.(map[string]interface{})
	switch m["t"].(string) {
	case "num":
		b, _ := strconv.ParseUint(m["bits"].(string), 16, 64)
		return value.NewNumber(math.Float64frombits(b))
	case "str":
		return value.NewString(hlib.StrOfCps(m["v"]))
	case "bool":
		return value.NewBool(m["v"].(bool))
	case "null":
		return value.NewNull()
	case "list":
		items := []r.Element{}
		for _, it := range m["v"].([]interface{}) {
			items = append(items, buildValue(it))
		}
		return value.NewArray(items)
	case "dict":
		pairs := []value.KVPair{}
		for _, it := range m["v"].([]interface{}) {
			kv := it.([]interface{})
			pairs = append(pairs, value.KVPair{Key: hlib.StrOfCps(kv[0]), Value: buildValue(kv[1])})
		}
		return value.NewHashMap(pairs)
	}
	return value.NewNull()
}

func libs() []*r.Library {
	return []*r.Library{libJson.Export(), libFile.Export()}
}

func runOnce(in map[string]interface{}) map[string]interface{} {
	src := hlib.RunesOfCps(in["src"])
	inputs := r.ElementMap{}
	if iv, ok := in["inputs"].(map[string]interface{}); ok {
		for k, v := range iv {
			inputs[k] = buildValue(v)
		}
	}
	mode, _ := in["mode"].(string)
	out := map[string]interface{}{}
	var elem r.Element
	var err error
	var vm *r.VM
	disp := hlib.CaptureStdout(func() {
		if mode == "vm" {
			// the steps of Interpreter.Execute, keeping the VM so that its final state can be observed
			parser := syntax.NewParser(src, zh.NewParserZH())
			program, perr := parser.Compile()
			if perr != nil {
				err = exec.WrapSyntaxError(parser, exec.MODULE_NAME_MAIN, perr)
				return
			}
			vm = r.InitVM(exec.NewGlobalValues())
			vm.LoadExternalLibs(libs())
			elem, err = exec.EvalMainModule(vm, program, inputs)
			if err != nil {
				err = exec.WrapRuntimeError(vm, err)
			}
		} else {
			z := exec.NewInterpreter("verif").SetExternalLibs(libs())
			elem, err = z.LoadScript(src).Execute(inputs)
		}
	})
	lines := strings.Split(disp, "\n")
	if len(lines) > 0 && lines[len(lines)-1] == "" {
		lines = lines[:len(lines)-1]
	}
	dl := [][]int{}
	for _, l := range lines {
		dl = append(dl, hlib.RunesOf(l))
	}
	out["display"] = dl
	if err != nil {
		out["kind"] = "error"
		out["err"] = hlib.DumpError(err)
	} else {
		out["kind"] = "value"
		out["value"] = hlib.DumpValue(elem, 0)
	}
	if vm != nil && err == nil {
		out["stack"] = vm.VerifCallStackInfo()
		out["scopes"] = vm.VerifScopeInfo()
	}
	return out
}

func register() {
	// {"src":[cps] | "text", "inputs":{name:value}, "mode":"exec"|"vm", "repeat":n}
	commands["run"] = func(in map[string]interface{}) map[string]interface{} {
		rep := 1
		if v, ok := in["repeat"].(float64); ok && v > 1 {
			rep = int(v)
		}
		first := runOnce(in)
		if rep > 1 {
			all := []interface{}{first}
			for i := 1; i < rep; i++ {
				all = append(all, runOnce(in))
			}
			return map[string]interface{}{"runs": all}
		}
		return first
	}
	// {"src":...}: parse only; returns the stringified tree or the syntax error
	commands["parse"] = func(in map[string]interface{}) map[string]interface{} {
		src := hlib.RunesOfCps(in["src"])
		parser := syntax.NewParser(src, zh.NewParserZH())
		program, perr := parser.Compile()
		starts := []int{}
		for _, li := range parser.GetLexer().Lines {
			starts = append(starts, li.StartIdx)
		}
		if perr != nil {
			return map[string]interface{}{"kind": "error", "lines": starts, "err": hlib.DumpError(exec.WrapSyntaxError(parser, exec.MODULE_NAME_MAIN, perr))}
		}
		return map[string]interface{}{"kind": "tree", "lines": starts, "tree": syntax.StringifyAST(program)}
	}
}
