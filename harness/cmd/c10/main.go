// znh c10 — harness for property C10 ("no program can crash the host process").
// Commands (one JSON case per line, see hlib):
//   api       one built-in member applied to boundary values at API level (GetProperty/SetProperty/ExecMethod/
//             Construct/library function/IV index read+write/Validate*); panics are caught per case by hlib
//             ({"panic":..}); a nil Element with a nil error is reported as kind "nilok"
//   prog      a one-call program through the interpreter (stack overflow / exit are seen by the driver)
//   varinput  exec.ExecVarInputText on a text
//   vmops     VM accessors on a VM with a scripted call stack
//   heapops   a script of list/dictionary mutations on a small heap, result dumped as trees
package main

import (
	"encoding/hex"
	"fmt"
	"math"
	"os"
	"runtime/debug"
	"strconv"
	"strings"
	"znverif/hlib"

	"github.com/DemoHn/Zn/pkg/common"
	zerr "github.com/DemoHn/Zn/pkg/error"
	"github.com/DemoHn/Zn/pkg/exec"
	r "github.com/DemoHn/Zn/pkg/runtime"
	"github.com/DemoHn/Zn/pkg/value"
	libFile "github.com/DemoHn/Zn/stdlib/file"
	libJson "github.com/DemoHn/Zn/stdlib/json"
)

type M = map[string]interface{}

var commands = map[string]hlib.Handler{}

func main() {
	commands["api"] = cmdAPI
	commands["prog"] = cmdProg
	commands["varinput"] = cmdVarInput
	commands["vmops"] = cmdVMOps
	commands["heapops"] = cmdHeapOps
	hlib.Main(commands)
}

var libs = map[string]*r.Library{}
var classes = map[string]*value.ClassModel{}

func init() {
	for _, l := range []*r.Library{libJson.Export(), libFile.Export()} {
		libs[l.GetName()] = l
	}
	classes["HTTP请求"] = common.CLASS_HttpRequest
	classes["HTTP响应"] = common.CLASS_HttpResponse
}

// a user-level class with one property and one method, for object receivers/arguments
var userClass = func() *value.ClassModel {
	cm := value.NewClassModel("货件")
	cm.DefineProperty("名称", value.NewString("甲"))
	cm.DefineProperty("件数", value.NewArray([]r.Element{value.NewNumber(1)}))
	cm.DefineMethod("回声", value.NewFunction(func(recv r.Element, ps []r.Element) (r.Element, error) {
		return value.NewNumber(float64(len(ps))), nil
	}))
	return cm
}()

func bitsNum(s string) float64 {
	u, err := strconv.ParseUint(s, 16, 64)
	if err != nil {
		panic("bad bits " + s)
	}
	return math.Float64frombits(u)
}

// build a value from its JSON spec; self = the receiver (for alias arguments)
func build(spec interface{}, self r.Element) r.Element {
	m, ok := spec.(map[string]interface{})
	if !ok {
		panic("bad value spec")
	}
	switch m["t"].(string) {
	case "null":
		return value.NewNull()
	case "bool":
		return value.NewBool(m["v"].(bool))
	case "num":
		return value.NewNumber(bitsNum(m["bits"].(string)))
	case "str":
		return value.NewString(hlib.StrOfCps(m["v"]))
	case "strbytes":
		// a text value with arbitrary (possibly ill-formed UTF-8) bytes, e.g. read from a file
		return value.NewString(string(hlib.Unhex(m["hex"].(string))))
	case "list":
		items := []r.Element{}
		for _, it := range m["v"].([]interface{}) {
			items = append(items, build(it, self))
		}
		return value.NewArray(items)
	case "dict":
		kvs := []value.KVPair{}
		for _, it := range m["v"].([]interface{}) {
			p := it.([]interface{})
			kvs = append(kvs, value.KVPair{Key: hlib.StrOfCps(p[0]), Value: build(p[1], self)})
		}
		return value.NewHashMap(kvs)
	case "obj":
		return value.NewObject(userClass, r.ElementMap{})
	case "func":
		return value.NewFunction(func(recv r.Element, ps []r.Element) (r.Element, error) { return value.NewNull(), nil })
	case "class":
		return userClass
	case "exc":
		return value.NewException(hlib.StrOfCps(m["msg"]))
	case "go":
		return value.NewGoValue(m["tag"].(string), 42)
	case "self":
		if self == nil {
			return value.NewNull()
		}
		return self
	case "global":
		e, ok := exec.GlobalValues[m["name"].(string)]
		if !ok {
			panic("no such global")
		}
		if n, isNum := e.(*value.Number); isNum {
			// 数值 is a process-wide mutable number (C16's subject): work on a private copy
			return value.NewNumber(n.GetValue())
		}
		return e
	case "libfn":
		l, ok := libs[m["lib"].(string)]
		if !ok {
			panic("no such library")
		}
		e, ok := l.GetAllExportValues()[m["name"].(string)]
		if !ok {
			panic("no such library member")
		}
		return e
	case "stdclass":
		c, ok := classes[m["name"].(string)]
		if !ok {
			panic("no such class")
		}
		return c
	case "stdobj":
		c, ok := classes[m["name"].(string)]
		if !ok {
			panic("no such class")
		}
		return value.NewObject(c, r.ElementMap{})
	}
	panic("bad value tag")
}

func buildArgs(in M, self r.Element) []r.Element {
	args := []r.Element{}
	if a, ok := in["args"].([]interface{}); ok {
		for _, s := range a {
			args = append(args, build(s, self))
		}
	}
	return args
}

func errInfo(err error) M {
	res := M{}
	switch e := err.(type) {
	case *zerr.RuntimeError:
		res["class"] = "runtime"
		res["code"] = e.Code
	case *zerr.Signal:
		res["class"] = "signal"
		res["code"] = int(e.SigType)
		if e.SigType == zerr.SigTypeException {
			if _, ok := e.Extra.(r.Element); !ok {
				res["badextra"] = true
			}
		}
	case *value.Exception:
		res["class"] = "exception"
	case *zerr.SyntaxError:
		res["class"] = "syntax"
		res["code"] = e.Code
	case *zerr.SemanticError:
		res["class"] = "semantic"
		res["code"] = e.Code
	case *zerr.IOError:
		res["class"] = "io"
		res["code"] = e.Code
	default:
		if err == nil {
			res["class"] = "nilerr"
		} else {
			res["class"] = "other"
		}
	}
	return res
}

// hasNil - a nil Element anywhere inside a value (crashes whoever displays/copies it)
func hasNil(e r.Element, depth int) bool {
	if e == nil {
		return true
	}
	if depth > 64 {
		return false
	}
	switch v := e.(type) {
	case *value.Array:
		for _, it := range v.GetValue() {
			if hasNil(it, depth+1) {
				return true
			}
		}
	case *value.HashMap:
		for _, it := range v.GetValue() {
			if hasNil(it, depth+1) {
				return true
			}
		}
	}
	return false
}

func outcome(elem r.Element, err error, display bool) M {
	if err != nil {
		return M{"kind": "error", "err": errInfo(err)}
	}
	if elem == nil {
		return M{"kind": "nilok"}
	}
	if hasNil(elem, 0) {
		return M{"kind": "nilinside"}
	}
	out := M{"kind": "value", "value": hlib.DumpValue(elem, 0)}
	if sv, ok := elem.(*value.String); ok {
		out["bytes"] = hex.EncodeToString([]byte(sv.GetValue()))
	}
	if display {
		// what 显示 / 输出 / 令 / 为 do with a result: String(), DuplicateValue, CompareValues
		out["strlen"] = len(elem.String())
		value.DuplicateValue(elem)
	}
	return out
}

func safeName(s string) bool {
	if strings.ContainsAny(s, "/\\") || s == ".." || s == "." || strings.HasPrefix(s, "~") || strings.ContainsRune(s, 0) {
		return false
	}
	return true
}

// {"op":"get|set|method|construct|call|index_get|index_set|validate|display|json", "recv":spec, "name":..., "args":[spec], "cwd":dir}
func cmdAPI(in M) M {
	// a cyclic value overflows the goroutine stack: let that happen quickly (hlib sets 256 MB)
	debug.SetMaxStack(64 << 20)
	if cwd, ok := in["cwd"].(string); ok && cwd != "" {
		if err := os.Chdir(cwd); err != nil {
			return M{"skipped": "chdir"}
		}
	}
	op := in["op"].(string)
	name, _ := in["name"].(string)
	var recv r.Element
	if in["recv"] != nil {
		recv = build(in["recv"], nil)
	}
	args := buildArgs(in, recv)
	fileGuard := false
	if rm, ok := in["recv"].(map[string]interface{}); ok && rm["t"] == "libfn" && rm["lib"] == "@文件" {
		fileGuard = true
	}
	if fileGuard {
		if cwd, _ := in["cwd"].(string); cwd == "" {
			return M{"skipped": "file function without sandbox dir"}
		}
		for _, a := range args {
			if s, ok := a.(*value.String); ok && !safeName(s.GetValue()) {
				return M{"skipped": "path outside sandbox"}
			}
		}
	}
	var out M
	switch op {
	case "get":
		e, err := recv.GetProperty(name)
		out = outcome(e, err, true)
	case "set":
		if len(args) != 1 {
			return M{"bad": "set needs one arg"}
		}
		// `A之名 = V` copies V first (evalVarAssignExpr)
		err := recv.SetProperty(name, value.DuplicateValue(args[0]))
		if err != nil {
			out = M{"kind": "error", "err": errInfo(err)}
		} else {
			out = M{"kind": "value", "value": M{"t": "unit"}}
		}
	case "method":
		e, err := recv.ExecMethod(name, args)
		out = outcome(e, err, true)
	case "construct":
		c, ok := recv.(r.ConstructableElement)
		if !ok {
			return M{"kind": "error", "err": M{"class": "notconstructable"}}
		}
		e, err := c.Construct(args)
		out = outcome(e, err, true)
	case "call":
		fn, ok := recv.(*value.Function)
		if !ok {
			return M{"kind": "error", "err": M{"class": "notfunction"}}
		}
		var e r.Element
		var err error
		hlib.CaptureStdout(func() { e, err = fn.Exec(nil, args) })
		out = outcome(e, err, true)
	case "index_get", "index_set":
		// what getMemberExprIV does for A#i
		if len(args) < 1 {
			return M{"bad": "index needs an index arg"}
		}
		var iv *value.IV
		switch root := recv.(type) {
		case *value.Array:
			n, ok := args[0].(*value.Number)
			if !ok {
				return M{"kind": "error", "err": M{"class": "runtime", "code": zerr.ErrInvalidExprType}}
			}
			iv = value.NewArrayIV(root, int(n.GetValue()))
		case *value.HashMap:
			switch x := args[0].(type) {
			case *value.Number:
				iv = value.NewHashMapIV(root, x.String())
			case *value.String:
				iv = value.NewHashMapIV(root, x.String())
			default:
				return M{"kind": "error", "err": M{"class": "runtime", "code": zerr.ErrInvalidExprType}}
			}
		default:
			// ill-typed root: the IV constructors accept any root
			if n, ok := args[0].(*value.Number); ok {
				iv = value.NewArrayIV(recv, int(n.GetValue()))
			} else {
				iv = value.NewHashMapIV(recv, args[0].String())
			}
		}
		if op == "index_get" {
			e, err := iv.ReduceRHS()
			out = outcome(e, err, true)
		} else {
			var v r.Element = value.NewNumber(7)
			if len(args) > 1 {
				v = args[1]
			}
			err := iv.ReduceLHS(value.DuplicateValue(v))
			if err != nil {
				out = M{"kind": "error", "err": errInfo(err)}
			} else {
				out = M{"kind": "value", "value": M{"t": "unit"}}
			}
		}
	case "validate":
		tys := []string{}
		for _, t := range in["types"].([]interface{}) {
			tys = append(tys, t.(string))
		}
		var err error
		switch name {
		case "exact":
			err = value.ValidateExactParams(args, tys...)
		case "least":
			err = value.ValidateLeastParams(args, tys...)
		case "all":
			err = value.ValidateAllParams(args, tys[0])
		default:
			return M{"bad": "validator"}
		}
		if err != nil {
			out = M{"kind": "error", "err": errInfo(err)}
		} else {
			out = M{"kind": "value", "value": M{"t": "unit"}}
		}
	case "json":
		e, err := common.ElementToJSONString(recv)
		if err == nil && e == nil {
			out = M{"kind": "nilok"}
		} else if err != nil {
			out = M{"kind": "error", "err": errInfo(err)}
		} else {
			out = M{"kind": "value", "value": M{"t": "str"}}
		}
	default:
		return M{"bad": "op"}
	}
	// the receiver afterwards must still be displayable / copyable / comparable
	if recv != nil {
		if hasNil(recv, 0) {
			out["recv_nilinside"] = true
		} else {
			out["recv_after"] = hlib.DumpValue(recv, 0)
			_ = recv.String()
			value.DuplicateValue(recv)
			value.CompareValues(recv, recv, value.CmpEq)
		}
	}
	return out
}

func newInterp() *exec.Interpreter {
	return exec.NewInterpreter("verif").SetExternalLibs([]*r.Library{libJson.Export(), libFile.Export()})
}

// {"src": text, "cwd": dir}
func cmdProg(in M) M {
	debug.SetMaxStack(64 << 20)
	if cwd, ok := in["cwd"].(string); ok && cwd != "" {
		if err := os.Chdir(cwd); err != nil {
			return M{"skipped": "chdir"}
		}
	}
	src := hlib.RunesOfCps(in["src"])
	var elem r.Element
	var err error
	disp := hlib.CaptureStdout(func() {
		elem, err = newInterp().LoadScript(src).Execute(r.ElementMap{})
	})
	out := M{"displen": len(disp)}
	if err != nil {
		out["kind"] = "error"
		inner, _ := exec.VerifUnwrapError(err)
		out["err"] = errInfo(inner)
		_ = exec.DisplayError(err)
		return out
	}
	if elem == nil {
		// Execute may return (nil, nil) for a handled exception without 输出: C09's subject, not a crash by itself
		out["kind"] = "nilresult"
		return out
	}
	out["kind"] = "value"
	out["strlen"] = len(elem.String())
	return out
}

// {"text": text}
func cmdVarInput(in M) M {
	text := hlib.StrOfCps(in["text"])
	var m r.ElementMap
	var err error
	hlib.CaptureStdout(func() { m, err = exec.ExecVarInputText(text) })
	if err != nil {
		return M{"kind": "error", "err": errInfo(err)}
	}
	if m == nil {
		return M{"kind": "nilok"}
	}
	keys := 0
	for _, v := range m {
		if v == nil {
			return M{"kind": "nilinside"}
		}
		_ = v.String()
		keys++
	}
	return M{"kind": "value", "keys": keys}
}

// {"ops": ["push","this","ret","setret","line","find","findm","declare","declconst","set","begin","end","frame","stack","module","pop"]}
// accessor results: 0 = nil/none, 1 = a value, 2 = Zn error
func cmdVMOps(in M) M {
	vm := r.InitVM(exec.GlobalValues)
	res := []int{}
	depth := 0
	for _, o := range in["ops"].([]interface{}) {
		switch o.(string) {
		case "push":
			vm.PushCallFrame(r.NewFunctionCallFrame(r.NativeCodeModule, value.NewNumber(1)))
			depth++
			res = append(res, 1)
		case "pop":
			if depth == 0 {
				res = append(res, 0) // popping an empty stack is not an accessor; never reached by the evaluator
				continue
			}
			vm.PopCallFrame()
			depth--
			res = append(res, 1)
		case "this":
			res = append(res, b2i(vm.GetThisValue() != nil))
		case "ret":
			res = append(res, b2i(vm.GetReturnValue() != nil))
		case "setret":
			vm.SetReturnValue(value.NewNumber(2))
			res = append(res, 1)
		case "line":
			vm.SetCurrentLine(3)
			res = append(res, 1)
		case "frame":
			res = append(res, b2i(vm.GetCurrentCallFrame() != nil))
		case "stack":
			res = append(res, len(vm.GetCallStack()))
		case "module":
			res = append(res, b2i(vm.GetCurrentModule() != nil))
		case "find":
			e, err := vm.FindElement(r.NewIDName("未定义名"))
			res = append(res, code3(e, err))
		case "findglobal":
			e, err := vm.FindElement(r.NewIDName("真"))
			res = append(res, code3(e, err))
		case "findx":
			e, err := vm.FindElement(r.NewIDName("某量"))
			res = append(res, code3(e, err))
		case "findm":
			e, _, err := vm.FindElementWithModule(r.NewIDName("未定义名"))
			res = append(res, code3(e, err))
		case "declare":
			err := vm.DeclareElement(r.NewIDName("某量"), value.NewNumber(1))
			res = append(res, code3(value.NewNull(), err))
		case "declconst":
			err := vm.DeclareConstElement(r.NewIDName("某常量"), value.NewNumber(1))
			res = append(res, code3(value.NewNull(), err))
		case "set":
			err := vm.SetElement(r.NewIDName("某量"), value.NewNumber(5))
			res = append(res, code3(value.NewNull(), err))
		case "begin":
			vm.BeginScope()
			res = append(res, 1)
		case "end":
			vm.EndScope()
			res = append(res, 1)
		default:
			return M{"bad": "vm op"}
		}
	}
	return M{"kind": "value", "res": res}
}

func b2i(b bool) int {
	if b {
		return 1
	}
	return 0
}

func code3(e r.Element, err error) int {
	if err != nil {
		if _, ok := err.(*zerr.RuntimeError); ok {
			return 2
		}
		return 3
	}
	if e == nil {
		return 0
	}
	return 1
}

// heap script: cells are lists/dicts created empty; ops refer to cells by index.
// {"ncells":[ "list"|"dict", ...], "ops":[ ["append",a,item] | ["prepend",a,item] | ["insert",a,item,pos] | ["merge",a,[items]] |
//    ["dset",d,key,item] | ["setfirst",a,item] ... ], "roots":[i...]}   item = ["ref",i] | ["num",k]
// Every op is applied through the public ExecMethod of the receiver. Output: the tree of every cell afterwards
// (depth-limited: "deep" marks a cyclic / too deep value) and whether every op returned a non-nil value.
func cmdHeapOps(in M) M {
	debug.SetMaxStack(64 << 20)
	cells := []r.Element{}
	for _, k := range in["cells"].([]interface{}) {
		if k.(string) == "list" {
			cells = append(cells, value.NewEmptyArray())
		} else {
			cells = append(cells, value.NewEmptyHashMap())
		}
	}
	item := func(x interface{}) r.Element {
		p := x.([]interface{})
		if p[0].(string) == "ref" {
			return cells[int(p[1].(float64))]
		}
		return value.NewNumber(p[1].(float64))
	}
	status := []int{}
	for _, o := range in["ops"].([]interface{}) {
		op := o.([]interface{})
		recv := cells[int(op[1].(float64))]
		var e r.Element
		var err error
		switch op[0].(string) {
		case "append":
			e, err = recv.ExecMethod("后增", []r.Element{item(op[2])})
		case "prepend":
			e, err = recv.ExecMethod("前增", []r.Element{item(op[2])})
		case "insert":
			e, err = recv.ExecMethod("新增", []r.Element{item(op[2]), value.NewNumber(op[3].(float64))})
		case "merge":
			lit := []r.Element{}
			for _, x := range op[2].([]interface{}) {
				lit = append(lit, item(x))
			}
			e, err = recv.ExecMethod("合并", []r.Element{value.NewArray(lit)})
		case "dset":
			e, err = recv.ExecMethod("写入", []r.Element{value.NewString(fmt.Sprintf("k%d", int(op[2].(float64)))), item(op[3])})
		default:
			return M{"bad": "heap op"}
		}
		if err != nil {
			status = append(status, 2)
		} else if e == nil {
			status = append(status, 0)
		} else {
			status = append(status, 1)
		}
	}
	trees := []interface{}{}
	for _, c := range cells {
		shapeBudget = 4000
		trees = append(trees, shape(c, 0))
	}
	return M{"kind": "value", "status": status, "trees": trees}
}

// shape: nested int lists. number k -> [0,k]; list -> [1, items...]; dict -> [2, [key, item]...]; too deep -> [9]
var shapeBudget int

func shape(e r.Element, depth int) interface{} {
	shapeBudget--
	if depth > 40 || shapeBudget < 0 {
		return []interface{}{9}
	}
	switch v := e.(type) {
	case *value.Number:
		return []interface{}{0, int(v.GetValue())}
	case *value.Array:
		out := []interface{}{1}
		for _, it := range v.GetValue() {
			out = append(out, shape(it, depth+1))
		}
		return out
	case *value.HashMap:
		out := []interface{}{2}
		m := v.GetValue()
		for _, k := range v.GetKeyOrder() {
			ki, _ := strconv.Atoi(strings.TrimPrefix(k, "k"))
			out = append(out, []interface{}{ki, shape(m[k], depth+1)})
		}
		return out
	}
	return []interface{}{8}
}
