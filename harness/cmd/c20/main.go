// c20 — drives the REAL prefork master (pkg/server StartMaster + maintainChildState + readNamedPipe)
// in-process with scripted events. Process spawning is replaced by the verif hook
// (pkg/server/verif_hooks.go): every spawnProcess call blocks in this harness until the
// script lets the fake process start and lets its registration through, so that the
// event order is exactly the scripted schedule. After every event the loop handled, the
// loop's own snapshot (refCount, childs) is recorded.
//
// Only builds against a tree that contains fixes/C20-hook.patch.
package main

import (
	"encoding/binary"
	"errors"
	"fmt"
	"io"
	"log"
	"net"
	"net/http"
	"os"
	"os/exec"
	"os/signal"
	"runtime"
	"sort"
	"strconv"
	"strings"
	"sync"
	"syscall"
	"time"
	"znverif/hlib"

	"github.com/DemoHn/Zn/pkg/server"
)

var commands = map[string]hlib.Handler{}

// write ends of the FIFOs of all masters started by this process: they must stay reachable (a
// garbage-collected *os.File is closed by its finalizer, the master would read EOF and log.Fatal)
var keepOpen []*os.File

func main() {
	if os.Getenv("C20_LOG") == "" {
		log.SetOutput(io.Discard)
	}
	// a real-process worker (re-executed by the real spawnProcess)?
	if os.Getenv(server.EnvPreforkChildKey) == server.EnvPreforkChildVal {
		runRealWorker()
		return
	}
	if len(os.Args) >= 6 && os.Args[1] == "realmaster" {
		log.SetOutput(os.Stderr)
		runRealMaster()
		return
	}
	// SIGTERM is used to make StartMaster return at the end of a case: never let it kill us
	sink := make(chan os.Signal, 16)
	signal.Notify(sink, syscall.SIGTERM)
	var lim syscall.Rlimit
	if syscall.Getrlimit(syscall.RLIMIT_NOFILE, &lim) == nil {
		lim.Cur = lim.Max
		syscall.Setrlimit(syscall.RLIMIT_NOFILE, &lim)
	}
	commands["script"] = runScript
	commands["real"] = runReal
	hlib.Main(commands)
}

type spawnCall struct {
	origin string
	gid    string
	pipeID string
	start  chan int   // harness -> hook: the process is started with this pid
	reg    chan error // harness -> hook: registration may be delivered (nil) / abort (err)
	pid    int
}

type batchInfo struct {
	gid     string
	origin  string
	call    *spawnCall // hook call currently blocked here (nil: none)
	started bool       // call has been given a pid
	calls   int
}

type runner struct {
	zns      *server.ZnPMServer
	cfg      server.ZnPMServerConfig
	arrivals chan *spawnCall
	ticks    chan server.VerifSnapshot
	batches  []*batchInfo
	nextPid  int
	live     map[int]bool
	maxLive  int
	pipeID   string
	pipeW    *os.File
	done     chan struct{}
	stray    []string
}

func snapJSON(s server.VerifSnapshot) map[string]interface{} {
	pids := make([]int, 0, len(s.Childs))
	for p := range s.Childs {
		pids = append(pids, p)
	}
	sort.Ints(pids)
	cs := make([]interface{}, 0, len(pids))
	for _, p := range pids {
		cs = append(cs, []interface{}{p, int(s.Childs[p])})
	}
	return map[string]interface{}{"ref": s.RefCount, "childs": cs}
}

func (r *runner) waitTick(d time.Duration) (server.VerifSnapshot, bool) {
	select {
	case s := <-r.ticks:
		return s, true
	case <-time.After(d):
		return server.VerifSnapshot{}, false
	}
}

// place an arriving hook call into its batch (same goroutine = same batch)
func (r *runner) place(c *spawnCall) (idx int, isNew bool) {
	if r.pipeID == "" && c.pipeID != "" {
		r.pipeID = c.pipeID
	}
	for i, b := range r.batches {
		if b.gid == c.gid {
			b.call = c
			b.started = false
			b.calls++
			return i, false
		}
	}
	r.batches = append(r.batches, &batchInfo{gid: c.gid, origin: c.origin, call: c, calls: 1})
	return len(r.batches) - 1, true
}

// collect hook calls that have arrived; if pred is given, keep waiting (at most d) until it holds
func (r *runner) pump(d time.Duration, pred func() bool) []map[string]interface{} {
	evs := []map[string]interface{}{}
	take := func(c *spawnCall) {
		i, isNew := r.place(c)
		evs = append(evs, map[string]interface{}{"batch": i, "new": isNew, "origin": c.origin})
	}
	for more := true; more; {
		select {
		case c := <-r.arrivals:
			take(c)
		default:
			more = false
		}
	}
	if pred == nil || pred() {
		return evs
	}
	deadline := time.NewTimer(d)
	defer deadline.Stop()
	for !pred() {
		select {
		case c := <-r.arrivals:
			take(c)
		case <-deadline.C:
			return evs
		}
	}
	return evs
}

func (r *runner) startProc(b *batchInfo) int {
	r.nextPid++
	pid := r.nextPid
	b.call.pid = pid
	b.call.start <- pid
	b.started = true
	r.live[pid] = true
	if len(r.live) > r.maxLive {
		r.maxLive = len(r.live)
	}
	return pid
}

func (r *runner) sendUpdate(pid int, st uint8, via string) {
	if via == "pipe" && r.pipeID != "" {
		if r.pipeW == nil {
			w, err := server.OpenNamedPipeWriter(server.NewPipe(r.pipeID))
			if err == nil {
				r.pipeW = w // never closed: EOF would make the master log.Fatal
				keepOpen = append(keepOpen, w)
				os.Remove(fmt.Sprintf("/tmp/zinc-server-pipe-%s", r.pipeID))
			}
		}
		if r.pipeW != nil {
			buf := make([]byte, 5)
			binary.BigEndian.PutUint32(buf, uint32(pid))
			buf[4] = st
			server.WriteDataToNamedPipe(r.pipeW, buf)
			return
		}
	}
	r.zns.VerifSendUpdate(pid, st)
}

func num(v interface{}) int {
	if f, ok := v.(float64); ok {
		return int(f)
	}
	return 0
}

const missT = 1500 * time.Millisecond

// {"init":i,"max":m,"steps":[{"ev":"spawn","b":k}|{"ev":"add","b":k}|{"ev":"update","pid":p,"st":s,"via":"pipe"}
//
//	|{"ev":"del","pid":p}|{"ev":"exit","pid":p}, each master step optionally with "newbatch":true and "expect":{"ref":..,"n":..}]}
func runScript(in map[string]interface{}) map[string]interface{} {
	cfg := server.ZnPMServerConfig{InitProcs: num(in["init"]), MaxProcs: num(in["max"]), Timeout: 1}
	r := &runner{cfg: cfg, arrivals: make(chan *spawnCall, 4096), ticks: make(chan server.VerifSnapshot, 4096),
		live: map[int]bool{}, done: make(chan struct{})}
	shutdown := make(chan struct{})
	zns := server.NewZnPMServer(cfg)
	r.zns = zns
	zns.VerifAttach(&server.VerifDriver{
		OnTick: func(s server.VerifSnapshot) { r.ticks <- s },
		OnSpawn: func(origin, gid, pipeID string) (int, error) {
			c := &spawnCall{origin: origin, gid: gid, pipeID: pipeID, start: make(chan int), reg: make(chan error)}
			select {
			case r.arrivals <- c:
			case <-shutdown:
				return abortSpawn(origin)
			}
			var pid int
			select {
			case pid = <-c.start:
			case <-shutdown:
				return abortSpawn(origin)
			}
			select {
			case err := <-c.reg:
				if err != nil {
					return abortSpawn(origin)
				}
			case <-shutdown:
				return abortSpawn(origin)
			}
			return pid, nil
		},
	})
	masterRet := make(chan string, 1)
	go func() {
		defer func() {
			if e := recover(); e != nil {
				masterRet <- fmt.Sprintf("panic: %v", e)
			}
		}()
		err := zns.StartMaster("tcp://127.0.0.1:0", cfg)
		masterRet <- fmt.Sprintf("returned: %v", err)
	}()
	out := map[string]interface{}{}
	obs := []interface{}{}
	// the loop's first tick = its initial state as set up by StartMaster
	s0, ok := r.waitTick(5 * time.Second)
	if !ok {
		out["fatal"] = "event loop did not start"
		return out
	}
	out["initial"] = snapJSON(s0)
	// initial batch
	initArr := []map[string]interface{}{}
	if cfg.InitProcs > 0 {
		initArr = r.pump(missT, func() bool { return len(r.batches) >= 1 })
	} else {
		time.Sleep(2 * time.Millisecond)
		initArr = r.pump(0, nil)
	}
	out["initial_arrivals"] = initArr

	diverged := -1
	mismatchAt := -1
	why := ""
	steps, _ := in["steps"].([]interface{})
	for k, raw := range steps {
		st := raw.(map[string]interface{})
		ev := st["ev"].(string)
		o := map[string]interface{}{"ev": ev}
		master := false
		switch ev {
		case "spawn":
			b := num(st["b"])
			r.pump(missT, func() bool { return b < len(r.batches) && r.batches[b].call != nil && !r.batches[b].started })
			if !(b < len(r.batches) && r.batches[b].call != nil && !r.batches[b].started) {
				diverged, why = k, "missing-spawn-call"
				break
			}
			o["pid"] = r.startProc(r.batches[b])
		case "add":
			b := num(st["b"])
			if !(b < len(r.batches) && r.batches[b].call != nil && r.batches[b].started) {
				diverged, why = k, "missing-registration"
				break
			}
			c := r.batches[b].call
			r.batches[b].call = nil
			c.reg <- nil
			master = true
		case "update":
			via, _ := st["via"].(string)
			r.sendUpdate(num(st["pid"]), uint8(num(st["st"])), via)
			master = true
		case "del":
			zns.VerifSendDel(num(st["pid"]))
			master = true
		case "exit":
			delete(r.live, num(st["pid"]))
		}
		if diverged >= 0 {
			break
		}
		if master {
			s, ok := r.waitTick(5 * time.Second)
			if !ok {
				diverged, why = k, "event-not-handled"
				break
			}
			sj := snapJSON(s)
			o["ref"] = sj["ref"]
			o["childs"] = sj["childs"]
			nb0 := len(r.batches)
			var arr []map[string]interface{}
			if nbw, _ := st["newbatch"].(bool); nbw {
				arr = r.pump(missT, func() bool { return len(r.batches) > nb0 })
			} else {
				arr = r.pump(0, nil)
			}
			newb := 0
			for _, a := range arr {
				if a["new"].(bool) {
					newb++
				}
			}
			o["newbatches"] = newb
			if nbw, _ := st["newbatch"].(bool); nbw && newb == 0 {
				diverged, why = k, "missing-batch"
			}
			if nbw, _ := st["newbatch"].(bool); !nbw && newb > 0 {
				diverged, why = k, "unexpected-batch"
			}
			if exp, ok := st["expect"].(map[string]interface{}); ok {
				if num(exp["ref"]) != s.RefCount || num(exp["n"]) != len(s.Childs) {
					// keep following the script while it stays executable; complete by a free run
					if mismatchAt < 0 {
						mismatchAt = k
					}
				}
			}
		}
		o["live"] = len(r.live)
		obs = append(obs, o)
		if diverged >= 0 {
			break
		}
	}
	// grace: late / surplus spawn calls (a batch that asks for more processes than the model says)
	grace := time.Duration(num(in["grace_ms"])) * time.Millisecond
	if diverged < 0 {
		time.Sleep(grace)
		r.pump(0, nil)
		pend := 0
		for _, b := range r.batches {
			if b.call != nil && !b.started {
				pend++
			}
		}
		out["pending_calls"] = pend
		totalCalls := []interface{}{}
		for _, b := range r.batches {
			totalCalls = append(totalCalls, []interface{}{b.origin, b.calls})
		}
		out["batch_calls"] = totalCalls
	}
	out["obs"] = obs
	out["diverged_at"] = diverged
	out["why"] = why
	out["mismatch_at"] = mismatchAt
	if diverged >= 0 || mismatchAt >= 0 || in["freerun"] == true {
		// free run: let every requested process start and register, nobody exits
		var last server.VerifSnapshot
		have := false
		idle := 0
		for idle < 3 {
			r.pump(120*time.Millisecond, func() bool {
				for _, b := range r.batches {
					if b.call != nil {
						return true
					}
				}
				return false
			})
			progressed := false
			for _, b := range r.batches {
				if b.call != nil {
					if !b.started {
						r.startProc(b)
					}
					c := b.call
					b.call = nil
					c.reg <- nil
					if s, ok := r.waitTick(5 * time.Second); ok {
						last, have = s, true
					}
					progressed = true
				}
			}
			if progressed {
				idle = 0
			} else {
				idle++
			}
		}
		fr := map[string]interface{}{"live": len(r.live), "max_live": r.maxLive}
		if have {
			sj := snapJSON(last)
			fr["ref"] = sj["ref"]
			fr["childs"] = sj["childs"]
		}
		out["freerun"] = fr
	}
	out["max_live"] = r.maxLive
	out["final_live"] = len(r.live)
	// (the FIFO is unlinked in sendUpdate once both ends are open; a FIFO whose read end the master
	// has not opened yet must stay, or readNamedPipe would log.Fatal — the driver removes those afterwards)
	// shutdown: blocked hook calls of the initial loop fail (StartMaster returns), others block for ever
	close(shutdown)
	for i := 0; i < 3; i++ {
		select {
		case m := <-masterRet:
			out["master"] = m
			i = 3
		case <-time.After(15 * time.Millisecond):
			syscall.Kill(os.Getpid(), syscall.SIGTERM)
		}
	}
	return out
}

var errAbort = errors.New("verif: shutdown")

func abortSpawn(origin string) (int, error) {
	if origin == "init" {
		return 0, errAbort // StartMaster returns the error
	}
	select {} // batch goroutines would log.Fatal on error: park them
}

// ---------------------------------------------------------------- real processes (OS-level smoke test)

// the harness binary re-executed by the REAL spawnProcess as `<self> --child-worker`
func runRealWorker() {
	zns := server.NewZnPMServer(server.ZnPMServerConfig{})
	zns.SetHandler(http.HandlerFunc(func(w http.ResponseWriter, r *http.Request) {
		t0 := time.Now().UnixNano()
		ms, _ := strconv.Atoi(r.URL.Query().Get("sleep"))
		time.Sleep(time.Duration(ms) * time.Millisecond)
		w.Header().Add("Content-Type", "text/plain")
		w.WriteHeader(200)
		w.Write([]byte(fmt.Sprintf("pid=%d token=%s start=%d end=%d", os.Getpid(), r.URL.Query().Get("token"), t0, time.Now().UnixNano())))
	}))
	// like cmd/zinc-playground: when Start comes back with an error the program prints it and ends normally (exit status 0)
	if err := zns.Start(""); err != nil {
		fmt.Printf("启动服务器时发生异常：%s\n", err.Error())
	}
}

// `<self> realmaster <port> <init> <max> <timeout>`: the REAL master with REAL worker processes
func runRealMaster() {
	port, _ := strconv.Atoi(os.Args[2])
	init_, _ := strconv.Atoi(os.Args[3])
	max_, _ := strconv.Atoi(os.Args[4])
	to, _ := strconv.Atoi(os.Args[5])
	cfg := server.ZnPMServerConfig{InitProcs: init_, MaxProcs: max_, Timeout: to}
	zns := server.NewZnPMServer(cfg)
	// a master that has been up for a while has been through garbage collections: whatever it keeps open only by accident
	// (an unreferenced descriptor with a finalizer) is gone by then. The scenarios are short, so the collections are forced.
	go func() {
		for {
			time.Sleep(150 * time.Millisecond)
			runtime.GC()
		}
	}()
	err := zns.StartMaster(fmt.Sprintf("tcp://127.0.0.1:%d", port), cfg)
	fmt.Fprintln(os.Stderr, "master returned:", err)
}

func childrenOf(ppid int) []int {
	res := []int{}
	ents, _ := os.ReadDir("/proc")
	for _, e := range ents {
		pid, err := strconv.Atoi(e.Name())
		if err != nil {
			continue
		}
		b, err := os.ReadFile(fmt.Sprintf("/proc/%d/stat", pid))
		if err != nil {
			continue
		}
		// pid (comm) state ppid ...
		str := string(b)
		k := strings.LastIndexByte(str, ')')
		if k < 0 {
			continue
		}
		f := strings.Fields(str[k+1:])
		if len(f) < 2 || f[0] == "Z" {
			continue // zombies are not live
		}
		if pp, _ := strconv.Atoi(f[1]); pp == ppid {
			res = append(res, pid)
		}
	}
	sort.Ints(res)
	return res
}

func alive(pid int) bool {
	b, err := os.ReadFile(fmt.Sprintf("/proc/%d/stat", pid))
	if err != nil {
		return false
	}
	str := string(b)
	k := strings.LastIndexByte(str, ')')
	f := strings.Fields(str[k+1:])
	return len(f) > 0 && f[0] != "Z"
}

// {"init":..,"max":..,"timeout":..,"ops":[{"op":"req","sleep":ms,"n":k}|{"op":"wait","ms":..}|{"op":"kill"}|{"op":"settle","ms":max wait}]}
func runReal(in map[string]interface{}) map[string]interface{} {
	out := map[string]interface{}{}
	l, err := net.Listen("tcp", "127.0.0.1:0")
	if err != nil {
		out["fatal"] = err.Error()
		return out
	}
	port := l.Addr().(*net.TCPAddr).Port
	l.Close()
	init_, max_, to := num(in["init"]), num(in["max"]), num(in["timeout"])
	cmd := exec.Command(os.Args[0], "realmaster", strconv.Itoa(port), strconv.Itoa(init_), strconv.Itoa(max_), strconv.Itoa(to))
	var errb strings.Builder
	cmd.Stderr = &errb
	if err := cmd.Start(); err != nil {
		out["fatal"] = err.Error()
		return out
	}
	mpid := cmd.Process.Pid
	exited := make(chan struct{})
	go func() { cmd.Wait(); close(exited) }()
	var mu sync.Mutex
	maxSeen := 0
	stop := make(chan struct{})
	go func() {
		for {
			select {
			case <-stop:
				return
			default:
			}
			n := len(childrenOf(mpid))
			mu.Lock()
			if n > maxSeen {
				maxSeen = n
			}
			mu.Unlock()
			time.Sleep(5 * time.Millisecond)
		}
	}()
	settle := func(want int, d time.Duration) int {
		dl := time.Now().Add(d)
		n := 0
		for time.Now().Before(dl) {
			n = len(childrenOf(mpid))
			if n >= want {
				return n
			}
			time.Sleep(20 * time.Millisecond)
		}
		return n
	}
	out["started"] = settle(init_, 10*time.Second)
	type resp struct {
		Token  string `json:"token"`
		Status int    `json:"status"`
		Body   string `json:"body"`
		Err    string `json:"err"`
	}
	var rmu sync.Mutex
	resps := []resp{}
	var wg sync.WaitGroup
	tok := 0
	steps := []interface{}{}
	ops, _ := in["ops"].([]interface{})
	for _, raw := range ops {
		op := raw.(map[string]interface{})
		switch op["op"].(string) {
		case "req":
			n := num(op["n"])
			if n == 0 {
				n = 1
			}
			for i := 0; i < n; i++ {
				tok++
				t := fmt.Sprintf("t%d", tok)
				sl := num(op["sleep"])
				wg.Add(1)
				go func() {
					defer wg.Done()
					c := &http.Client{Timeout: 30 * time.Second, Transport: &http.Transport{DisableKeepAlives: true}}
					r, err := c.Get(fmt.Sprintf("http://127.0.0.1:%d/?sleep=%d&token=%s", port, sl, t))
					rp := resp{Token: t}
					if err != nil {
						rp.Err = "error"
					} else {
						b, _ := io.ReadAll(r.Body)
						r.Body.Close()
						rp.Status, rp.Body = r.StatusCode, string(b)
					}
					rmu.Lock()
					resps = append(resps, rp)
					rmu.Unlock()
				}()
			}
		case "hangup":
			// a client that connects and leaves without a request: the worker that accepted it gives up and ends
			if c, err := net.DialTimeout("tcp", fmt.Sprintf("127.0.0.1:%d", port), 2*time.Second); err == nil {
				c.Close()
			}
		case "wait":
			time.Sleep(time.Duration(num(op["ms"])) * time.Millisecond)
		case "join":
			wg.Wait()
		case "kill":
			cs := childrenOf(mpid)
			if len(cs) > 0 {
				syscall.Kill(cs[0], syscall.SIGKILL)
			}
		case "settle":
			n := settle(init_, time.Duration(num(op["ms"]))*time.Millisecond)
			steps = append(steps, map[string]interface{}{"settled": n, "master_alive": alive(mpid)})
		}
	}
	wg.Wait()
	close(stop)
	mu.Lock()
	out["max_seen"] = maxSeen
	mu.Unlock()
	out["steps"] = steps
	out["master_alive"] = alive(mpid)
	out["final_children"] = len(childrenOf(mpid))
	rs := []interface{}{}
	for _, r := range resps {
		rs = append(rs, map[string]interface{}{"token": r.Token, "status": r.Status, "body": r.Body, "err": r.Err})
	}
	out["resps"] = rs
	// tear down (the server never unlinks its FIFO: find it through the master's open files)
	fifos := []string{}
	if fds, err := os.ReadDir(fmt.Sprintf("/proc/%d/fd", mpid)); err == nil {
		for _, fd := range fds {
			if t, err := os.Readlink(fmt.Sprintf("/proc/%d/fd/%s", mpid, fd.Name())); err == nil && strings.HasPrefix(t, "/tmp/zinc-server-pipe-") {
				fifos = append(fifos, t)
			}
		}
	}
	defer func() {
		for _, f := range fifos {
			os.Remove(f)
		}
	}()
	kids := childrenOf(mpid)
	syscall.Kill(mpid, syscall.SIGTERM)
	select {
	case <-exited:
	case <-time.After(3 * time.Second):
		syscall.Kill(mpid, syscall.SIGKILL)
		<-exited
	}
	for _, k := range kids {
		syscall.Kill(k, syscall.SIGKILL)
	}
	out["master_stderr"] = lastLines(errb.String(), 3)
	return out
}

func lastLines(s string, n int) string {
	ls := strings.Split(strings.TrimSpace(s), "\n")
	if len(ls) > n {
		ls = ls[len(ls)-n:]
	}
	return strings.Join(ls, " | ")
}
