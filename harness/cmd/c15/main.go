// c15 — harness for property C15 (modules load once, export read-only names, cycles are reported).
// One case = a directory of generated .zn files; the main file is run through
// exec.NewInterpreter(..).LoadFile(main).Execute(..). Observables: the display trace (marker lines)
// and the result kind / error class+code. Nothing else (no message text, no addresses).
package main

import (
	"os"
	"path/filepath"
	"strings"
	"znverif/hlib"

	"github.com/DemoHn/Zn/pkg/exec"
	r "github.com/DemoHn/Zn/pkg/runtime"
	libFile "github.com/DemoHn/Zn/stdlib/file"
	libJson "github.com/DemoHn/Zn/stdlib/json"
)

var commands = map[string]hlib.Handler{}

func main() {
	register()
	hlib.Main(commands)
}

func register() {
	// {"files": {"rel/path.zn": "source", ...}, "main": "rel/path.zn", "root": "<optional parent temp dir>"}
	commands["run"] = func(in map[string]interface{}) map[string]interface{} {
		root := ""
		if s, ok := in["root"].(string); ok {
			root = s
		}
		dir, err := os.MkdirTemp(root, "znc15")
		if err != nil {
			return map[string]interface{}{"bad": "mkdtemp: " + err.Error()}
		}
		defer os.RemoveAll(dir)
		files, _ := in["files"].(map[string]interface{})
		for rel, src := range files {
			p := filepath.Join(dir, filepath.FromSlash(rel))
			if err := os.MkdirAll(filepath.Dir(p), 0755); err != nil {
				return map[string]interface{}{"bad": "mkdir: " + err.Error()}
			}
			if err := os.WriteFile(p, []byte(src.(string)), 0644); err != nil {
				return map[string]interface{}{"bad": "write: " + err.Error()}
			}
		}
		mainPath := filepath.Join(dir, filepath.FromSlash(in["main"].(string)))
		var elem r.Element
		var rerr error
		disp := hlib.CaptureStdout(func() {
			z := exec.NewInterpreter("verif").SetExternalLibs([]*r.Library{libJson.Export(), libFile.Export()})
			elem, rerr = z.LoadFile(mainPath).Execute(r.ElementMap{})
		})
		lines := []string{}
		for _, l := range strings.Split(disp, "\n") {
			if l != "" {
				lines = append(lines, l)
			}
		}
		out := map[string]interface{}{"display": lines}
		if rerr != nil {
			out["kind"] = "error"
			e := hlib.DumpError(rerr)
			out["class"] = e["class"]
			out["code"] = e["code"]
			out["errtext"] = e["display"]
		} else {
			out["kind"] = "value"
			out["value"] = hlib.DumpValue(elem, 0)
		}
		return out
	}
}
