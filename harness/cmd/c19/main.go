// znh c19 — harness for property C19 (JSON generation and parsing are faithful inverses).
//
// Commands (one JSON object per line):
//
//	gen   {"value": <tree>}            runs  导入《@JSON》/输入D/输出（生成JSON：D）  with a 拦截异常 handler
//	parse {"text": [code points]}      runs  导入《@JSON》/输入T/输出（解析JSON：T）  with a 拦截异常 handler
//	rt    {"value": <tree>}            runs  输出（解析JSON：（生成JSON：D））  and  输出（解析JSON：（生成JSON：D）） 为 D
//	api   {"fn": "parse"|"gen", "args": [<tree>...]}   calls FN_parseJson / FN_generateJson directly
//
// <tree> is the format produced by hlib.DumpValue: {"t":"null"} {"t":"bool","v":b} {"t":"num","bits":"hex16"}
// {"t":"str","v":[cps]} {"t":"list","v":[...]} {"t":"dict","v":[[[cps],tree],...]} {"t":"func"}.
package main

import (
	"math"
	"strconv"
	"strings"
	"znverif/hlib"

	"github.com/DemoHn/Zn/pkg/exec"
	r "github.com/DemoHn/Zn/pkg/runtime"
	"github.com/DemoHn/Zn/pkg/value"
	libFile "github.com/DemoHn/Zn/stdlib/file"
	libJson "github.com/DemoHn/Zn/stdlib/json"
)

const handlerMark = "C19-HANDLER-RAN"

func build(v interface{}) r.Element {
	m := v.(map[string]interface{})
	switch m["t"].(string) {
	case "null":
		return value.NewNull()
	case "bool":
		return value.NewBool(m["v"].(bool))
	case "num":
		b, err := strconv.ParseUint(m["bits"].(string), 16, 64)
		if err != nil {
			panic("bad bits")
		}
		return value.NewNumber(math.Float64frombits(b))
	case "str":
		return value.NewString(hlib.StrOfCps(m["v"]))
	case "list":
		items := []r.Element{}
		for _, it := range m["v"].([]interface{}) {
			items = append(items, build(it))
		}
		return value.NewArray(items)
	case "dict":
		hm := value.NewEmptyHashMap()
		for _, it := range m["v"].([]interface{}) {
			pr := it.([]interface{})
			hm.AppendKVPair(value.KVPair{Key: hlib.StrOfCps(pr[0]), Value: build(pr[1])})
		}
		return hm
	case "func":
		return value.NewFunction(func(receiver r.Element, values []r.Element) (r.Element, error) {
			return value.NewNull(), nil
		})
	}
	panic("bad tree")
}

func runProgram(src string, inputs r.ElementMap) map[string]interface{} {
	var elem r.Element
	var err error
	disp := hlib.CaptureStdout(func() {
		z := exec.NewInterpreter("verif").SetExternalLibs([]*r.Library{libJson.Export(), libFile.Export()})
		elem, err = z.LoadScript([]rune(src)).Execute(inputs)
	})
	out := map[string]interface{}{}
	out["handler"] = strings.Contains(disp, handlerMark)
	if err != nil {
		out["kind"] = "error"
		out["err"] = hlib.DumpError(err)
	} else {
		out["kind"] = "value"
		out["value"] = hlib.DumpValue(elem, 0)
		if s, ok := elem.(*value.String); ok {
			// exact bytes of a text result (DumpValue shows runes; invalid UTF-8 would be hidden)
			out["hex"] = hexOf(s.GetValue())
		}
	}
	return out
}

func hexOf(s string) string {
	const hexd = "0123456789abcdef"
	b := make([]byte, 0, 2*len(s))
	for i := 0; i < len(s); i++ {
		b = append(b, hexd[s[i]>>4], hexd[s[i]&15])
	}
	return string(b)
}

const catchTail = "\n\n拦截异常：\n    （显示：“" + handlerMark + "”）\n    输出“" + handlerMark + "”\n"

var commands = map[string]hlib.Handler{
	"gen": func(in map[string]interface{}) map[string]interface{} {
		src := "导入《@JSON》\n输入D\n输出（生成JSON：D）" + catchTail
		return runProgram(src, r.ElementMap{"D": build(in["value"])})
	},
	"parse": func(in map[string]interface{}) map[string]interface{} {
		src := "导入《@JSON》\n输入T\n输出（解析JSON：T）" + catchTail
		return runProgram(src, r.ElementMap{"T": value.NewString(hlib.StrOfCps(in["text"]))})
	},
	"rt": func(in map[string]interface{}) map[string]interface{} {
		src := "导入《@JSON》\n输入D\n输出（解析JSON：（生成JSON：D））" + catchTail
		o1 := runProgram(src, r.ElementMap{"D": build(in["value"])})
		src2 := "导入《@JSON》\n输入D\n输出（解析JSON：（生成JSON：D）） 为 D" + catchTail
		o2 := runProgram(src2, r.ElementMap{"D": build(in["value"])})
		o1["eq"] = o2
		return o1
	},
	// {"value": tree, "body": "statements over 甲 (the value) and 乙 (declared as a copy of it)", "which": "甲"|"乙"}:
	// the dictionary after a history — copied, one of the two changed — handed to 生成JSON
	"hist": func(in map[string]interface{}) map[string]interface{} {
		src := "导入《@JSON》\n输入甲\n令乙 = 甲\n" + in["body"].(string) + "\n输出（生成JSON：" + in["which"].(string) + "）" + catchTail
		return runProgram(src, r.ElementMap{"甲": build(in["value"])})
	},
	"api": func(in map[string]interface{}) map[string]interface{} {
		args := []r.Element{}
		for _, a := range in["args"].([]interface{}) {
			args = append(args, build(a))
		}
		var elem r.Element
		var err error
		if in["fn"].(string) == "parse" {
			elem, err = libJson.FN_parseJson(nil, args)
		} else {
			elem, err = libJson.FN_generateJson(nil, args)
		}
		out := map[string]interface{}{}
		if err != nil {
			out["kind"] = "error"
			out["err"] = hlib.DumpError(err)
		} else {
			out["kind"] = "value"
			out["value"] = hlib.DumpValue(elem, 0)
		}
		return out
	},
}

func main() { hlib.Main(commands) }
