// c04 harness: exec.MatchIDType, syntax.IdInRange and zh.NextToken of the working tree.
package main

import (
	"fmt"
	"math"
	"strings"
	"znverif/hlib"

	zerr "github.com/DemoHn/Zn/pkg/error"
	"github.com/DemoHn/Zn/pkg/exec"
	r "github.com/DemoHn/Zn/pkg/runtime"
	"github.com/DemoHn/Zn/pkg/value"
	"github.com/DemoHn/Zn/pkg/syntax"
	"github.com/DemoHn/Zn/pkg/syntax/zh"
)

var commands = map[string]hlib.Handler{}

// classification of one literal: 0 name, 1 number (+ IEEE bits), 2 rejected.  Every literal is classified twice: the answer
// is a function of the spelling, not of what the process classified before (10+c = the second answer c differs from the first)
func matchID(rs []rune) (int, uint64) {
	c1, b1 := matchOnce(rs)
	c2, b2 := matchOnce(append([]rune{}, rs...))
	if c1 != c2 || b1 != b2 {
		return 10 + c2, b2
	}
	return c1, b1
}

func matchOnce(rs []rune) (int, uint64) {
	id := &syntax.ID{}
	id.SetLiteral(rs)
	t, err := exec.MatchIDType(id)
	if err != nil {
		return 2, 0
	}
	switch v := t.(type) {
	case *r.IDNumber:
		return 1, math.Float64bits(v.GetValue())
	case *r.IDName:
		return 0, 0
	}
	return 3, 0
}

func errInfo(err error) map[string]interface{} {
	out := map[string]interface{}{"class": fmt.Sprintf("%T", err)}
	switch e := err.(type) {
	case *zerr.SyntaxError:
		out["code"] = e.Code
		out["cursor"] = e.Cursor
	case *zerr.SemanticError:
		out["code"] = e.Code
	}
	return out
}

func main() {
	// {"cps":[...]} -> {"kind":k,"bits":"%016x"}
	commands["matchid"] = func(in map[string]interface{}) map[string]interface{} {
		k, b := matchID(hlib.RunesOfCps(in["cps"]))
		return map[string]interface{}{"kind": k, "bits": fmt.Sprintf("%016x", b)}
	}
	// {"alphabet":[cps],"maxlen":n} -> {"out":"0120..."}: every string over the alphabet of length 0..n,
	// by length, then lexicographically by alphabet index (first character most significant)
	// {"cps":[...]}: the literal evaluated by a program (令数值量 = <literal>; 输出 数值量 + 0 is avoided: the plain literal is output)
	// -> {"kind":1,"bits":..} number | {"kind":0} another value | {"kind":2} error
	commands["evalnum"] = func(in map[string]interface{}) map[string]interface{} {
		lit := string(hlib.RunesOfCps(in["cps"]))
		z := exec.NewInterpreter("verif")
		elem, err := z.LoadScript([]rune("令数值量 = " + lit + "\n输出数值量")).Execute(r.ElementMap{})
		if err != nil {
			return map[string]interface{}{"kind": 2}
		}
		if n, ok := elem.(*value.Number); ok {
			return map[string]interface{}{"kind": 1, "bits": fmt.Sprintf("%016x", math.Float64bits(n.GetValue()))}
		}
		return map[string]interface{}{"kind": 0}
	}
	commands["numexhaust"] = func(in map[string]interface{}) map[string]interface{} {
		alpha := hlib.RunesOfCps(in["alphabet"])
		n := int(in["maxlen"].(float64))
		var sb strings.Builder
		for l := 0; l <= n; l++ {
			idx := make([]int, l)
			buf := make([]rune, l)
			for {
				for i := 0; i < l; i++ {
					buf[i] = alpha[idx[i]]
				}
				k, _ := matchID(buf)
				if k > 3 {
					k = 3 // the two classifications of the literal differ
				}
				sb.WriteByte(byte('0' + k))
				// increment (last position least significant)
				p := l - 1
				for p >= 0 {
					idx[p]++
					if idx[p] < len(alpha) {
						break
					}
					idx[p] = 0
					p--
				}
				if p < 0 {
					break
				}
			}
		}
		return map[string]interface{}{"out": sb.String()}
	}
	// {} -> {"runs":[[lo,hi],...]}: maximal runs of code points in [-16, 0x110010) for which IdInRange is true
	commands["idrange"] = func(in map[string]interface{}) map[string]interface{} {
		runs := [][]int{}
		start := -1
		lo, hi := -16, 0x110010
		for c := lo; c <= hi; c++ {
			v := c < hi && syntax.IdInRange(rune(c))
			if v && start == -1 {
				start = c
			}
			if !v && start != -1 {
				runs = append(runs, []int{start, c - 1})
				start = -1
			}
		}
		return map[string]interface{}{"runs": runs, "from": lo, "to": hi - 1}
	}
	// the lexer's own view of the identifier alphabet: for every code point c, is 甲c ONE identifier token (c continues a name)
	// and is `甲c` (backtick-quoted) one identifier?  -> runs of accepted code points
	commands["idlex"] = func(in map[string]interface{}) map[string]interface{} {
		lo, hi := int(in["lo"].(float64)), int(in["hi"].(float64))
		one := func(src []rune, wantLit int) bool {
			defer func() { recover() }()
			l := syntax.NewLexer(src)
			tk, err := zh.NextToken(l)
			if err != nil || tk.Type != zh.TypeIdentifier || tk.StartIdx != 0 || tk.EndIdx != len(src) || len(tk.Literal) != wantLit {
				return false
			}
			tk2, err := zh.NextToken(l)
			return err == nil && tk2.Type == zh.TypeEOF
		}
		collect := func(f func(c int) bool) [][]int {
			runs := [][]int{}
			start := -1
			for c := lo; c <= hi+1; c++ {
				v := c <= hi && f(c)
				if v && start == -1 {
					start = c
				}
				if !v && start != -1 {
					runs = append(runs, []int{start, c - 1})
					start = -1
				}
			}
			return runs
		}
		plain := collect(func(c int) bool { return one([]rune{0x7532, rune(c)}, 2) })
		quoted := collect(func(c int) bool { return one([]rune{'`', 0x7532, rune(c), '`'}, 2) })
		return map[string]interface{}{"plain": plain, "quoted": quoted}
	}
	// {"cp":c} -> {"in":bool}
	commands["idin"] = func(in map[string]interface{}) map[string]interface{} {
		return map[string]interface{}{"in": syntax.IdInRange(rune(int(in["cp"].(float64))))}
	}
	// {"cps":[...]} -> {"tokens":[[type,start,end,[literal]]...],"end":"eof"|"error"|"limit","err":{...}}
	commands["tokens"] = func(in map[string]interface{}) map[string]interface{} {
		src := hlib.RunesOfCps(in["cps"])
		l := syntax.NewLexer(src)
		toks := [][]interface{}{}
		for i := 0; i < len(src)+3; i++ {
			tk, err := zh.NextToken(l)
			if err != nil {
				return map[string]interface{}{"tokens": toks, "end": "error", "err": errInfo(err)}
			}
			lit := []int{}
			for _, c := range tk.Literal {
				lit = append(lit, int(c))
			}
			toks = append(toks, []interface{}{int(tk.Type), tk.StartIdx, tk.EndIdx, lit})
			if tk.Type == zh.TypeEOF {
				return map[string]interface{}{"tokens": toks, "end": "eof"}
			}
		}
		return map[string]interface{}{"tokens": toks, "end": "limit"}
	}
	hlib.Main(commands)
}
