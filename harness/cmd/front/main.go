// front — harness for C03 (parser builds the prescribed tree) and C05 (front end terminates cleanly).
// Commands:
//   parse    {"src":[code points]}  -> tree dump or error (class/code/cursor) + rendered error text + line table
//   lex      {"src":[code points]}  -> token stream (type, literal, start, end) + line table
//   varinput {"src":[code points]}  -> outcome of exec.ExecVarInputText
package main

import (
	"fmt"
	"sort"

	"znverif/hlib"

	zerr "github.com/DemoHn/Zn/pkg/error"
	"github.com/DemoHn/Zn/pkg/exec"
	r "github.com/DemoHn/Zn/pkg/runtime"
	"github.com/DemoHn/Zn/pkg/syntax"
	"github.com/DemoHn/Zn/pkg/syntax/zh"
)

type J = interface{}

const NIL = "nil"

func cps(s string) []int {
	out := []int{}
	for _, c := range []rune(s) {
		out = append(out, int(c))
	}
	return out
}

func dumpID(id *syntax.ID) J {
	if id == nil {
		return NIL
	}
	return []J{"ID", cps(id.GetLiteral())}
}

func dumpStr(s *syntax.String) J {
	if s == nil {
		return NIL
	}
	return []J{"Str", cps(s.GetLiteral())}
}

func dumpIDs(ids []*syntax.ID) J {
	out := []J{}
	for _, id := range ids {
		out = append(out, dumpID(id))
	}
	return out
}

func dumpExprs(es []syntax.Expression) J {
	out := []J{}
	for _, e := range es {
		out = append(out, dumpExpr(e))
	}
	return out
}

func dumpCall(v *syntax.FuncCallExpr) J {
	if v == nil {
		return NIL
	}
	return []J{"Call", dumpID(v.FuncName), dumpExprs(v.Params), dumpID(v.YieldResult)}
}

// dumpExpr - nil-safe dump of every expression node kind of ast.go (all fields except line numbers)
func dumpExpr(e syntax.Expression) J {
	if e == nil {
		return NIL
	}
	switch v := e.(type) {
	case *syntax.ID:
		return dumpID(v)
	case *syntax.String:
		return dumpStr(v)
	case *syntax.PrimeExpr:
		if v == nil {
			return NIL
		}
		return []J{"Prime", cps(v.GetLiteral())}
	case *syntax.ArrayExpr:
		if v == nil {
			return NIL
		}
		return []J{"Array", dumpExprs(v.Items)}
	case *syntax.HashMapExpr:
		if v == nil {
			return NIL
		}
		kv := []J{}
		for _, p := range v.KVPair {
			kv = append(kv, []J{dumpExpr(p.Key), dumpExpr(p.Value)})
		}
		return []J{"HashMap", kv}
	case *syntax.VarAssignExpr:
		if v == nil {
			return NIL
		}
		var tgt J = NIL
		if v.TargetVar != nil {
			tgt = dumpExpr(v.TargetVar)
		}
		return []J{"Assign", tgt, dumpExpr(v.AssignExpr)}
	case *syntax.ObjNewExpr:
		if v == nil {
			return NIL
		}
		return []J{"New", dumpID(v.ClassName), dumpExprs(v.Params)}
	case *syntax.FuncCallExpr:
		return dumpCall(v)
	case *syntax.MemberExpr:
		if v == nil {
			return NIL
		}
		return []J{"Member", dumpExpr(v.Root), int(v.RootType), int(v.MemberType), dumpID(v.MemberID), dumpExpr(v.MemberIndex)}
	case *syntax.MemberMethodExpr:
		if v == nil {
			return NIL
		}
		chain := []J{}
		for _, c := range v.MethodChain {
			chain = append(chain, dumpCall(c))
		}
		return []J{"MethodCall", dumpExpr(v.Root), chain, dumpID(v.YieldResult)}
	case *syntax.LogicExpr:
		if v == nil {
			return NIL
		}
		return []J{"Logic", int(v.Type), dumpExpr(v.LeftExpr), dumpExpr(v.RightExpr)}
	case *syntax.ArithExpr:
		if v == nil {
			return NIL
		}
		return []J{"Arith", int(v.Type), dumpExpr(v.LeftExpr), dumpExpr(v.RightExpr)}
	}
	return []J{"UnknownExpr", fmt.Sprintf("%T", e)}
}

func dumpBlock(b *syntax.StmtBlock) J {
	if b == nil {
		return NIL
	}
	out := []J{}
	for _, s := range b.Children {
		out = append(out, dumpStmt(s))
	}
	return []J{"Block", out}
}

func dumpExecBlock(x *syntax.ExecBlock) J {
	if x == nil {
		return NIL
	}
	cs := []J{}
	for _, c := range x.CatchBlock {
		if c == nil {
			cs = append(cs, NIL)
			continue
		}
		cs = append(cs, []J{"Catch", dumpID(c.ExceptionClass), dumpBlock(c.StmtBlock)})
	}
	return []J{"ExecBlock", dumpIDs(x.InputBlock), dumpBlock(x.StmtBlock), cs}
}

func dumpFuncDecl(v *syntax.FunctionDeclareStmt) J {
	if v == nil {
		return NIL
	}
	return []J{"FuncDecl", dumpID(v.Name), int(v.DeclareType), dumpExecBlock(v.ExecBlock)}
}

func dumpImport(v *syntax.ImportStmt) J {
	if v == nil {
		return NIL
	}
	return []J{"Import", int(v.ImportLibType), dumpStr(v.ImportName), dumpIDs(v.ImportItems)}
}

// dumpStmt - nil-safe dump of every statement node kind of ast.go
func dumpStmt(s syntax.Statement) J {
	if s == nil {
		return NIL
	}
	switch v := s.(type) {
	case *syntax.VarDeclareStmt:
		if v == nil {
			return NIL
		}
		ps := []J{}
		for _, p := range v.AssignPair {
			ps = append(ps, []J{p.Type, dumpIDs(p.Variables), dumpExpr(p.AssignExpr)})
		}
		return []J{"VarDecl", ps}
	case *syntax.EmptyStmt:
		if v == nil {
			return NIL
		}
		return []J{"Empty"}
	case *syntax.BranchStmt:
		if v == nil {
			return NIL
		}
		obs := []J{}
		for _, b := range v.OtherBlocks {
			obs = append(obs, dumpBlock(b))
		}
		return []J{"Branch", dumpExpr(v.IfTrueExpr), dumpBlock(v.IfTrueBlock), dumpBlock(v.IfFalseBlock),
			dumpExprs(v.OtherExprs), obs, v.HasElse}
	case *syntax.WhileLoopStmt:
		if v == nil {
			return NIL
		}
		return []J{"While", dumpExpr(v.TrueExpr), dumpBlock(v.LoopBlock)}
	case *syntax.IterateStmt:
		if v == nil {
			return NIL
		}
		return []J{"Iterate", dumpExpr(v.IterateExpr), dumpIDs(v.IndexNames), dumpBlock(v.IterateBlock)}
	case *syntax.ImportStmt:
		return dumpImport(v)
	case *syntax.BreakStmt:
		if v == nil {
			return NIL
		}
		return []J{"Break"}
	case *syntax.ContinueStmt:
		if v == nil {
			return NIL
		}
		return []J{"Continue"}
	case *syntax.StmtBlock:
		return dumpBlock(v)
	case *syntax.FunctionDeclareStmt:
		return dumpFuncDecl(v)
	case *syntax.FunctionReturnStmt:
		if v == nil {
			return NIL
		}
		return []J{"Return", dumpExpr(v.ReturnExpr)}
	case *syntax.ClassDeclareStmt:
		if v == nil {
			return NIL
		}
		props := []J{}
		for _, p := range v.PropertyList {
			if p == nil {
				props = append(props, NIL)
				continue
			}
			props = append(props, []J{"Prop", dumpID(p.PropertyID), dumpExpr(p.InitValue)})
		}
		ms := []J{}
		for _, m := range v.MethodList {
			ms = append(ms, dumpFuncDecl(m))
		}
		gs := []J{}
		for _, g := range v.GetterList {
			gs = append(gs, dumpFuncDecl(g))
		}
		return []J{"Class", dumpID(v.ClassName), props, ms, gs}
	case *syntax.PropertyDeclareStmt:
		if v == nil {
			return NIL
		}
		return []J{"Prop", dumpID(v.PropertyID), dumpExpr(v.InitValue)}
	case *syntax.ThrowExceptionStmt:
		if v == nil {
			return NIL
		}
		return []J{"Throw", dumpID(v.ExceptionClass), dumpExprs(v.Params)}
	case syntax.Expression:
		return dumpExpr(v)
	}
	return []J{"UnknownStmt", fmt.Sprintf("%T", s)}
}

func dumpProgram(p *syntax.Program) J {
	if p == nil {
		return NIL
	}
	imps := []J{}
	for _, i := range p.ImportBlock {
		imps = append(imps, dumpImport(i))
	}
	return []J{"Program", imps, dumpExecBlock(p.ExecBlock)}
}

func dumpLines(l *syntax.Lexer) J {
	out := []J{}
	for _, li := range l.Lines {
		out = append(out, []int{li.Indents, li.StartIdx})
	}
	return out
}

func displayOf(err error) (text string, panicked J) {
	defer func() {
		if r := recover(); r != nil {
			panicked = fmt.Sprintf("%v", r)
		}
	}()
	return exec.DisplayError(err), nil
}

func register(commands map[string]hlib.Handler) {
	commands["parse"] = func(in map[string]interface{}) map[string]interface{} {
		src := hlib.RunesOfCps(in["src"])
		parser := syntax.NewParser(src, zh.NewParserZH())
		prog, err := parser.Compile()
		out := map[string]interface{}{"lines": dumpLines(parser.Lexer), "indent_type": int(parser.Lexer.IndentType)}
		if err != nil {
			out["ok"] = false
			out["tree_with_error"] = prog != nil
			if se, ok := err.(*zerr.SyntaxError); ok {
				out["class"] = "syntax"
				out["code"] = se.Code
				out["cursor"] = se.Cursor
			} else {
				out["class"] = fmt.Sprintf("%T", err)
			}
			text, p := displayOf(exec.WrapSyntaxError(parser, "主模块", err))
			if p != nil {
				out["display_panic"] = p
			} else {
				out["display"] = hlib.RunesOf(text)
			}
			return out
		}
		out["ok"] = true
		out["tree"] = dumpProgram(prog)
		return out
	}

	commands["lex"] = func(in map[string]interface{}) map[string]interface{} {
		src := hlib.RunesOfCps(in["src"])
		l := syntax.NewLexer(src)
		toks := []J{}
		out := map[string]interface{}{}
		for n := 0; n <= len(src)+2; n++ {
			tk, err := zh.NextToken(l)
			if err != nil {
				if se, ok := err.(*zerr.SyntaxError); ok {
					out["code"] = se.Code
					out["cursor"] = se.Cursor
				} else {
					out["code"] = -1
				}
				break
			}
			lit := []int{}
			for _, c := range tk.Literal {
				lit = append(lit, int(c))
			}
			toks = append(toks, []J{int(tk.Type), lit, tk.StartIdx, tk.EndIdx})
			if tk.Type == zh.TypeEOF {
				break
			}
		}
		out["tokens"] = toks
		out["lines"] = dumpLines(l)
		out["indent_type"] = int(l.IndentType)
		return out
	}

	commands["varinput"] = func(in map[string]interface{}) map[string]interface{} {
		src := string(hlib.RunesOfCps(in["src"]))
		var m map[string]r.Element
		var err error
		var pnc interface{}
		printed := hlib.CaptureStdout(func() {
			defer func() { pnc = recover() }()
			m, err = exec.ExecVarInputText(src)
		})
		_ = printed
		if pnc != nil {
			panic(pnc)
		}
		if err != nil {
			out := map[string]interface{}{"ok": false}
			e := hlib.DumpError(err)
			out["class"] = e["class"]
			out["code"] = e["code"]
			return out
		}
		keys := []string{}
		for k := range m {
			keys = append(keys, k)
		}
		sort.Strings(keys)
		vals := []J{}
		for _, k := range keys {
			vals = append(vals, []J{hlib.RunesOf(k), hlib.DumpValue(m[k], 0)})
		}
		return map[string]interface{}{"ok": true, "nilmap": m == nil, "values": vals}
	}
}

var commands = map[string]hlib.Handler{}

func main() {
	register(commands)
	hlib.Main(commands)
}
