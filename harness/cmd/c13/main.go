// znh c13 — harness for property C13 (text literals).
// Drives the real lexer through the public API (syntax.NewLexer + zh.NextToken), the parser
// (syntax.NewParser + zh.NewParserZH) and the interpreter (输出‹literal›).
package main

import (
	"path/filepath"
	"os"
	"strconv"

	"znverif/hlib"

	zerr "github.com/DemoHn/Zn/pkg/error"
	"github.com/DemoHn/Zn/pkg/exec"
	r "github.com/DemoHn/Zn/pkg/runtime"
	"github.com/DemoHn/Zn/pkg/syntax"
	"github.com/DemoHn/Zn/pkg/syntax/zh"
	"github.com/DemoHn/Zn/pkg/value"
	libFile "github.com/DemoHn/Zn/stdlib/file"
	libJson "github.com/DemoHn/Zn/stdlib/json"
)

func ints(rs []rune) []int {
	out := make([]int, 0, len(rs))
	for _, c := range rs {
		out = append(out, int(c))
	}
	return out
}

func isQuote(x rune) bool {
	switch x {
	case 0x300A, 0x300B, 0x300C, 0x300D, 0x201C, 0x201D, 0x300E, 0x300F, 0x2018, 0x2019:
		return true
	}
	return false
}

// lexOne runs NextToken once on src (the literal starts at index 0).
// Encoding (shared with the Coq side):  ok: [1, type, end, nlit, lit..., nlines, lines...]
//
//	error: [0, code]   other: [2]
func lexOne(src []rune) (enc []int, cursor int) {
	l := syntax.NewLexer(src)
	tk, err := zh.NextToken(l)
	if err != nil {
		if se, ok := err.(*zerr.SyntaxError); ok {
			return []int{0, se.Code}, se.Cursor
		}
		return []int{2}, -1
	}
	enc = []int{1, int(tk.Type), tk.EndIdx, len(tk.Literal)}
	enc = append(enc, ints(tk.Literal)...)
	enc = append(enc, len(l.Lines))
	for _, li := range l.Lines {
		enc = append(enc, li.StartIdx)
	}
	return enc, l.GetCursor()
}

func classify(err error) map[string]interface{} {
	res := map[string]interface{}{}
	inner, _ := exec.VerifUnwrapError(err)
	switch e := inner.(type) {
	case *zerr.SyntaxError:
		res["class"] = "syntax"
		res["code"] = e.Code
		res["cursor"] = e.Cursor
	case *zerr.RuntimeError:
		res["class"] = "runtime"
		res["code"] = e.Code
	case *zerr.SemanticError:
		res["class"] = "semantic"
		res["code"] = e.Code
	case *zerr.IOError:
		res["class"] = "io"
		res["code"] = e.Code
	default:
		res["class"] = "other"
	}
	return res
}

var commands = map[string]hlib.Handler{}

func main() {
	register()
	hlib.Main(commands)
}

func register() {
	// {"src":[code points]}  -> {"enc":[...]}
	commands["lex"] = func(in map[string]interface{}) map[string]interface{} {
		enc, cur := lexOne(hlib.RunesOfCps(in["src"]))
		return map[string]interface{}{"enc": enc, "cursor": cur}
	}
	// exhaustive block: all strings of length "len" over "alphabet" appended to "prefix", wrapped as
	// open ++ body ++ tail.  Results in enumeration order (first position varies slowest).
	commands["lexblock"] = func(in map[string]interface{}) map[string]interface{} {
		alpha := hlib.RunesOfCps(in["alphabet"])
		prefix := hlib.RunesOfCps(in["prefix"])
		open := hlib.RunesOfCps(in["open"])
		tail := hlib.RunesOfCps(in["tail"])
		n := int(in["len"].(float64))
		idx := make([]int, n)
		outs := []interface{}{}
		for {
			src := append([]rune{}, open...)
			src = append(src, prefix...)
			for _, k := range idx {
				src = append(src, alpha[k])
			}
			src = append(src, tail...)
			enc, _ := lexOne(src)
			outs = append(outs, enc)
			// next
			p := n - 1
			for p >= 0 {
				idx[p]++
				if idx[p] < len(alpha) {
					break
				}
				idx[p] = 0
				p--
			}
			if p < 0 {
				break
			}
		}
		return map[string]interface{}{"encs": outs}
	}
	// digests of exhaustive blocks: for every prefix, all strings of length "len" over "alphabet" (first position
	// slowest) as open ++ prefix ++ body ++ tail; 63-bit multiplicative digest of the outcomes, same as digest_block in Coq
	commands["lexdigest"] = func(in map[string]interface{}) map[string]interface{} {
		alpha := hlib.RunesOfCps(in["alphabet"])
		open := hlib.RunesOfCps(in["open"])
		tail := hlib.RunesOfCps(in["tail"])
		n := int(in["len"].(float64))
		const mask = (uint64(1) << 63) - 1
		const hmul = uint64(6364136223846793005)
		step := func(h uint64, x int) uint64 { return (h*hmul + uint64(x) + 1) & mask }
		digests := []interface{}{}
		total := 0
		nontrivial := 0
		for _, pv := range in["prefixes"].([]interface{}) {
			prefix := hlib.RunesOfCps(pv)
			idx := make([]int, n)
			var h uint64
			for {
				src := make([]rune, 0, len(open)+len(prefix)+n+len(tail))
				src = append(src, open...)
				src = append(src, prefix...)
				for _, k := range idx {
					src = append(src, alpha[k])
				}
				src = append(src, tail...)
				enc, _ := lexOne(src)
				total++
				for _, x := range src[len(open) : len(src)-len(tail)] {
					if x == '`' || x == '\r' || x == '\n' || x == 0 || isQuote(x) {
						nontrivial++
						break
					}
				}
				h = step(h, len(enc))
				for _, x := range enc {
					h = step(h, x)
				}
				p := n - 1
				for p >= 0 {
					idx[p]++
					if idx[p] < len(alpha) {
						break
					}
					idx[p] = 0
					p--
				}
				if p < 0 {
					break
				}
			}
			digests = append(digests, strconv.FormatUint(h, 10))
		}
		return map[string]interface{}{"digests": digests, "cases": total, "nontrivial": nontrivial}
	}
	// {"src":[code points of a whole program]} -> value / error of the interpreter
	commands["e2e"] = func(in map[string]interface{}) map[string]interface{} {
		src := hlib.RunesOfCps(in["src"])
		var elem r.Element
		var err error
		disp := hlib.CaptureStdout(func() {
			z := exec.NewInterpreter("verif").SetExternalLibs([]*r.Library{libJson.Export(), libFile.Export()})
			if asFile, _ := in["file"].(bool); asFile {
				// the program comes from a file (read in blocks, decoded, one leading BOM removed): the literal is the same
				dir, derr := os.MkdirTemp("", "znc13")
				if derr != nil {
					err = derr
					return
				}
				defer os.RemoveAll(dir)
				p := filepath.Join(dir, "a.zn")
				os.WriteFile(p, []byte(string(src)), 0644)
				elem, err = z.LoadFile(p).Execute(r.ElementMap{})
				return
			}
			elem, err = z.LoadScript(src).Execute(r.ElementMap{})
		})
		out := map[string]interface{}{"display": hlib.RunesOf(disp)}
		if err != nil {
			out["kind"] = "error"
			out["err"] = classify(err)
			return out
		}
		out["kind"] = "value"
		if s, ok := elem.(*value.String); ok && s != nil {
			out["str"] = hlib.RunesOf(s.GetValue())
			// byte-exact view (string(runes) replaces invalid runes by U+FFFD)
			out["bytes"] = len(s.GetValue())
		} else {
			out["value"] = hlib.DumpValue(elem, 0)
		}
		return out
	}
	// {"src":[...]} -> parse only; literals of the import statements and of a leading string expression statement
	commands["parse"] = func(in map[string]interface{}) map[string]interface{} {
		src := hlib.RunesOfCps(in["src"])
		p := syntax.NewParser(src, zh.NewParserZH())
		pg, err := p.Parse()
		if err != nil {
			return map[string]interface{}{"kind": "error", "err": classify(err)}
		}
		out := map[string]interface{}{"kind": "ok"}
		imps := []interface{}{}
		for _, im := range pg.ImportBlock {
			imps = append(imps, map[string]interface{}{"libtype": int(im.ImportLibType), "name": hlib.RunesOf(im.ImportName.GetLiteral())})
		}
		out["imports"] = imps
		return out
	}
}
