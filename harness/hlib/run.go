// znh — verification harness for DemoHn/Zn. Built with -tags verif against /repo's working tree.
// Protocol: `znh <command>` reads one JSON object per line on stdin and writes one JSON
// object per line on the original stdout. Program output (显示) is captured per case.
package hlib

import (
	"bufio"
	"encoding/json"
	"fmt"
	"os"
	"runtime/debug"
	"time"
)

// Handler processes one JSON case.
type Handler func(in map[string]interface{}) map[string]interface{}

var realStdout *os.File

// Main dispatches os.Args[1] over the given command table.
func Main(commands map[string]Handler) {
	if len(os.Args) < 2 {
		fmt.Fprintln(os.Stderr, "usage: znh <command>")
		os.Exit(2)
	}
	h, ok := commands[os.Args[1]]
	if !ok {
		fmt.Fprintf(os.Stderr, "unknown command %s\n", os.Args[1])
		os.Exit(2)
	}
	realStdout = os.Stdout
	debug.SetMaxStack(256 << 20)
	rd := bufio.NewReaderSize(os.Stdin, 1<<20)
	wr := bufio.NewWriter(realStdout)
	for {
		line, err := rd.ReadBytes('\n')
		if len(line) > 1 {
			var in map[string]interface{}
			if jerr := json.Unmarshal(line, &in); jerr != nil {
				fmt.Fprintf(os.Stderr, "bad json: %v\n", jerr)
				os.Exit(2)
			}
			out := runCase(h, in)
			b, _ := json.Marshal(out)
			wr.Write(b)
			wr.WriteByte('\n')
			wr.Flush()
			if _, hung := out["hang"]; hung {
				// a hung goroutine cannot be stopped: leave, the driver restarts us
				os.Exit(3)
			}
		}
		if err != nil {
			break
		}
	}
}

func caseTimeout(in map[string]interface{}) time.Duration {
	if v, ok := in["timeout_ms"].(float64); ok && v > 0 {
		return time.Duration(v) * time.Millisecond
	}
	return 5 * time.Second
}

func runCase(h Handler, in map[string]interface{}) (out map[string]interface{}) {
	done := make(chan map[string]interface{}, 1)
	go func() {
		defer func() {
			if r := recover(); r != nil {
				done <- map[string]interface{}{"panic": fmt.Sprintf("%v", r)}
			}
		}()
		done <- h(in)
	}()
	select {
	case out = <-done:
		return out
	case <-time.After(caseTimeout(in)):
		return map[string]interface{}{"hang": true}
	}
}
