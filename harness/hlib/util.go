package hlib

import (
	"bytes"
	"encoding/hex"
	"io"
	"math"
	"os"
	"sort"
	"sync"

	zerr "github.com/DemoHn/Zn/pkg/error"
	"github.com/DemoHn/Zn/pkg/exec"
	r "github.com/DemoHn/Zn/pkg/runtime"
	"github.com/DemoHn/Zn/pkg/value"
)

func RunesOf(s string) []int {
	res := []int{}
	for _, c := range []rune(s) {
		res = append(res, int(c))
	}
	return res
}

func StrOfCps(v interface{}) string {
	// accepts either a JSON string or a list of code points
	switch x := v.(type) {
	case string:
		return x
	case []interface{}:
		rs := make([]rune, 0, len(x))
		for _, c := range x {
			rs = append(rs, rune(int(c.(float64))))
		}
		return string(rs)
	}
	return ""
}

func RunesOfCps(v interface{}) []rune {
	switch x := v.(type) {
	case string:
		return []rune(x)
	case []interface{}:
		rs := make([]rune, 0, len(x))
		for _, c := range x {
			rs = append(rs, rune(int(c.(float64))))
		}
		return rs
	}
	return []rune{}
}

func Unhex(s string) []byte {
	b, err := hex.DecodeString(s)
	if err != nil {
		panic("bad hex")
	}
	return b
}

// CaptureStdout runs f with os.Stdout redirected into a buffer.
var captureMu sync.Mutex

func CaptureStdout(f func()) string {
	captureMu.Lock()
	defer captureMu.Unlock()
	rd, wr, err := os.Pipe()
	if err != nil {
		panic(err)
	}
	old := os.Stdout
	os.Stdout = wr
	var buf bytes.Buffer
	doneCh := make(chan struct{})
	go func() {
		io.Copy(&buf, rd)
		close(doneCh)
	}()
	func() {
		defer func() {
			os.Stdout = old
			wr.Close()
		}()
		f()
	}()
	<-doneCh
	rd.Close()
	return buf.String()
}

// DumpValue renders an element as a type-tagged tree.
// numbers: IEEE bit pattern (all NaNs canonicalised); text: code points.
func DumpValue(e r.Element, depth int) interface{} {
	if e == nil {
		return map[string]interface{}{"t": "nil"}
	}
	if depth > 200 {
		return map[string]interface{}{"t": "deep"}
	}
	switch v := e.(type) {
	case *value.Null:
		if v == nil {
			return map[string]interface{}{"t": "nil"}
		}
		return map[string]interface{}{"t": "null"}
	case *value.Bool:
		return map[string]interface{}{"t": "bool", "v": v.GetValue()}
	case *value.Number:
		f := v.GetValue()
		bits := math.Float64bits(f)
		if f != f {
			bits = 0x7FF8000000000000
		}
		return map[string]interface{}{"t": "num", "bits": Bits2Str(bits)}
	case *value.String:
		return map[string]interface{}{"t": "str", "v": RunesOf(v.GetValue())}
	case *value.Array:
		items := []interface{}{}
		for _, it := range v.GetValue() {
			items = append(items, DumpValue(it, depth+1))
		}
		return map[string]interface{}{"t": "list", "v": items}
	case *value.HashMap:
		items := []interface{}{}
		m := v.GetValue()
		for _, k := range v.GetKeyOrder() {
			items = append(items, []interface{}{RunesOf(k), DumpValue(m[k], depth+1)})
		}
		return map[string]interface{}{"t": "dict", "v": items, "maplen": len(m)}
	case *value.Object:
		return map[string]interface{}{"t": "obj", "cls": RunesOf(v.GetObjectName())}
	case *value.Function:
		return map[string]interface{}{"t": "func"}
	case *value.ClassModel:
		return map[string]interface{}{"t": "class", "cls": RunesOf(v.GetName())}
	case *value.Exception:
		return map[string]interface{}{"t": "exc", "msg": RunesOf(v.Message)}
	case *value.GoValue:
		return map[string]interface{}{"t": "go", "tag": v.GetTag()}
	}
	return map[string]interface{}{"t": "other"}
}

func Bits2Str(b uint64) string {
	const hexd = "0123456789abcdef"
	out := make([]byte, 16)
	for i := 15; i >= 0; i-- {
		out[i] = hexd[b&0xf]
		b >>= 4
	}
	return string(out)
}

// DumpError classifies an error returned by the interpreter.
func DumpError(err error) map[string]interface{} {
	res := map[string]interface{}{}
	inner, vm := exec.VerifUnwrapError(err)
	res["display"] = exec.DisplayError(err)
	switch e := inner.(type) {
	case *zerr.SyntaxError:
		res["class"] = "syntax"
		res["code"] = e.Code
		res["cursor"] = e.Cursor
	case *zerr.RuntimeError:
		res["class"] = "runtime"
		res["code"] = e.Code
	case *zerr.SemanticError:
		res["class"] = "semantic"
		res["code"] = e.Code
	case *zerr.IOError:
		res["class"] = "io"
		res["code"] = e.Code
	case *zerr.Signal:
		res["class"] = "signal"
		res["code"] = int(e.SigType)
	case *value.Exception:
		res["class"] = "goexception"
		res["msg"] = RunesOf(e.Message)
	default:
		if inner != nil {
			res["class"] = "other"
			res["msg"] = RunesOf(inner.Error())
		} else {
			res["class"] = "nilerr"
		}
	}
	if vm != nil {
		res["stack"] = vm.VerifCallStackInfo()
		res["scopes"] = vm.VerifScopeInfo()
	}
	return res
}

func SortedKeys(m map[string]interface{}) []string {
	ks := []string{}
	for k := range m {
		ks = append(ks, k)
	}
	sort.Strings(ks)
	return ks
}
