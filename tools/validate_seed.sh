#!/bin/bash
# validate_seed.sh <Cnn> <dir-with patch.diff demo/ meta.json> : confirms a seeded change in a fresh scratch worktree of /repo:
#  (1) patch applies to HEAD, (2) builds, (3) baseline 195 tests pass with it, (4) demo fails with it, (5) demo passes without it.
# Leaves the worktree /tmp/val-<Cnn> WITH the patch applied (for ZN_REPO=... ./check); remove it with
#   git -C /repo worktree remove --force /tmp/val-<Cnn>
export GOFLAGS=-mod=mod GOPROXY=off GOSUMDB=off GOTOOLCHAIN=local
id=$1; src=$2; wt=/tmp/val-$id
git -C /repo worktree remove --force $wt 2>/dev/null; rm -rf $wt
git -C /repo worktree add --detach $wt HEAD >/dev/null 2>&1 || { echo "worktree failed"; exit 2; }
cd $wt
git apply "$src/patch.diff" || { echo "RESULT patch-does-not-apply"; exit 1; }
echo "== files:"; git diff --stat | cat
go build ./pkg/exec ./pkg/io ./pkg/runtime ./pkg/syntax/... ./pkg/value ./pkg/common ./stdlib/json ./stdlib/file && go build -tags verif ./pkg/server || { echo "RESULT build-fails"; exit 1; }
ZN_REPO=$wt /verif/tools/baseline.sh || { echo "RESULT baseline-fails"; exit 1; }
mkdir -p zz_demo && cp -r "$src"/demo/* zz_demo/
cmd=$(head -1 zz_demo/run.txt | sed -E 's#^cd /tmp/[A-Za-z0-9_-]+ *(&&|;) *##')   # some deliveries start with "cd <their worktree> &&"
echo "== demo with change: $cmd"
timeout 900 bash -c "$cmd" > /tmp/val-$id.with 2>&1; rcw=$?
tail -15 /tmp/val-$id.with
git apply -R "$src/patch.diff"
echo "== demo without change"
timeout 900 bash -c "$cmd" > /tmp/val-$id.without 2>&1; rco=$?
tail -5 /tmp/val-$id.without
git apply "$src/patch.diff"
rm -rf zz_demo
rm -f /tmp/val-$id.with /tmp/val-$id.without
if [ $rcw -ne 0 ] && [ $rco -eq 0 ]; then echo "RESULT confirmed"; exit 0; fi
echo "RESULT demo-not-discriminating with=$rcw without=$rco"; exit 1
