module go2coq_c04

go 1.18
