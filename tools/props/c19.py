# C19 — JSON generation and parsing are faithful inverses.
# Tie: hand-written model (coq/model/Json.v, JsonNum.v) vs stdlib/json + pkg/common/elem2json.go, three ways (T3):
#   gen    （生成JSON：d）      text parsed by Python's json (independent) AND by the model; text compared with the model's
#                               rendering modulo number spelling
#   parse  （解析JSON：t）      t from Python's encoder (several spellings) and every single-character corruption of small
#                               documents; value compared structurally (incl. key order) with the model; errors must reach
#                               a 拦截异常 handler
#   rt     解析JSON(生成JSON(d)) equals d structurally and `为 d` is 真
import json
import math
import os
import struct
from vlib import core

HARNESS = "c19"

TB = ("Coq 8.16.1 kernel and vm_compute; hand-written Gallina model tied to /repo by the per-run correspondence check "
      "(Go harness built -tags verif from the working tree, model evaluated inside Coq on the same inputs); "
      "generators and comparison code in tools/; Python's json module as independent third-party reader/writer; ")
CLAIM = dict(
    text=("Theorems (coq/props/C19.v, closed under the global context) about an executable model of pkg/common/elem2json.go and "
          "stdlib/json/json.go (with fixes/C19-1 and C19-2) plus a Gallina re-statement of what encoding/json does for the values "
          "Zn hands it (RFC 8259 codec, objects as ordered member lists): parse(render v) = v for every JSON value (nested, strings "
          "over all Unicode scalar values incl. quotes, backslashes, controls, astral characters; any RFC number token); the "
          "rendered text is in the RFC 8259 grammar (ABNF as inductive predicates, written independently of parser and renderer); the model "
          "parser DECIDES that grammar — for every text of Unicode scalar values, rejected <-> not a JSON text (soundness for texts of "
          "code points, completeness for all texts; soundness fails above 0x10FFFF, proved too) — and returns the value the text denotes "
          "(an independent denotation of grammar derivations, functional in the text); the parser never runs out of fuel; "
          "解析JSON(生成JSON(d)) = d with keys in keyOrder = document order for every JSON-representable dictionary (every finite "
          "double, through its exact decimal expansion and a correctly rounding decimal-to-double conversion); keys of any parsed "
          "document come out in document order; non-finite numbers, malformed JSON, out-of-range numbers and top-level "
          "non-objects give the Exception outcome (the signal a 拦截异常 handler catches), never Crash, OutOfFuel or a value. Tied "
          "to the code on every run by differential execution three ways (生成JSON text read by Python's json and by the model and "
          "compared with the model's text; 解析JSON on Python-encoded documents and on every single-character corruption of small "
          "documents, with a 拦截异常 handler observed; round trips) against the model evaluated in Coq."),
    note=TB + ("encoding/json (Marshal string/number spelling, Decoder token stream, strconv.ParseFloat) is restated in Gallina and "
               "validated by the differential run, not verified; the model renders a double by its exact decimal expansion whereas "
               "Go prints the shortest decimal that reads back (compared modulo number spelling: Go's spelling is read back by the "
               "model and by Python on every generated number); a Zn text is identified with its sequence of Unicode scalar values "
               "(UTF-8 layer: C17); malformed = not in the RFC 8259 grammar (C19_parser_decides_grammar), cross-checked against Python's json on every case; nesting deeper than 10000 is rejected by "
               "encoding/json's limit (not in the model, not judged); delivery of the exception signal to the handler is C09's "
               "subject and is observed here per case. No axioms."),
    technique="Coq proof (structural induction over JSON values, fuel-bounded recursive-descent parser with proved fuel bound, exact "
              "integer arithmetic for decimal<->binary64) + model/implementation correspondence by vm_compute + independent "
              "third-party codec (Python json)",
    design="5/C19")

IMPORTS = ("From Coq Require Import List ZArith Bool. Import ListNotations.\n"
           "From Zn.model Require Import Json JsonNum.")

HANDLER_MARK = "C19-HANDLER-RAN"


# ------------------------------------------------------------------ trees
def T_null():
    return {"t": "null"}


def T_bool(b):
    return {"t": "bool", "v": bool(b)}


def f2bits(f):
    return struct.unpack(">Q", struct.pack(">d", f))[0]


def bits2f(b):
    return struct.unpack(">d", struct.pack(">Q", b))[0]


def T_num(f):
    return {"t": "num", "bits": "%016x" % f2bits(f)}


def T_bits(b):
    return {"t": "num", "bits": "%016x" % b}


def T_str(s):
    return {"t": "str", "v": [ord(c) for c in s] if isinstance(s, str) else list(s)}


def T_list(xs):
    return {"t": "list", "v": list(xs)}


def T_dict(kvs):
    return {"t": "dict", "v": [[[ord(c) for c in k] if isinstance(k, str) else list(k), v] for k, v in kvs]}


def strip_tree(t):
    """normalise a DumpValue tree (drop maplen etc.)"""
    k = t.get("t")
    if k == "list":
        return {"t": "list", "v": [strip_tree(x) for x in t["v"]]}
    if k == "dict":
        return {"t": "dict", "v": [[list(p[0]), strip_tree(p[1])] for p in t["v"]]}
    if k == "num":
        return {"t": "num", "bits": t["bits"]}
    if k == "str":
        return {"t": "str", "v": list(t["v"])}
    if k == "bool":
        return {"t": "bool", "v": t["v"]}
    return {"t": k}


def enc_tree(t):
    """flat encoding, identical to JsonNum.enc_elem"""
    k = t["t"]
    if k == "null":
        return [0]
    if k == "bool":
        return [1, 1 if t["v"] else 0]
    if k == "num":
        return [2, int(t["bits"], 16)]
    if k == "str":
        return [3, len(t["v"])] + list(t["v"])
    if k == "list":
        out = [4, len(t["v"])]
        for x in t["v"]:
            out += enc_tree(x)
        return out
    if k == "dict":
        out = [5, len(t["v"])]
        for key, v in t["v"]:
            out += [len(key)] + list(key) + enc_tree(v)
        return out
    return [6]


def dec_flat(xs, i=0):
    """inverse of enc_tree -> (tree, next index)"""
    k = xs[i]
    if k == 0:
        return T_null(), i + 1
    if k == 1:
        return T_bool(xs[i + 1] == 1), i + 2
    if k == 2:
        return T_bits(xs[i + 1]), i + 2
    if k == 3:
        n = xs[i + 1]
        return {"t": "str", "v": xs[i + 2:i + 2 + n]}, i + 2 + n
    if k == 4:
        n = xs[i + 1]
        i += 2
        items = []
        for _ in range(n):
            x, i = dec_flat(xs, i)
            items.append(x)
        return T_list(items), i
    if k == 5:
        n = xs[i + 1]
        i += 2
        items = []
        for _ in range(n):
            kl = xs[i]
            key = xs[i + 1:i + 1 + kl]
            v, i = dec_flat(xs, i + 1 + kl)
            items.append([key, v])
        return {"t": "dict", "v": items}, i
    return {"t": "func"}, i + 1


def elem_term(t):
    k = t["t"]
    if k == "null":
        return "ENull"
    if k == "bool":
        return "EBool " + core.coq_bool(t["v"])
    if k == "num":
        return "ENum %d" % int(t["bits"], 16)
    if k == "str":
        return "EStr " + core.zlist(t["v"])
    if k == "list":
        return "EArr [" + ";".join(elem_term(x) for x in t["v"]) + "]"
    if k == "dict":
        return "EDict [" + ";".join("(%s, %s)" % (core.zlist(key), elem_term(v)) for key, v in t["v"]) + "]"
    return "EOther"


def norm_order(t):
    """dictionary members sorted: equality modulo key order"""
    k = t["t"]
    if k == "list":
        return {"t": "list", "v": [norm_order(x) for x in t["v"]]}
    if k == "dict":
        return {"t": "dict", "v": sorted(([list(p[0]), norm_order(p[1])] for p in t["v"]), key=lambda p: p[0])}
    return t


def norm_empty(t):
    k = t["t"]
    if k == "list":
        if not t["v"]:
            return T_null()
        return {"t": "list", "v": [norm_empty(x) for x in t["v"]]}
    if k == "dict":
        return {"t": "dict", "v": [[p[0], norm_empty(p[1])] for p in t["v"]]}
    return t


def diff_class(exp, obs):
    if exp == obs:
        return None
    if norm_order(exp) == norm_order(obs):
        return "key-order"
    if norm_empty(exp) == norm_empty(obs):
        return "empty-list-null"
    if norm_order(norm_empty(exp)) == norm_order(norm_empty(obs)):
        return "key-order"          # (both; the order one is reported first)
    return "value"


def representable(t):
    """JSON-representable: no functions, finite numbers"""
    k = t["t"]
    if k == "num":
        return math.isfinite(bits2f(int(t["bits"], 16)))
    if k == "list":
        return all(representable(x) for x in t["v"])
    if k == "dict":
        return all(representable(p[1]) for p in t["v"])
    return k in ("null", "bool", "str")


def has_other(t):
    k = t["t"]
    if k == "list":
        return any(has_other(x) for x in t["v"])
    if k == "dict":
        return any(has_other(p[1]) for p in t["v"])
    return k not in ("null", "bool", "str", "num")


# ------------------------------------------------------------------ python <-> trees
class PyReject(Exception):
    pass


def _py_const(c):
    raise PyReject("constant " + c)


def _py_float(s):
    f = float(s)
    if not math.isfinite(f):
        raise PyReject("out of range")
    return f


def _py_int(s):
    return _py_float(s)


class Pairs(list):
    pass


def py_loads_strict(text):
    """Python's json as an RFC 8259 reader: no NaN/Infinity, numbers as doubles (out of range = reject),
    objects as ordered pair lists.  Returns a tree or raises."""
    try:
        v = json.loads(text, object_pairs_hook=Pairs, parse_constant=_py_const, parse_float=_py_float, parse_int=_py_int)
    except (ValueError, PyReject, RecursionError) as e:
        raise PyReject(str(e))
    return py_to_tree(v)


def py_to_tree(v):
    if v is None:
        return T_null()
    if v is True or v is False:
        return T_bool(v)
    if isinstance(v, float):
        return T_num(v)
    if isinstance(v, int):
        return T_num(float(v))
    if isinstance(v, str):
        return T_str(v)
    if isinstance(v, Pairs):
        # HashMap semantics for duplicate keys: first position, last value
        order, vals = [], {}
        for k, x in v:
            if k not in vals:
                order.append(k)
            vals[k] = py_to_tree(x)
        return T_dict([(k, vals[k]) for k in order])
    if isinstance(v, list):
        return T_list([py_to_tree(x) for x in v])
    raise PyReject("unexpected python value")


def has_lone_surrogate_escape(tree):
    k = tree["t"]
    if k == "str":
        return any(0xD800 <= c < 0xE000 for c in tree["v"])
    if k == "list":
        return any(has_lone_surrogate_escape(x) for x in tree["v"])
    if k == "dict":
        return any(any(0xD800 <= c < 0xE000 for c in p[0]) or has_lone_surrogate_escape(p[1]) for p in tree["v"])
    return False


def tree_to_py(t, int_style):
    """tree -> Python value for json.dumps; int_style: integer-valued doubles become ints (spelled without .0)"""
    k = t["t"]
    if k == "null":
        return None
    if k == "bool":
        return t["v"]
    if k == "num":
        f = bits2f(int(t["bits"], 16))
        if int_style and f == int(f) and abs(f) < 1e300 and not (f == 0 and math.copysign(1, f) < 0):
            return int(f)
        return f
    if k == "str":
        return "".join(chr(c) for c in t["v"])
    if k == "list":
        return [tree_to_py(x, int_style) for x in t["v"]]
    if k == "dict":
        return {"".join(chr(c) for c in p[0]): tree_to_py(p[1], int_style) for p in t["v"]}
    raise ValueError


# ------------------------------------------------------------------ generators
SPECIAL_CHARS = [0x22, 0x5C, 0x2F, 0x00, 0x01, 0x08, 0x09, 0x0A, 0x0C, 0x0D, 0x1F, 0x20, 0x7F, 0x80, 0x9F, 0xA0,
                 0x3C, 0x3E, 0x26, 0x27, 0x2028, 0x2029, 0xFFFD, 0xFEFF, 0xFFFF, 0xD7FF, 0xE000, 0x10000, 0x10FFFF,
                 0x1F600, 0x4F60, 0x597D, 0x75, 0x6E, 0x7B, 0x7D, 0x5B, 0x5D, 0x3A, 0x2C, 0x30, 0x2D, 0x65, 0xE9, 0x3000]

COMMON_DOUBLES = [0.0, -0.0, 1.0, -1.0, 0.1, 0.5, 2.5, 100.5, 1e21, 1e20, 999999999999999900000.0, 1e-6, 1e-7, 9.5e-7,
                  123456789012345680000.0, 9007199254740992.0, 9007199254740993.0, 9007199254740991.0, 4503599627370496.5,
                  0.3, 1 / 3.0, 3.141592653589793, 1e15, 1e16, 1e17, 123456.789, 0.000001, 1e22, 1e23, 8.41e21, 1.5, 255.0,
                  65536.0, 1e-5, 1e-10, 1e30, -2.5e-8, 6.02214076e23]
# long exact expansions (up to 1075 digits): expensive for the model, used sparingly
EXTREME_DOUBLES = [5e-324, -5e-324, 2.2250738585072014e-308, 2.225073858507201e-308, 1.7976931348623157e308,
                   -1.7976931348623157e308, 1e100, 1e-100, 1e-323, 2.0 ** -1022, 2.0 ** 1023, 2.0 ** -1074 * 3, 1e308, 1e-308]
BOUNDARY_DOUBLES = COMMON_DOUBLES + EXTREME_DOUBLES
NONFINITE = [float("nan"), float("inf"), float("-inf")]


def rand_cp(rng):
    k = rng.random()
    if k < 0.3:
        return rng.choice(SPECIAL_CHARS)
    if k < 0.55:
        return rng.randrange(0x20, 0x7F)
    if k < 0.7:
        return rng.randrange(0x4E00, 0x9FFF)
    if k < 0.78:
        return rng.randrange(0x0, 0x20)
    if k < 0.86:
        return rng.randrange(0x80, 0x800)
    if k < 0.93:
        return rng.randrange(0x10000, 0x110000)
    c = rng.randrange(0, 0x110000)
    return 0xE000 if 0xD800 <= c < 0xE000 else c


def rand_text(rng, maxlen=8):
    return [rand_cp(rng) for _ in range(rng.choice([0, 1, 1, 2, 3, 5, maxlen]))]


def rand_double(rng):
    k = rng.random()
    if k < 0.33:
        return rng.choice(COMMON_DOUBLES)
    if k < 0.34:
        return rng.choice(EXTREME_DOUBLES)
    if k < 0.55:
        return float(rng.randrange(-1000, 1000))
    if k < 0.7:
        return rng.randrange(-10 ** 6, 10 ** 6) / rng.choice([10.0, 100.0, 8.0, 1000.0])
    if k < 0.8:
        return float(rng.randrange(-2 ** 62, 2 ** 62))
    # random bit pattern; mostly moderate exponents (the model spells a double by its exact expansion)
    if rng.random() < 0.95:
        return bits2f((rng.getrandbits(1) << 63) | (rng.randrange(1023 - 70, 1023 + 70) << 52) | rng.getrandbits(52))
    while True:
        f = bits2f(rng.getrandbits(64))
        if math.isfinite(f):
            return f


def rand_value(rng, depth, nonfinite=False, other=False):
    k = rng.random()
    if depth <= 0 or k < 0.55:
        j = rng.random()
        if j < 0.35:
            if nonfinite and rng.random() < 0.3:
                return T_num(rng.choice(NONFINITE))
            return T_num(rand_double(rng))
        if j < 0.7:
            return T_str(rand_text(rng))
        if j < 0.85:
            return T_bool(rng.random() < 0.5)
        if other and rng.random() < 0.3:
            return {"t": "func"}
        return T_null()
    if k < 0.78:
        return T_list([rand_value(rng, depth - 1, nonfinite, other) for _ in range(rng.choice([0, 0, 1, 2, 3, 5]))])
    return rand_dict(rng, depth - 1, nonfinite, other)


def rand_keys(rng, n):
    keys, seen = [], set()
    pool = ["乙", "甲", "B", "A", "z", "y", "x", "w", "", "键", "a", "b", "10", "9", "ä", "Z", "名字", "k\"", "k\\", "\n"]
    while len(keys) < n:
        k = [ord(c) for c in rng.choice(pool)] if rng.random() < 0.6 else rand_text(rng, 4)
        if tuple(k) not in seen:
            seen.add(tuple(k))
            keys.append(k)
    return keys


def rand_dict(rng, depth, nonfinite=False, other=False):
    n = rng.choice([0, 1, 2, 3, 4, 4, 6])
    return T_dict([(k, rand_value(rng, depth, nonfinite, other)) for k in rand_keys(rng, n)])


PARSE_PROBES = [
    'null', ' null ', 'true', '"x"', '1', '[1]', '{}', ' { } ', '{"a":[]}', ' {"a" : [ 1 , 2 ] }\n', '{"a":1} x', '{"a":1}{}',
    '{"a":01}', '{"a":1.}', '{"a":.5}', '{"a":+1}', '{"a":1e5}', '{"a":1E+5}', '{"a":1e-5}', '{"a":-}', '{"a":-0}', '{"a":-0.0}',
    '{"a":1.0}', '{"a":0e999}', '{"a":0.0e-999}', '{"a":1e400}', '{"a":-1e400}', '{"a":1e308}', '{"a":1e309}', '{"a":1.7976931348623157e308}',
    '{"a":1.7976931348623158e308}', '{"a":1.797693134862315808e308}', '{"a":17976931348623158079372897140530341507993413271003782693617377898044496829276475094664901797758720709633028641669288791094655554785194040263065748867150582068190890200070838367627385484581771153176447573027006985557136695962284291481986083493647529271907416844436551070434271155969950809304288017790417449779}',
    '{"a":179769313486231590000000000000000000000000000000000000000000000000000000000000000000000000000000000000000000000000000000000000000000000000000000000000000000000000000000000000000000000000000000000000000000000000000000000000000000000000000000000000000000000000000000000000000000000000000000000000000000000}',
    '{"a":2.5e-324}', '{"a":2.4703282292062327e-324}', '{"a":2.4703282292062328e-324}', '{"a":2e-324}', '{"a":4.9e-324}', '{"a":-1e-400}',
    '{"a":9007199254740993}', '{"a":9007199254740992.5}', '{"a":9007199254740993.0000000000000000000000001}',
    '{"a":123456789012345678901234567890}', '{"a":1e99999999999999999999}', '{"a":1e-99999999999999999999}',
    '{"a":0.1e1}', '{"a":100000000000000000000000000000000000000000000000000000000000e-60}', '{"a":1e0000000000000000000000001}',
    '{"a":"\\u00e9\\ud83d\\ude00"}', '{"a":"\\uD83D\\uDE00"}', '{"a":"\\ud83d"}', '{"a":"\\ud83dx"}', '{"a":"\\ude00\\ud83d"}',
    '{"a":"\\ud83d\\u0041"}', '{"a":"\\ud83d\\ud83d\\ude00"}', '{"a":"\\ud83d\\u00"}', '{"a":"\\ud83d\\', '{"a":"\\u12"}', '{"a":"\\u12G4"}',
    '{"a":"\t"}', '{"a":"\\x"}', '{"a":"\x7f"}', '{"a":\'b\'}', '{a:1}', '{"a":NaN}', '{"a":Infinity}', '{"a":-Infinity}',
    '{"a":1,}', '{,"a":1}', '{"a":1,,"b":2}', '{"a"}', '{"a":}', '{"a" 1}', '{"a":1 "b":2}', '{1:2}', '{null:1}',
    '[', '{', '{"a":[1,]}', '{"a":[,1]}', '{"a":[1 2]}', '{"a":[}', '{"a":{]}', '{"a":1]', '{"a":{"b":{"c":[[[]]]}}}',
    '{"a":1,"b":2,"a":3}', '{"a":{"x":1},"a":[2]}', '{"":1,"":2}', '\ufeff{}', '{"a":tru}', '{"a":truee}', '{"a":nul}', '{"a":True}',
    '{"a":"\\/\\b\\f\\n\\r\\t\\"\\\\"}', '{"A":1}\x00', '{"a":1} ', '{"a"\u3000:1}', '{"a":1}\n\n', '\t\r\n {"a":1}', '',
    ' ', '{"a":"abc', '{"a":"abc\\"}', '{"\\u0061":1}', '{"a\\u0000b":1}', '{"a":-01}', '{"a":1e}', '{"a":1e+}', '{"a":--1}',
    '{"a":0x10}', '{"a":1_000}', '{"a":"  <>&"}', '{"a":[[],{},[{}],{"b":[]}]}', '{"z":1,"y":2,"x":3,"w":4}',
    '{"乙":1,"甲":2,"B":3,"A":4}', '{"a":null,"b":true,"c":false}', '{"a":/**/1}', '{"a":1}//', '{"a":1;}', "{'a':1}",
    '{"a":"\U0001F600"}', '{"a":"\uffff\ufffd"}', '{"a":00}', '{"a":0}', '{"a":-0e0}', '{"a":1.5E-3}', '{"a":[null]}',
]

SMALL_DOCS = ['{"a":1}', '{"k":[1,-2.5e1,"x\\n"],"":null}', '{"b":{"c":true},"a":false}', '{"x":"\\u00e9\\ud83d\\ude00","y":[]}',
              '{ "n" : 0.5 , "m" : {} }', '{"s":"a\\\\\\"b","t":[[1],[2,3]]}']
CORRUPT_ALPHABET = ['"', '\\', '{', '}', '[', ']', ':', ',', '0', '1', '-', '.', 'e', 'u', ' ', 'n', 't', '\n', '\x00', 'é', '\U0001F600', 'x']


def single_char_corruptions(doc, alphabet):
    out = []
    n = len(doc)
    for i in range(n):
        out.append(("delete", doc[:i] + doc[i + 1:]))
        for a in alphabet:
            if a != doc[i]:
                out.append(("replace", doc[:i] + a + doc[i + 1:]))
    for i in range(n + 1):
        for a in alphabet:
            out.append(("insert", doc[:i] + a + doc[i:]))
    return out


def py_documents(rng, tree):
    """spellings of one dictionary by Python's encoder"""
    docs = []
    for int_style in (False, True):
        v = tree_to_py(tree, int_style)
        docs.append(json.dumps(v, ensure_ascii=True))
        docs.append(json.dumps(v, ensure_ascii=False))
        docs.append(json.dumps(v, ensure_ascii=rng.random() < 0.5, separators=(",", ":")))
        docs.append(json.dumps(v, ensure_ascii=rng.random() < 0.5, indent=rng.choice([0, 1, 2, "\t"])))
        docs.append(json.dumps(v, ensure_ascii=False, separators=(" ,\r\n", "\t: ")))
    return docs


# ------------------------------------------------------------------ observations
def impl_obs(o):
    """-> flat list in the encoding of JsonNum.enc_outcome, or ['abnormal', ...]"""
    if "panic" in o or "crash" in o or "hang" in o:
        return ["abnormal", {k: o[k] for k in o if k in ("panic", "crash", "hang")}]
    if o.get("handler"):
        return [2]
    if o.get("kind") == "value":
        return [1] + enc_tree(strip_tree(o["value"]))
    err = o.get("err", {})
    return ["uncaught", err.get("class"), err.get("code")]


def text_tokens(cps):
    """token stream of a compact JSON text: strings verbatim, numbers by value, punctuation"""
    toks = []
    i, n = 0, len(cps)
    while i < n:
        c = cps[i]
        if c == 34:
            j = i + 1
            while j < n and cps[j] != 34:
                j += 2 if cps[j] == 92 else 1
            toks.append(("s", tuple(cps[i:j + 1])))
            i = j + 1
        elif c == 45 or 48 <= c <= 57:
            j = i
            while j < n and (cps[j] in (43, 45, 46, 69, 101) or 48 <= cps[j] <= 57):
                j += 1
            s = "".join(chr(x) for x in cps[i:j])
            try:
                toks.append(("n", f2bits(float(s))))
            except ValueError:
                toks.append(("n?", s))
            i = j
        else:
            toks.append(("p", c))
            i += 1
    return toks


def show_text(cps, lim=120):
    s = "".join(chr(c) if 0x20 <= c < 0x7F or (c >= 0xA0 and not 0xD800 <= c < 0xE000) else "\\x%02x" % c for c in cps)
    return s if len(s) <= lim else s[:lim] + "..."


def show_tree(t, lim=160):
    def go(t):
        k = t["t"]
        if k == "null":
            return "空"
        if k == "bool":
            return "真" if t["v"] else "假"
        if k == "num":
            return repr(bits2f(int(t["bits"], 16)))
        if k == "str":
            return "“" + show_text(t["v"], 40) + "”"
        if k == "list":
            return "【" + "，".join(go(x) for x in t["v"]) + "】"
        if k == "dict":
            return "【" + ("，".join(show_text(p[0], 20) + "=" + go(p[1]) for p in t["v"]) or "=") + "】"
        return "‹" + k + "›"
    s = go(t)
    return s if len(s) <= lim else s[:lim] + "..."


# ------------------------------------------------------------------ the run
def load_corpus():
    p = os.path.join(core.VERIF, "corpus", "C19", "cases.json")
    if os.path.exists(p):
        return json.load(open(p, encoding="utf8"))
    return []


def build_cases(chk):
    rng = chk.rng
    quick = chk.tier == "quick"
    cases = []
    # --- gen / rt on generated dictionaries
    n_gen = 80 if quick else 1500
    for i in range(n_gen):
        nonfinite = rng.random() < 0.12
        other = (not nonfinite) and rng.random() < 0.05
        d = rand_dict(rng, rng.choice([1, 2, 2, 3, 4]), nonfinite, other)
        cases.append({"kind": "gen", "value": d})
        if not has_other(d):
            cases.append({"kind": "rt", "value": d})
    # every boundary double and every special character on its own
    cases.append({"kind": "rt", "value": T_dict([("n%d" % i, T_num(f)) for i, f in enumerate(BOUNDARY_DOUBLES)])})
    cases.append({"kind": "gen", "value": T_dict([("n%d" % i, T_num(f)) for i, f in enumerate(BOUNDARY_DOUBLES)])})
    cases.append({"kind": "rt", "value": T_dict([("c", T_list([T_str([c]) for c in SPECIAL_CHARS])), ("s", T_str(SPECIAL_CHARS))])})
    cases.append({"kind": "gen", "value": T_dict([("c", T_list([T_str([c]) for c in SPECIAL_CHARS])), ("s", T_str(SPECIAL_CHARS))])})
    cases.append({"kind": "rt", "value": T_dict([([c], T_null()) for c in SPECIAL_CHARS])})
    for f in NONFINITE:
        cases.append({"kind": "gen", "value": T_dict([("a", T_num(1.0)), ("b", T_list([T_num(f)]))])})
        cases.append({"kind": "rt", "value": T_dict([("a", T_num(f))])})
    # --- parse: Python-encoded documents
    n_doc = 25 if quick else 400
    for i in range(n_doc):
        d = rand_dict(rng, rng.choice([1, 2, 3]))
        for doc in py_documents(rng, d):
            cases.append({"kind": "parse", "text": [ord(c) for c in doc], "origin": "python", "value": d})
    for p in PARSE_PROBES:
        cases.append({"kind": "parse", "text": [ord(c) for c in p], "origin": "probe"})
    # --- parse: every single-character corruption of small documents
    docs = list(SMALL_DOCS)
    for i in range(1 if quick else 12):
        d = rand_dict(rng, 1)
        doc = json.dumps(tree_to_py(d, rng.random() < 0.5), ensure_ascii=rng.random() < 0.5, separators=(",", ":"))
        if len(doc) <= 60:
            docs.append(doc)
    if quick:
        docs = rng.sample(docs[:len(SMALL_DOCS)], 2) + docs[len(SMALL_DOCS):]
    for doc in docs:
        alphabet = CORRUPT_ALPHABET if len(doc) <= 40 else CORRUPT_ALPHABET[:12]
        for how, t in single_char_corruptions(doc, alphabet):
            cases.append({"kind": "parse", "text": [ord(c) for c in t], "origin": "corrupt-" + how})
    # --- deep nesting (resource limit: beyond 150 levels only "no crash, errors are catchable" is required)
    for dep in ([50, 150, 2000] if quick else [50, 150, 2000, 9999, 10000, 200000]):
        cases.append({"kind": "parse", "text": [ord(c) for c in '{"a":' + "[" * dep + "]" * dep + "}"],
                      "origin": "deep" if dep > 150 else "probe"})
    # --- parameter validation of the two library functions (API level)
    for args in ([], [T_str("{}"), T_str("{}")], [T_num(1.0)], [T_dict([])], [T_null()]):
        cases.append({"kind": "api", "fn": "parse", "args": args})
    for args in ([], [T_dict([]), T_dict([])], [T_str("x")], [T_list([])], [T_null()]):
        cases.append({"kind": "api", "fn": "gen", "args": args})
    return cases


SIMPLE_KEYS = ["a", "b", "c", "k1", "甲", "乙", "key"]


def hist_case(rng):
    """a dictionary with simple keys, copied (令乙 = 甲); keys removed / added / overwritten through one of the two names; then 生成JSON
    of one of them: the members of THAT dictionary, in its own insertion order"""
    keys = rng.sample(SIMPLE_KEYS, rng.randrange(2, 6))
    d = [(k, rand_value(rng, 1)) for k in keys]
    sides = {"甲": list(d), "乙": list(d)}
    body = []
    for _ in range(rng.randrange(1, 5)):
        side = rng.choice(["甲", "乙"])
        cur = sides[side]
        r = rng.random()
        if r < 0.4 and cur:
            k = rng.choice(cur)[0]
            body.append("以%s（移除：“%s”）" % (side, k))
            sides[side] = [kv for kv in cur if kv[0] != k]
        elif r < 0.75:
            k = rng.choice([x for x in SIMPLE_KEYS + ["n1", "n2", "n3"] if x not in [kv[0] for kv in cur]] or ["zz"])
            n = rng.randrange(100, 200)
            body.append(rng.choice(["以%s（写入：“%s”、%d）", "%s#“%s” = %d"]) % (side, k, n))
            sides[side] = cur + [(k, T_num(float(n)))]
        elif cur:
            k = rng.choice(cur)[0]
            n = rng.randrange(200, 300)
            body.append("%s#“%s” = %d" % (side, k, n))
            sides[side] = [(kk, T_num(float(n)) if kk == k else vv) for kk, vv in cur]
    which = rng.choice(["甲", "乙"])
    return {"kind": "hist", "value": T_dict(d), "body": "\n".join(body), "which": which, "expect": T_dict(sides[which])}


def check_hist(chk, c, o):
    chk.count(["hist", c["value"], c["body"], c["which"]])
    chk.dist("hist")
    obs = impl_obs(o)
    what = "令乙 = 甲; %s; （生成JSON：%s） with 甲 = %s" % (c["body"].replace("\n", "; "), c["which"], show_tree(c["value"]))
    if abnormal(chk, c, obs, what):
        return
    if obs[0] != 1:
        chk.violation("%s did not produce a text: %s" % (what, obs[:6]), "history:no-text", dict(replay_of(c), observed=obs[:200]))
        return
    text = obs[3:]
    try:
        py = py_loads_strict("".join(chr(x) for x in text))
    except PyReject as e:
        chk.violation("%s produced text that Python's json rejects (%s): %s" % (what, e, show_text(text)), "history:invalid-text",
                      dict(replay_of(c), observed_text=text[:400]))
        return
    cls = diff_class(c["expect"], py)
    if cls:
        chk.violation("%s = %s, which a standard JSON parser reads back as %s; the dictionary holds %s (%s)" % (
            what, show_text(text), show_tree(py), show_tree(c["expect"]), cls), "history:" + cls,
            dict(replay_of(c), expected=c["expect"], observed_text=text[:400], read_back=py))


def run(chk, replay=None):
    if replay is not None and replay["case"].get("kind") == "hist":
        c = replay["case"]
        check_hist(chk, c, core.harness(HARNESS, "hist", [{"value": c["value"], "body": c["body"], "which": c["which"]}], timeout_ms=20000)[0])
        return
    if replay is None:
        hs = [hist_case(chk.rng) for _ in range(40 if chk.tier == "quick" else 500)]
        for c, o in zip(hs, core.harness(HARNESS, "hist", [{"value": c["value"], "body": c["body"], "which": c["which"]} for c in hs], timeout_ms=20000)):
            check_hist(chk, c, o)
    if replay is not None:
        cases = [replay["case"]]
    else:
        cases = load_corpus() + build_cases(chk)
    by_kind = {}
    for i, c in enumerate(cases):
        by_kind.setdefault(c["kind"], []).append(i)

    impl = {}
    model = {}
    import time
    t0 = time.time()

    def lap(what):
        if os.environ.get("C19_TIMING"):
            print("  [c19 timing] %s: %.1fs" % (what, time.time() - t0))
    # ---- implementation
    for kind, cmd in (("gen", "gen"), ("rt", "rt"), ("parse", "parse"), ("api", "api")):
        idx = by_kind.get(kind, [])
        if not idx:
            continue
        if kind in ("gen", "rt"):
            payload = [{"value": cases[i]["value"]} for i in idx]
        elif kind == "parse":
            payload = [{"text": cases[i]["text"]} for i in idx]
        else:
            payload = [{"fn": cases[i]["fn"], "args": cases[i]["args"]} for i in idx]
        outs = core.harness(HARNESS, cmd, payload, timeout_ms=20000)
        for i, o in zip(idx, outs):
            impl[i] = o
    lap("implementation")
    # ---- model, inside Coq
    def shard_for(n):
        return min(160, max(40, -(-n // 8)))      # larger case files overflow coqc's stack

    vidx = by_kind.get("gen", []) + by_kind.get("rt", [])
    if vidx:
        res = core.coq_run_cases("c19v", IMPORTS, "run_gen_rt", [elem_term(cases[i]["value"]) for i in vidx],
                                 ty="list (list Z)", shard=shard_for(len(vidx)))
        for i, v in zip(vidx, res):
            model[i] = v[0] if cases[i]["kind"] == "gen" else v[1]
    lap("model gen+rt (%d)" % len(vidx))
    idx = by_kind.get("api", [])
    if idx:
        terms = ["(%s, %s)" % (core.coq_bool(cases[i]["fn"] == "parse"),
                               ("[" + ";".join(elem_term(a) for a in cases[i]["args"]) + "]") if cases[i]["args"] else "@nil elem")
                 for i in idx]
        res = core.coq_run_cases("c19a", IMPORTS,
                                 "fun x : bool * list elem => enc_outcome (if fst x then parse_json (snd x) else generate_json (snd x))",
                                 terms, ty="list Z", shard=100)
        for i, v in zip(idx, res):
            model[i] = v
    # documents, and the implementation's 生成JSON texts read by the model
    pidx = by_kind.get("parse", [])
    gen_idx = [i for i in by_kind.get("gen", []) if impl[i].get("kind") == "value" and not impl[i].get("handler")
               and impl[i]["value"].get("t") == "str"]
    model_reads = {}
    # the deep-nesting probes are judged for "no crash" only (check_parse): their texts (up to 400 000 characters) are not
    # handed to the model — coqc cannot even read such a term
    deep = [i for i in pidx if cases[i].get("origin") == "deep"]
    pidx_m = [i for i in pidx if cases[i].get("origin") != "deep"]
    for i in deep:
        model[i] = [2]
    texts = [cases[i]["text"] for i in pidx_m] + [impl[i]["value"]["v"] for i in gen_idx]
    if texts:
        res = core.coq_run_cases("c19p", IMPORTS, "run_parse", [core.zlist(t) for t in texts], shard=shard_for(len(texts)))
        for i, v in zip(pidx_m, res[:len(pidx_m)]):
            model[i] = v
        pidx = pidx_m
        for i, v in zip(gen_idx, res[len(pidx):]):
            model_reads[i] = v
    lap("model parse (%d)" % len(texts))
    # ---- comparison
    for i, c in enumerate(cases):
        kind = c["kind"]
        o = impl[i]
        obs = impl_obs(o)
        exp = model[i]
        if kind == "gen":
            check_gen(chk, c, o, obs, exp, model_reads.get(i))
        elif kind == "rt":
            check_rt(chk, c, o, obs, exp)
        elif kind == "parse":
            check_parse(chk, c, o, obs, exp)
        else:
            check_api(chk, c, o, exp)
    chk.coverage["rule"] = (
        "seeded generators: nested dictionaries/lists (depth <= 4, distinct keys incl. empty and non-ASCII, texts over "
        "ASCII/controls/quotes/backslashes/HTML characters/U+2028/CJK/astral/U+FFFD, doubles from a boundary list, integers, "
        "decimals and random finite bit patterns, booleans, 空; 12% with a non-finite number, 5% with a function value); "
        "documents = each dictionary spelled by Python json.dumps in 10 ways (ensure_ascii on/off, separators, indent, ints vs "
        "floats) + a fixed probe list + EVERY single-character deletion/replacement/insertion (22-character alphabet) of small "
        "documents + deep nesting; distinct = distinct (kind, input); non-trivial = everything except the empty text")


def replay_of(c):
    return {"kind": c["kind"], "case": {k: v for k, v in c.items() if k != "origin_value"},
            "replay_cmd": "./check C19 --replay <this file>"}


def abnormal(chk, c, obs, what_input):
    if obs[0] == "abnormal":
        chk.violation("host-level failure (panic/crash/hang) on %s: %s" % (what_input, json.dumps(obs[1])[:160]),
                      c["kind"] + ":crash", dict(replay_of(c), observed=obs))
        return True
    if obs[0] == "uncaught":
        chk.violation("error was not a catchable exception (拦截异常 handler did not run) on %s: class=%s code=%s"
                      % (what_input, obs[1], obs[2]), c["kind"] + ":uncatchable", dict(replay_of(c), observed=obs))
        return True
    return False


def check_gen(chk, c, o, obs, exp, model_read):
    d = c["value"]
    chk.count(["gen", d])
    chk.dist("gen:" + ("nonfinite" if not representable(d) and not has_other(d) else ("with-function" if has_other(d) else "representable")))
    what = "（生成JSON：%s）" % show_tree(d)
    if abnormal(chk, c, obs, what):
        return
    if len(chk.coverage["samples"]) < 3 and obs[0] == 1 and len(obs) < 120:
        chk.sample({"kind": "gen", "input": show_tree(d), "text": show_text(obs[3:])})
    if exp == [2]:
        if obs != [2]:
            chk.violation("%s: a value JSON cannot represent did not raise a catchable exception; got %s" % (what, show_text(obs[3:]) if obs[0] == 1 else obs),
                          "generate:nonfinite-accepted", dict(replay_of(c), expected="exception", observed=obs[:200]))
        return
    if obs == [2]:
        chk.violation("%s raised an exception for a JSON-representable dictionary" % what, "generate:reject-valid",
                      dict(replay_of(c), expected=exp[:200], observed=obs))
        return
    text = obs[3:]
    if has_other(d):
        return    # what a function/object value becomes is not fixed by the property: not judged beyond "no crash"
    # (a) independent reader
    try:
        py = py_loads_strict("".join(chr(x) for x in text))
    except PyReject as e:
        chk.violation("%s produced text that Python's json rejects (%s): %s" % (what, e, show_text(text)), "generate:invalid-text",
                      dict(replay_of(c), observed_text=text[:400]))
        return
    cls = diff_class(d, py)
    if cls:
        chk.violation("%s = %s, which a standard JSON parser reads back as %s (%s)" % (what, show_text(text), show_tree(py), cls),
                      "generate:" + cls, dict(replay_of(c), expected=d, observed_text=text[:400], read_back=py))
        return
    # (b) the model reads the implementation's text (grammar + same structure)
    if model_read is not None and model_read != [1] + enc_tree(d):
        chk.violation("%s = %s is not read back as the same structure by the RFC 8259 model parser" % (what, show_text(text)),
                      "generate:model-read", dict(replay_of(c), observed_text=text[:400], model_read=model_read[:200]))
        return
    # (c) same text as the model's rendering, modulo number spelling
    if exp[0] == 1 and text_tokens(exp[3:]) != text_tokens(text):
        chk.violation("%s = %s differs from the model's rendering %s (beyond number spelling)" % (what, show_text(text), show_text(exp[3:])),
                      "generate:spelling", dict(replay_of(c), observed_text=text[:400], model_text=exp[3:403]), no_input=False)


def check_rt(chk, c, o, obs, exp):
    d = c["value"]
    chk.count(["rt", d])
    chk.dist("rt:" + ("nonfinite" if not representable(d) else "representable"))
    what = "（解析JSON：（生成JSON：%s））" % show_tree(d)
    if abnormal(chk, c, obs, what):
        return
    if not representable(d):
        if obs != [2] or exp != [2]:
            chk.violation("%s: expected a catchable exception, got %s" % (what, obs[:40]), "generate:nonfinite-accepted",
                          dict(replay_of(c), expected=exp[:100], observed=obs[:100]))
        return
    want = [1] + enc_tree(d)
    if exp != want:
        chk.violation("model round trip differs from the identity on %s" % show_tree(d), "model-roundtrip",
                      dict(replay_of(c), model=exp[:200]), no_input=True)
        return
    if obs != want:
        got = dec_flat(obs, 1)[0] if obs[0] == 1 else None
        cls = diff_class(d, got) if got else "exception"
        chk.violation("%s yields %s (%s)" % (what, show_tree(got) if got else "an exception", cls), "roundtrip:" + cls,
                      dict(replay_of(c), expected=d, observed=got))
        return
    eq = o.get("eq", {})
    eqv = eq.get("value", {})
    if eq.get("handler") or eq.get("kind") != "value" or eqv.get("t") != "bool" or eqv.get("v") is not True:
        chk.violation("%s 为 d is not 真: %s" % (what, json.dumps(eq, ensure_ascii=False)[:120]), "roundtrip:not-equal",
                      dict(replay_of(c), observed=eq))


def check_parse(chk, c, o, obs, exp):
    text = c["text"]
    chk.count(["parse", text], nontrivial=len(text) > 0)
    chk.dist("parse:" + c.get("origin", "?"))
    chk.dist("parse-expect:" + ("exception" if exp == [2] else "value"))
    what = "（解析JSON：“%s”）" % show_text(text, 100)
    if abnormal(chk, c, obs, what):
        return
    if c.get("origin") == "deep":
        return    # abnormal outcomes were reported above; the value cannot be dumped beyond 200 levels: not judged
    # oracle cross-check: Python (strict settings) vs the proved model
    s = "".join(chr(x) for x in text)
    py = None
    try:
        py = py_loads_strict(s)
        if py["t"] == "null":
            py = T_dict([])          # encoding/json: null stores nothing into the map (not judged, mirrored)
        pyobs = [1] + enc_tree(py) if py["t"] == "dict" else [2]
    except PyReject:
        pyobs = [2]
    judged_by_python = not (py is not None and has_lone_surrogate_escape(py))
    if judged_by_python and pyobs != exp:
        chk.violation("Coq model and Python's json disagree on %s: model=%s python=%s" % (show_text(text, 80), str(exp)[:60], str(pyobs)[:60]),
                      "oracle-disagree", {"kind": "oracle", "case": c, "coq": exp[:200], "python": pyobs[:200]}, no_input=True)
        return
    if "value" in c and exp != [1] + enc_tree(c["value"]):
        chk.violation("model does not read Python's spelling of %s back as the same value" % show_tree(c["value"]), "oracle-disagree",
                      {"kind": "oracle", "case": c, "coq": exp[:200]}, no_input=True)
        return
    if len(chk.coverage["samples"]) < 6 and 0 < len(text) < 60 and c.get("origin", "").startswith("corrupt"):
        chk.sample({"kind": "parse", "text": show_text(text), "expected": "exception" if exp == [2] else "value"})
    if obs == exp:
        return
    if exp == [2]:
        got = dec_flat(obs, 1)[0]
        chk.violation("%s: malformed JSON was accepted and gave %s" % (what, show_tree(got)), "parse:accept-malformed",
                      dict(replay_of(c), expected="exception", observed=got))
    elif obs == [2]:
        chk.violation("%s: valid JSON object was rejected" % what, "parse:reject-valid", dict(replay_of(c), expected=exp[:200], observed="exception"))
    else:
        want = dec_flat(exp, 1)[0]
        got = dec_flat(obs, 1)[0]
        cls = diff_class(want, got)
        chk.violation("%s yields %s, expected %s (%s)" % (what, show_tree(got), show_tree(want), cls), "parse:" + cls,
                      dict(replay_of(c), expected=want, observed=got))


def check_api(chk, c, o, exp):
    chk.count(["api", c["fn"], c["args"]])
    chk.dist("api:" + c["fn"])
    if "panic" in o or "crash" in o or "hang" in o:
        chk.violation("FN_%sJson%s panicked: %s" % (c["fn"], json.dumps(c["args"])[:80], json.dumps(o)[:120]), "api:crash",
                      dict(replay_of(c), observed=o))
        return
    if o.get("kind") == "value":
        obs = [1] + enc_tree(strip_tree(o["value"]))
    else:
        cls = o.get("err", {}).get("class")
        obs = [2] if (cls == "signal" and o["err"].get("code") == 4) else ([3] if cls == "runtime" else ["other", cls])
    if exp[0] == 1 and obs[0] == 1:
        if c["fn"] == "gen" and text_tokens(exp[3:]) == text_tokens(obs[3:]):
            return
        if obs == exp:
            return
    elif obs == exp:
        return
    chk.violation("FN_%sJson on %d argument(s) %s: expected outcome %s, observed %s" % (c["fn"], len(c["args"]), json.dumps(c["args"])[:80], exp[:20], obs[:20]),
                  "api:outcome", dict(replay_of(c), expected=exp[:100], observed=obs[:100]))
