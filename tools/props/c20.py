# C20 — The prefork master keeps the worker pool within its bounds.
# Tie: trace validation. Event traces are random walks over the ENABLED events of the model (a Python mirror of
# coq/model/PM.v, itself compared with the Coq evaluation on every trace); each trace is (1) evaluated in Coq
# (PM.observe, vm_compute) and (2) replayed as a schedule against the REAL StartMaster / maintainChildState /
# readNamedPipe goroutines (process spawning replaced by the verif hook); after every event the loop handled, its own
# refCount / childs snapshot and the spawn batches it launched must equal the model's.
import json
import os
from concurrent.futures import ThreadPoolExecutor
from vlib import core

HARNESS = "c20"
INC = 10   # the constant batch increment in pm_server.go

TB = ("Coq 8.16.1 kernel and vm_compute; hand-written Gallina model (coq/model/PM.v) tied to /repo by per-run trace validation "
      "(real StartMaster/maintainChildState/readNamedPipe driven in-process through the build-tag `verif` hooks of "
      "fixes/C20-hook.patch; process creation replaced by a scripted fake, pipe frames written to the real FIFO); "
      "Python mirror of the model used only to generate enabled-event walks and cross-checked against Coq on every trace; ")
CLAIM = dict(
    text=("Theorems (coq/props/C20.v, closed under the global context) about an event-level model of the prefork master and "
          "worker loops, for ALL configurations 0 <= init <= max and ALL batch increments, over ALL valid event traces "
          "(spawn starts, registrations, FIFO state reports incl. stray frames, exits, accepts, completions, timeouts, crashes in "
          "any order the code's synchronisation allows): live workers never exceed max (accounting invariant refCount = |childs| + "
          "reserved, live <= refCount <= max); a quiescent system has at least init live workers; a timed-out worker disappears, "
          "other workers' requests are untouched and the pool is topped up; every request is accepted once, answered at most once "
          "and only by its acceptor, each worker serves one request at a time; exit notices follow registrations. The pinned code "
          "is refuted by an explicit trace (C20_overshoot_refuted: init 1, max 4, six live workers) that is replayed on the real loop. "
          "PARTIAL: the model is tied to the real master loop (StartMaster, maintainChildState, readNamedPipe) by trace validation on "
          "every run, and four real-process scenarios (burst, timeout of the last worker, timeout beside a request in flight, "
          "SIGKILL) check max/init, one-answer-per-request, no overlapping requests per worker and master survival at OS level; "
          "the remaining OS facts are assumptions."),
    note=TB + ("ASSUMPTIONS (not exercised): which process accept()s a connection and that a connection is delivered to exactly one "
               "accept; signal delivery; cmd.Start never fails; a process is reported on delChan only after its registration was "
               "received (spawnProcess :210-220, by reading); pipe frames are written atomically and read in order; real time "
               "(--timeout is an event, not a duration); the worker loop (StartWorker) is modelled, not executed."),
    technique="Coq proof (invariant by induction over event traces) + model/implementation trace validation by vm_compute",
    design="5/C20")

IMPORTS = "From Coq Require Import List ZArith Bool. Import ListNotations.\nFrom Zn.model Require Import PM."
RUN = "fun c => match c with (pinned, ci, cm, tr) => observe pinned ci cm %d tr end" % INC


# ------------------------------------------------------------------ Python mirror of PM.v
class Sim:
    def __init__(self, init, mx, pinned=False, inc=INC):
        self.init, self.max, self.inc, self.pinned = init, mx, inc, pinned
        self.childs = []            # [[pid, st]]
        self.ref = 0 if pinned else init
        self.batches = []           # [[rem, fly or None]]
        self.new_batch(init)
        self.running = []           # [[pid, None | r]]
        self.exited = []
        self.npid = 1
        self.pipe = []
        self.nreq = 0

    def new_batch(self, n):
        if n > 0:
            self.batches.append([n, None])

    def keys(self):
        return [c[0] for c in self.childs]

    def aset(self, l, k, v):
        for e in l:
            if e[0] == k:
                e[1] = v
                return
        l.append([k, v])

    def rget(self, p):
        for e in self.running:
            if e[0] == p:
                return e
        return None

    def enabled(self):
        ev = []
        for i, (rem, fly) in enumerate(self.batches):
            if fly is None and rem > 0:
                ev.append(("SpawnOne", i))
            if fly is not None:
                ev.append(("MasterAdd", i))
        if self.pipe:
            ev.append(("MasterUpdate",))
        for p in self.exited:
            if p in self.keys():
                ev.append(("MasterDel", p))
        for p, w in self.running:
            if w is None:
                ev.append(("WAccept", p))
            else:
                ev.append(("WFinish", p))
                ev.append(("WTimeout", p))
            ev.append(("WCrash", p))
        return ev

    def step(self, e):
        k = e[0]
        if k == "SpawnOne":
            b = e[1]
            if b >= len(self.batches) or self.batches[b][1] is not None or self.batches[b][0] == 0:
                return False
            self.batches[b] = [self.batches[b][0] - 1, self.npid]
            self.running.append([self.npid, None])
            self.npid += 1
        elif k == "MasterAdd":
            b = e[1]
            if b >= len(self.batches) or self.batches[b][1] is None:
                return False
            p = self.batches[b][1]
            self.batches[b] = [self.batches[b][0], None]
            self.aset(self.childs, p, 1)
            if self.pinned:
                self.ref = len(self.childs)
        elif k == "MasterUpdate":
            if not self.pipe:
                return False
            p, stv = self.pipe.pop(0)
            if p in self.keys():
                self.aset(self.childs, p, stv)
            if not any(c[1] == 1 for c in self.childs):
                cur = self.ref
                fin = self.max if self.max < cur + self.inc else cur + self.inc
                self.ref = fin
                self.new_batch(fin - cur)
        elif k == "MasterDel":
            p = e[1]
            if p not in self.exited or p not in self.keys():
                return False
            self.childs = [c for c in self.childs if c[0] != p]
            self.exited = [q for q in self.exited if q != p]
            rc1 = self.ref - 1
            if rc1 < self.init:
                self.ref = self.init
                self.new_batch(self.init - rc1)
            else:
                self.ref = rc1
        elif k == "WAccept":
            w = self.rget(e[1])
            if w is None or w[1] is not None:
                return False
            w[1] = self.nreq
            self.nreq += 1
            self.pipe.append((e[1], 2))
        elif k == "WFinish":
            w = self.rget(e[1])
            if w is None or w[1] is None:
                return False
            w[1] = None
            self.pipe.append((e[1], 1))
        elif k == "WTimeout":
            w = self.rget(e[1])
            if w is None or w[1] is None:
                return False
            self.running = [x for x in self.running if x[0] != e[1]]
            self.exited.append(e[1])
            self.pipe.append((e[1], 4))
        elif k == "WCrash":
            w = self.rget(e[1])
            if w is None:
                return False
            self.running = [x for x in self.running if x[0] != e[1]]
            self.exited.append(e[1])
        elif k == "Stray":
            self.pipe.append((e[1], e[2]))
        else:
            return False
        return True

    def reserved(self):
        return sum(r + (1 if f is not None else 0) for r, f in self.batches)

    def obs(self, nb_before):
        o = [self.ref, len(self.childs), len(self.batches) - nb_before, len(self.running), self.reserved()]
        for p, st in self.childs:
            o += [p, st]
        return o


def ev_term(e):
    if e[0] == "MasterUpdate":
        return "MasterUpdate"
    if e[0] == "Stray":
        return "Stray %d %d" % (e[1], e[2])
    return "%s %d" % (e[0], e[1])


def case_term(case):
    return "(%s, %d, %d, [%s])" % (core.coq_bool(case.get("pinned", False)), case["init"], case["max"],
                                   "; ".join(ev_term(e) for e in case["events"]))


# ------------------------------------------------------------------ generation: random walks over enabled events
PROFILES = ["mixed", "race", "faults", "slowstart", "steady"]


def gen_trace(rng, init, mx, profile, nsteps):
    sim = Sim(init, mx)
    events = []
    for _ in range(nsteps):
        en = sim.enabled()
        if rng.random() < (0.06 if profile != "faults" else 0.12):
            en.append(("Stray", rng.randrange(0, sim.npid + 2), rng.choice([1, 2, 4, 4, 0, 3, 255, rng.randrange(256)])))
        if not en:
            break
        w = []
        for e in en:
            k = e[0]
            x = 1.0
            if profile == "race":          # reports overtake registrations, batches stay in flight
                x = {"SpawnOne": 1.5, "MasterAdd": 0.7, "MasterUpdate": 4.0, "WAccept": 4.0, "WFinish": 0.7,
                     "WTimeout": 0.3, "WCrash": 0.2, "MasterDel": 1.0}.get(k, 1.0)
            elif profile == "faults":      # crashes, hung requests
                x = {"WTimeout": 2.5, "WCrash": 2.0, "MasterDel": 2.0, "WAccept": 3.0, "MasterUpdate": 2.0}.get(k, 1.0)
            elif profile == "slowstart":   # processes start and register late, die before registration
                x = {"SpawnOne": 0.5, "MasterAdd": 0.3, "WAccept": 3.0, "MasterUpdate": 3.0, "WCrash": 1.0}.get(k, 1.0)
            elif profile == "steady":      # prompt master, many requests
                x = {"SpawnOne": 6.0, "MasterAdd": 6.0, "MasterUpdate": 5.0, "MasterDel": 5.0, "WAccept": 2.0,
                     "WFinish": 2.0, "WTimeout": 0.3, "WCrash": 0.1}.get(k, 1.0)
            else:
                x = {"WCrash": 0.4, "WTimeout": 0.7}.get(k, 1.0)
            w.append(x)
        e = rng.choices(en, weights=w)[0]
        assert sim.step(e)
        events.append(list(e))
    if rng.random() < 0.5:
        # drive to quiescence: only deliveries, starts and registrations
        for _ in range(400):
            en = [e for e in sim.enabled() if e[0] in ("SpawnOne", "MasterAdd", "MasterDel")]
            if not en and not sim.exited and sim.reserved() == 0:
                break
            if not en:
                break
            e = en[0] if rng.random() < 0.7 else rng.choice(en)
            assert sim.step(e)
            events.append(list(e))
    return events


def rand_cfg(rng):
    r = rng.random()
    if r < 0.6:
        mx = rng.randrange(1, 5)
        init = rng.randrange(0, mx + 1)
    elif r < 0.85:
        mx = rng.randrange(4, 9)
        init = rng.randrange(0, min(mx, 4) + 1)
    else:
        mx = rng.choice([11, 12, 15, 23, 30])     # exercises the +10 branch (refCount+10 < max)
        init = rng.randrange(0, 3)
    return init, mx


# ------------------------------------------------------------------ from a trace to a harness script
def script_of(case, freerun=False):
    """harness steps for the longest prefix of the trace that is valid in the (repaired) model; expectations from the mirror"""
    sim = Sim(case["init"], case["max"])
    steps = []
    idx = []    # index of the event each step belongs to
    n_valid = 0
    via_pipe = case.get("via", "pipe")
    for k, e in enumerate(case["events"]):
        e = tuple(e)
        nb = len(sim.batches)
        head = sim.pipe[0] if sim.pipe else None
        if not sim.step(e):
            break
        n_valid += 1
        st = None
        if e[0] == "SpawnOne":
            st = {"ev": "spawn", "b": e[1]}
        elif e[0] == "MasterAdd":
            st = {"ev": "add", "b": e[1]}
        elif e[0] == "MasterUpdate":
            st = {"ev": "update", "pid": head[0], "st": head[1], "via": via_pipe}
        elif e[0] == "MasterDel":
            st = {"ev": "del", "pid": e[1]}
        elif e[0] in ("WTimeout", "WCrash"):
            st = {"ev": "exit", "pid": e[1]}
        if st is None:
            continue
        if st["ev"] in ("add", "update", "del"):
            st["expect"] = {"ref": sim.ref, "n": len(sim.childs)}
            if len(sim.batches) > nb:
                st["newbatch"] = True
        steps.append(st)
        idx.append(k)
    return {"init": case["init"], "max": case["max"], "steps": steps, "freerun": bool(freerun),
            "grace_ms": case.get("grace_ms", 3), "timeout_ms": 60000}, idx, n_valid


def load_corpus():
    p = os.path.join(core.VERIF, "corpus", "C20", "cases.json")
    if os.path.exists(p):
        return json.load(open(p))
    return []


def run_harness_parallel(scripts, jobs=10, chunk=20):
    chunks = [scripts[i:i + chunk] for i in range(0, len(scripts), chunk)]
    outs = []
    with ThreadPoolExecutor(max_workers=jobs) as ex:
        for res in ex.map(lambda ch: core.harness(HARNESS, "script", ch, timeout_ms=60000, batch_timeout=900), chunks):
            outs.extend(res)
    return outs


def sorted_childs(flat):
    ps = [(flat[i], flat[i + 1]) for i in range(0, len(flat), 2)]
    return sorted(ps)


def run(chk, replay=None):
    rng = chk.rng
    quick = chk.tier == "quick"
    N = 220 if quick else 2000
    if replay is not None and replay.get("kind") == "real":
        global REAL
        REAL = [replay["scenario"]]
        run_real(chk)
        cleanup_fifos(chk.t0)
        return
    real_pool = ThreadPoolExecutor(max_workers=1)
    real_future = real_pool.submit(run_real, chk) if replay is None else None
    cases = []
    for c in load_corpus():
        c = dict(c)
        c["corpus"] = True
        cases.append(c)
    if replay is not None:
        cases = [dict(replay["case"])]
        N = 0
    for i in range(N):
        init, mx = rand_cfg(rng)
        prof = rng.choice(PROFILES)
        n = rng.choice([6, 10, 16, 24, 40]) if mx < 10 else rng.choice([10, 30, 60])
        ev = gen_trace(rng, init, mx, prof, n)
        cases.append({"init": init, "max": mx, "events": ev, "profile": prof,
                      "via": "chan" if rng.random() < 0.15 else "pipe"})

    # --- model, in Coq (repaired step function) and its Python mirror
    terms = [case_term(dict(c, pinned=False)) for c in cases]
    coq = core.coq_run_cases("c20", IMPORTS, RUN, terms, shard=60)
    scripts = []
    meta = []
    for c in cases:
        sc, idx, nvalid = script_of(c, freerun=c.get("corpus", False) or (replay is not None))
        scripts.append(sc)
        meta.append((idx, nvalid))
    outs = run_harness_parallel(scripts)

    for ci, c in enumerate(cases):
        idx, nvalid = meta[ci]
        o = outs[ci]
        cobs = coq[ci]          # [initial] + one entry per event (or [-1] at the first invalid event)
        # mirror vs Coq (the generator's notion of "enabled" is the model's)
        sim = Sim(c["init"], c["max"])
        mobs = [sim.obs(0)]
        for e in c["events"]:
            nb = len(sim.batches)
            if not sim.step(tuple(e)):
                mobs.append([-1])
                break
            mobs.append(sim.obs(nb))
        if mobs != cobs:
            chk.violation("generator mirror and Coq model disagree on a trace (tie machinery broken)", "tie-mirror",
                          {"kind": "tie", "case": c, "coq": cobs[:40], "mirror": mobs[:40]}, no_input=True)
            continue
        chk.count([c["init"], c["max"], c["events"]], nontrivial=len(idx) > 0)
        chk.dist("profile:" + c.get("profile", "corpus"))
        chk.dist("config:init=%d,max=%s" % (c["init"], c["max"] if c["max"] < 10 else ">=10"))
        for e in c["events"][:nvalid]:
            chk.dist("event:" + e[0])
        if ci % 53 == 0:
            chk.sample({"init": c["init"], "max": c["max"], "events": [ev_term(tuple(e)) for e in c["events"][:12]],
                        "model_final": cobs[min(nvalid, len(cobs) - 1)][:5]})
        if "crash" in o or "hang" in o or "panic" in o or "fatal" in o:
            chk.violation("the master loop crashed / hung / did not start under a scripted schedule: %s" % json.dumps(o)[:200],
                          "loop-abnormal", {"kind": "trace", "case": strip(c), "observed": o})
            continue
        problems = []
        # initial state of the loop (StartMaster's reservation)
        ini = o.get("initial", {})
        if [ini.get("ref"), len(ini.get("childs", []))] != cobs[0][:2]:
            problems.append("initial refCount %s, model %s" % (ini.get("ref"), cobs[0][0]))
        want_init_batches = cobs[0][2]
        got_init_batches = sum(1 for a in o.get("initial_arrivals", []) if a.get("new"))
        if want_init_batches != got_init_batches:
            problems.append("initial spawn batches %d, model %d" % (got_init_batches, want_init_batches))
        hobs = o.get("obs", [])
        for j, ho in enumerate(hobs):
            k = idx[j]
            mo = cobs[k + 1]
            if ho["ev"] in ("add", "update", "del") and "ref" in ho:
                got = [ho["ref"], len(ho["childs"]), ho["newbatches"], sorted(tuple(x) for x in ho["childs"])]
                exp = [mo[0], mo[1], mo[2], sorted_childs(mo[5:])]
                if got != exp:
                    problems.append("after event %d (%s): loop has refCount=%s |childs|=%s new batches=%s childs=%s; model refCount=%s |childs|=%s new batches=%s childs=%s"
                                    % (k, ev_term(tuple(c["events"][k])), got[0], got[1], got[2], got[3], exp[0], exp[1], exp[2], exp[3]))
                    break
            if "live" in ho and ho["live"] != mo[3] and ho["ev"] in ("spawn", "exit"):
                problems.append("after event %d live processes %s, model %s" % (k, ho["live"], mo[3]))
                break
        if o.get("diverged_at", -1) >= 0:
            problems.append("schedule not executable on the real loop at step %d: %s" % (o["diverged_at"], o.get("why")))
        elif len(hobs) != len(idx):
            problems.append("harness executed %d of %d steps" % (len(hobs), len(idx)))
        if o.get("pending_calls", 0) > 0 and not problems:
            # spawn calls the model does not know of (after the last step the model's pending spawns are known)
            sim2 = Sim(c["init"], c["max"])
            for e in c["events"][:nvalid]:
                sim2.step(tuple(e))
            model_pending = sum(1 for r, f in sim2.batches if f is None and r > 0)
            if o["pending_calls"] > model_pending:
                problems.append("%d spawn calls are waiting, the model has %d batches with spawns left" % (o["pending_calls"], model_pending))
        fr = o.get("freerun")
        spec = None
        if fr is not None and fr.get("max_live", 0) > c["max"]:
            spec = "live worker processes reach %d with --max-procs %d (init %d) when every requested process is started" % (
                fr["max_live"], c["max"], c["init"])
        elif o.get("max_live", 0) > c["max"]:
            spec = "live worker processes reach %d with --max-procs %d" % (o["max_live"], c["max"])
        if spec:
            chk.violation(spec + "; trace: " + " ".join(ev_term(tuple(e)) for e in c["events"][:nvalid])[:160],
                          "pool:live>max", {"kind": "trace", "case": strip(c), "observed": o, "problems": problems,
                                            "model": cobs[:nvalid + 1], "replay_cmd": "./check C20 --replay <this file>"})
        elif problems:
            sig = "pool:bookkeeping"
            if any("new batches" in p or "spawn" in p or "not executable" in p or "initial spawn" in p for p in problems):
                sig = "pool:spawns"
            chk.violation("the master's pool bookkeeping departs from the proved model: " + problems[0][:400],
                          sig, {"kind": "trace", "case": strip(c), "observed": o, "problems": problems,
                                "model": cobs[:nvalid + 1], "replay_cmd": "./check C20 --replay <this file>"})
    if real_future is not None:
        real_future.result()
    cleanup_fifos(chk.t0)
    chk.assumptions = [
        "OS: a connection is delivered to exactly one accept(); which worker accepts is arbitrary",
        "OS: a process exit is reported on delChan only after spawnProcess sent its registration (pm_server.go:210-220, by reading)",
        "OS: pipe frames (5 bytes) are written atomically and read in FIFO order; cmd.Start does not fail; signals not modelled",
        "time: --timeout is an event (WTimeout), real durations are not modelled; StartWorker is modelled, not executed",
        "process creation is replaced by the verif hook (fake pids); refCount/childs are observed at the loop's own select point",
    ]
    chk.coverage["rule"] = ("random walks over the ENABLED events of the model (profiles mixed/race/faults/slowstart/steady; stray pipe "
                            "frames; half of the traces driven to quiescence), configurations init<=max<=8 and max in {11..30} for the "
                            "+10 branch; every trace evaluated in Coq and replayed on the real loop; distinct = distinct (config, trace); "
                            "non-trivial = at least one master event")


# ------------------------------------------------------------------ real processes (OS-level smoke scenarios)
REAL = [
    {"name": "burst", "init": 2, "max": 3, "timeout": 3,
     "ops": [{"op": "req", "sleep": 300, "n": 7}, {"op": "join"}, {"op": "settle", "ms": 8000},
             # workers that sat idle for longer than --timeout serve a request that is well within it
             {"op": "wait", "ms": 3600}, {"op": "req", "sleep": 400, "n": 2}, {"op": "join"}],
     "all_ok": True},
    {"name": "timeout-last-worker", "init": 1, "max": 1, "timeout": 1,
     "ops": [{"op": "req", "sleep": 3000, "n": 1}, {"op": "join"}, {"op": "settle", "ms": 8000},
             # the replacement worker sits idle for longer than --timeout, then serves a request well within it
             {"op": "wait", "ms": 1600}, {"op": "req", "sleep": 350, "n": 1}, {"op": "join"}],
     "ok_tokens": ["t2"], "lost_tokens": ["t1"]},
    {"name": "timeout-others-undisturbed", "init": 2, "max": 2, "timeout": 1,
     "ops": [{"op": "req", "sleep": 4000, "n": 1}, {"op": "wait", "ms": 700}, {"op": "req", "sleep": 450, "n": 1},
             {"op": "join"}, {"op": "settle", "ms": 8000}, {"op": "req", "sleep": 10, "n": 2}, {"op": "join"}],
     "ok_tokens": ["t2", "t3", "t4"], "lost_tokens": ["t1"]},
    {"name": "clean-exit-replaced", "init": 2, "max": 3, "timeout": 5,
     "ops": [{"op": "hangup"}, {"op": "wait", "ms": 600}, {"op": "hangup"}, {"op": "wait", "ms": 600}, {"op": "hangup"}, {"op": "wait", "ms": 600},
             {"op": "settle", "ms": 8000}, {"op": "req", "sleep": 10, "n": 2}, {"op": "join"}],
     "all_ok": True},
    {"name": "crash-replaced", "init": 2, "max": 3, "timeout": 5,
     "ops": [{"op": "kill"}, {"op": "wait", "ms": 300}, {"op": "settle", "ms": 8000}, {"op": "req", "sleep": 10, "n": 2}, {"op": "join"}],
     "all_ok": True},
]


def run_real(chk):
    scen = [dict(s, timeout_ms=90000) for s in REAL]
    with ThreadPoolExecutor(max_workers=len(scen)) as ex:
        outs = list(ex.map(lambda sc: core.harness(HARNESS, "real", [{k: v for k, v in sc.items() if k in ("init", "max", "timeout", "ops", "timeout_ms")}],
                                                   timeout_ms=90000, batch_timeout=200)[0], scen))
    for sc, o in zip(scen, outs):
        chk.count(["real", sc["name"]])
        chk.dist("real:" + sc["name"])
        bad = []
        if "fatal" in o or "crash" in o or "hang" in o or "panic" in o:
            chk.violation("real-process scenario could not run: %s" % json.dumps(o)[:200], "real:harness",
                          {"kind": "real", "scenario": sc, "observed": o}, no_input=True)
            continue
        if o.get("max_seen", 0) > sc["max"]:
            bad.append(("real:live>max", "%d live worker processes observed with --max-procs %d" % (o["max_seen"], sc["max"])))
        if not o.get("master_alive") or any(not st.get("master_alive") for st in o.get("steps", [])):
            bad.append(("real:master-died", "the master process died (%s)" % o.get("master_stderr", "").split("|")[-1].strip()[20:]))
        for st in o.get("steps", []):
            if st.get("settled", 0) < sc["init"]:
                bad.append(("real:not-replaced", "only %d live workers after the system went quiet, --init-procs %d" % (st.get("settled", 0), sc["init"])))
        by_tok = {}
        for r in o.get("resps", []):
            by_tok.setdefault(r["token"], []).append(r)
        spans = {}
        for t, rs in by_tok.items():
            r = rs[0]
            want_ok = sc.get("all_ok") or t in sc.get("ok_tokens", [])
            if len(rs) != 1:
                bad.append(("real:request-duplicated", "request %s has %d outcomes" % (t, len(rs))))
            if want_ok and not (r["status"] == 200 and ("token=%s " % t) in r["body"]):
                bad.append(("real:request-lost", "request %s was not answered by a worker (%s)" % (t, json.dumps(r)[:100])))
            if t in sc.get("lost_tokens", []) and r["status"] == 200:
                bad.append(("real:timeout-not-enforced", "request %s outlived --timeout and was still answered" % t))
            if r["status"] == 200:
                f = dict(x.split("=") for x in r["body"].split())
                spans.setdefault(f["pid"], []).append((int(f["start"]), int(f["end"]), t))
        for pid, sp in spans.items():
            sp.sort()
            for a, b in zip(sp, sp[1:]):
                if b[0] < a[1]:
                    bad.append(("real:worker-overlap", "worker %s served %s and %s at the same time" % (pid, a[2], b[2])))
        seen = set()
        for sig, what in bad:
            if sig in seen:
                continue
            seen.add(sig)
            stable = {"master_alive": o.get("master_alive"), "max_seen": o.get("max_seen"), "steps": o.get("steps"),
                      "final_children": o.get("final_children"),
                      "responses": sorted([r["token"], r["status"]] for r in o.get("resps", [])),
                      "master_last_line": o.get("master_stderr", "").split("|")[-1].strip()[20:]}
            chk.violation("real processes, scenario %s (init %d, max %d, timeout %ds): %s" % (sc["name"], sc["init"], sc["max"], sc["timeout"], what),
                          sig, {"kind": "real", "scenario": {k: v for k, v in sc.items() if k != "timeout_ms"}, "observed": stable, "violated": sig,
                                "replay_cmd": "./check C20 --replay <this file>"})


def cleanup_fifos(t0):
    import glob
    for f in glob.glob("/tmp/zinc-server-pipe-*"):
        try:
            if os.path.getmtime(f) >= t0 - 1:
                os.remove(f)
        except OSError:
            pass


def strip(c):
    return {k: v for k, v in c.items() if k in ("init", "max", "events", "via", "profile", "corpus", "grace_ms")}
