# C03 — Parsing builds the tree the grammar prescribes, for any layout.
# Tie: (1) generator of ASTs over all statement kinds x random layouts, real parser's tree == prescribed tree and
# identical under k layouts; (2) corruptions: accepted => complete; (3) Gallina model of the front end (coq/model/Parser.v)
# evaluated inside Coq on the same inputs and compared with the real parser (tree or error code + cursor).
import copy
import json
import random

from vlib import core
from props import frontgen as fg
from props import frontcheck as fc
from props import frontmodel as fm

HARNESS = "front"
prebuild = fm.prebuild

TB = ("Coq 8.16.1 kernel and vm_compute; hand-written Gallina model of the lexer and parser tied to /repo by the per-run "
      "correspondence check (Go harness built -tags verif from the working tree, nil-safe tree dumper; model evaluated inside "
      "Coq on the same inputs); Python AST generator / layout renderer / comparison code in tools/props/front*.py; ")
CLAIM = dict(
    text=("Theorems (coq/props/C03.v, closed under the global context). C03_precedence_all_trees: for EVERY operator tree (identifier "
          "leaves; + - * / | %, the comparisons in either spelling, 且 / 或; any depth) the text with braces exactly where the documented "
          "levels require them compiles — through the character-level lexer and the whole parser, at the front end's own fuel — to the "
          "program consisting of exactly that tree: precedence and left associativity of every level; also at token level in any parser "
          "state (no restriction on leaves) and for any optional / multiple spacing the lexer can still cut (C03_precedence_tokens, "
          "C03_precedence_any_spacing); the same with postfix chains, array literals and plain calls as leaves — index by name, text or any braced "
          "expression, 之 / 的 property access, in any length and mixture: chains bind tighter than every operator and associate to the "
          "left (C03_chains_every_tree, C03_chains_tokens); WHOLE PROGRAMS of expression statements, 输出, 令, 每当 and 如果 / 再如 / 否则 with "
          "blocks nested to any depth, printed one statement per line with four spaces per level, compile to exactly the prescribed tree, "
          "line table and indentation type — statement nesting from indentation, dedents closing several blocks, 再如 / 否则 attaching to the "
          "如果 of their own indentation (C03_statements_every_program, token level C03_block_tokens); LAYOUT INVARIANCE for these programs: any two "
          "layouts — TAB or four-space indentation, LF / CR / CRLF / LFCR before each line, blank lines (empty or of whole indentation units), "
          "trailing line ends — give the same, prescribed tree, with the line table and indentation type of each (C03_layout_invariance, "
          "C03_layout_tree_lines_indent); PROGRAM SECTIONS and the other statement kinds: import lines, the input line, statements and 拦截 "
          "sections, with 令 a、b = e, the three 遍历 forms, 抛出, 结束循环 / 继续循环 and 如何 definitions whose exec blocks nest to any depth, "
          "compile to the prescribed program (C03_sections_every_program, C03_exec_block_tokens); so do type definitions (定义 with property "
          "lines, methods and getters), constructors (如何新建), method-call statements 以 X（M：a、b）、（N）得到 R and the member forms 其 P "
          "(C03_types_every_program); more fuel never changes an answer (C03_fuel_monotone). C03_complete: every tree the executable model of the "
          "front end (pkg/syntax lexer driver + pkg/syntax/zh parser: token buffer with stmtCompleteFlag, tryConsume, "
          "meetStmtLineBreak, blockIndent, all Parse* productions, with the repairs fixes/C03-1..4, C05-1, C05-3, C13-1) returns is "
          "complete - every construct has all parts the grammar requires - for ALL sources and fuel values, by induction over "
          "the productions (C03_complete_productions). The remaining clauses are carried by the correspondence run, not by "
          "proof: on every run random ASTs over all 14 statement kinds and all expression forms are rendered under several "
          "random layouts (synonym spellings, Chinese/ASCII punctuation, spaces, one optional comma, comments incl. "
          "multi-line, TAB/4-space, LF/CR/CRLF/LFCR, line breaks after ， 、 { 【 ： ？ and before 】 }) and the real parser must "
          "return exactly the prescribed tree for every layout (tree of the grammar + layout invariance); token/line "
          "corruptions and truncations must be rejected or yield a complete tree, never hang or panic; and the model's "
          "outcome (tree + line table, or error code + cursor) must equal the implementation's on these inputs."),
    note=TB + ("proved: completeness of every returned tree (all inputs); the round trip compile(print e) = e for operator expressions under "
               "every spacing. NOT proved, covered by the correspondence run only: the round trip for the 令： block form, method calls and 其 P as leaves of arbitrary expressions, "
               "dictionary literals, program sections, and the layout dimensions not in the proved family (comments, leading blank lines, extra spaces inside lines for statements), comma / bracket-line-break / comment invariance as theorems. "
               "The token recognisers are the C04 model (vendored as model/LexerTok.v), string literals the C13 model."),
    technique="Coq proof (induction over fuel and productions) + model/implementation correspondence by vm_compute + differential generation",
    design="5/C03")


# ------------------------------------------------------------------ AST shrinking (valid programs that fail)

EXPR_TAGS = {"Logic", "Arith", "Assign", "Member", "Array", "HashMap", "Call", "New", "MethodCall", "Str"}


def _paths(t, path=()):
    if isinstance(t, list):
        yield path, t
        for i, x in enumerate(t):
            yield from _paths(x, path + (i,))


def _set(t, path, val):
    t = copy.deepcopy(t)
    if not path:
        return val
    cur = t
    for i in path[:-1]:
        cur = cur[i]
    cur[path[-1]] = val
    return t


def ast_candidates(pg):
    out = []
    for path, node in _paths(pg):
        if not node or not isinstance(node[0], str):
            continue
        tag = node[0]
        if tag == "Block":
            if len(node[1]) > 1:
                for i in range(len(node[1])):
                    out.append(_set(pg, path + (1,), node[1][:i] + node[1][i + 1:]))
            for i, st in enumerate(node[1]):
                if st[0] in ("Branch", "While", "Iterate", "FuncDecl", "Class", "VarDecl", "Throw", "Return"):
                    out.append(_set(pg, path + (1, i), fg.ID("S")))
        elif tag == "ExecBlock":
            if node[1]:
                n = copy.deepcopy(node)
                n[1] = []
                if len(n) > 4:
                    n[4] = []
                out.append(_set(pg, path, n))
            if node[3]:
                for i in range(len(node[3])):
                    out.append(_set(pg, path + (3,), node[3][:i] + node[3][i + 1:]))
        elif tag == "Program" and node[1]:
            out.append(_set(pg, path + (1,), []))
        elif tag == "Class" and len(node[2]) > 1:
            for i in range(len(node[2])):
                out.append(_set(pg, path + (2,), node[2][:i] + node[2][i + 1:]))
        elif tag == "Branch":
            if node[6]:
                n = copy.deepcopy(node)
                n[3], n[6] = fg.NIL, False
                out.append(_set(pg, path, n))
            if node[4]:
                n = copy.deepcopy(node)
                n[4], n[5] = n[4][1:], n[5][1:]
                out.append(_set(pg, path, n))
        elif tag == "VarDecl" and len(node[1]) > 1:
            n = copy.deepcopy(node)
            n[1] = n[1][:1]
            out.append(_set(pg, path, n))
        if tag in EXPR_TAGS and path:
            out.append(_set(pg, path, fg.ID("A")))
    return out


def shrink_ast(pg, layout_seed, fails, rounds=25):
    size = len(json.dumps(pg))
    for _ in range(rounds):
        cands = [c for c in ast_candidates(pg)]
        cands = [c for c in cands if len(json.dumps(c)) < size]
        if not cands:
            break
        cands.sort(key=lambda c: len(json.dumps(c)))
        cands = cands[:150]
        texts = []
        for c in cands:
            try:
                texts.append(fg.render(random.Random(layout_seed), c)[0])
            except (ValueError, IndexError, KeyError, TypeError):
                texts.append(None)
        oks = fails([(c, t) for c, t in zip(cands, texts)])
        hit = [c for c, ok in zip(cands, oks) if ok]
        if not hit:
            break
        pg = hit[0]
        size = len(json.dumps(pg))
    return pg


def valid_outcome(pg_expected, out):
    """None if the parser returned the prescribed tree, else (signature, what)"""
    if out.get("ok"):
        if out["tree"] == pg_expected:
            return None
        return ("tree-mismatch", "the parser returns a tree different from the one the grammar prescribes")
    if out.get("hang"):
        return ("valid-hang", "the parser does not terminate on a grammar-derivable program")
    if "panic" in out or "crash" in out:
        return ("valid-panic", "the parser panics on a grammar-derivable program")
    return ("valid-rejected:code=%s" % out.get("code"), "a grammar-derivable program is rejected with code %s at %s" % (out.get("code"), out.get("cursor")))


def feature_of(text, pg):
    """coarse, stable classification of a shrunk failing rendering"""
    lines, _ = fg.split_lines(text)
    heads = ("如果", "再如", "每当", "遍历", "以", "如何", "何为", "定义", "拦截", "令")
    multi = False
    for i, l in enumerate(lines):
        s = l.lstrip(" \t")
        if s.startswith(heads) and not s.rstrip(" \t").endswith(("：", ":", "？", "?")) and i + 1 < len(lines):
            multi = True
    if multi:
        return "block-header-spanning-lines"
    return "other"


# ------------------------------------------------------------------ run

def run(chk, replay=None):
    rng = chk.rng
    quick = chk.tier == "quick"
    n_ast = 150 if quick else 1500
    k_lay = 3 if quick else 4
    n_corrupt_per = 4 if quick else 6
    found = {}      # signature -> (size, what, replay)

    def report(sig, what, rep):
        size = len(rep.get("text", ""))
        if sig not in found or size < found[sig][0]:
            found[sig] = (size, what, rep)

    # ---- replay of one stored case
    if replay is not None:
        text = replay["text"]
        out = fc.parse_many([text])[0]
        issues = fc.judge(text, out)
        if replay.get("expected_tree") is not None:
            v = valid_outcome(replay["expected_tree"], out)
            if v:
                issues.append(v)
        if replay.get("must_reject") and out.get("ok"):
            issues.append((replay.get("signature", "accepted"), "input that must be rejected is accepted"))
        for sig, what in issues:
            chk.violation(what + ": " + repr(text)[:160], sig, replay)
        chk.count(["replay", text])
        mm = fm.compare(chk, [text], [out], "C03")
        for sig, what, t in mm:
            chk.violation(what, sig, dict(replay, model_mismatch=True), no_input=sig.endswith(":lines"))
        return

    # ---- corpus first
    corpus = fc.load_corpus("C03")
    texts = [c["text"] for c in corpus]
    outs = fc.parse_many(texts)
    model_inputs = []
    for c, out in zip(corpus, outs):
        text = c["text"]
        chk.count(["corpus", text])
        chk.dist("corpus")
        model_inputs.append((text, out))
        for sig, what in fc.judge(text, out):
            report(sig, what, {"kind": "corpus", "text": text, "name": c.get("name"), "signature": sig})
        if c.get("expected_tree") is not None:
            v = valid_outcome(c["expected_tree"], out)
            if v:
                report(v[0] + ":" + c.get("name", ""), v[1], {"kind": "corpus", "text": text, "name": c.get("name"),
                                                              "expected_tree": c["expected_tree"], "signature": v[0]})
        if c.get("must_reject") and out.get("ok"):
            report(c.get("signature", "accepted-invalid"), c.get("what", "input that must be rejected is accepted"),
                   {"kind": "corpus", "text": text, "name": c.get("name"), "must_reject": True, "signature": c.get("signature")})

    # ---- valid programs under k layouts
    progs = []
    for i in range(n_ast):
        g = fg.Gen(rng, max_expr_depth=rng.choice([1, 2, 2, 3, 4, 6]), max_block_depth=rng.choice([0, 1, 2, 2, 3]))
        pg = g.program() if rng.random() < 0.85 else ["Program", [], ["ExecBlock", [], ["Block", [g.stmt(2)]], [], []]]
        exp = fg.expected(pg)
        rends = []
        for k in range(k_lay):
            lseed = rng.randrange(1 << 30)
            try:
                text, pieces = fg.render(random.Random(lseed), pg, plain=(k == 0 and rng.random() < 0.5))
            except ValueError:
                continue
            rends.append((lseed, text, pieces))
        progs.append((pg, exp, rends))
    flat = [(pi, ri) for pi, p in enumerate(progs) for ri in range(len(p[2]))]
    outs = fc.parse_many([progs[pi][2][ri][1] for pi, ri in flat])
    corrupt_base = []
    nshrunk = {}
    for (pi, ri), out in zip(flat, outs):
        pg, exp, rends = progs[pi]
        lseed, text, pieces = rends[ri]
        chk.count(["valid", text])
        chk.dist("valid-rendering")
        for s in stmt_kinds(pg):
            chk.dist("stmt:" + s)
        if "\t" in text:
            chk.dist("layout:tab")
        for tag, pat in (("crlf", "\r\n"), ("cr", "\r"), ("comment", "注"), ("comment", "/*"), ("comment", "//")):
            if pat in text:
                chk.dist("layout:" + tag)
        model_inputs.append((text, out))
        if pi % 40 == 0 and ri == 0:
            chk.sample({"program": text[:200], "tree_equal": out.get("ok") and out["tree"] == exp})
        v = valid_outcome(exp, out)
        if v is None:
            corrupt_base.append((text, pieces))
            continue
        sig, what = v
        chk.dist("issue:" + sig)
        nshrunk[sig] = nshrunk.get(sig, 0) + 1
        if nshrunk[sig] > 3:
            continue

        def fails(cands, sig=sig):
            idx = [i for i, (c, t) in enumerate(cands) if t is not None]
            os_ = fc.parse_many([cands[i][1] for i in idx], timeout_ms=700)
            res = [False] * len(cands)
            for i, o in zip(idx, os_):
                vv = valid_outcome(fg.expected(cands[i][0]), o)
                res[i] = vv is not None and vv[0] == sig
            return res
        small = shrink_ast(pg, lseed, fails)
        try:
            stext = fg.render(random.Random(lseed), small)[0]
        except ValueError:
            small, stext = pg, text
        sout = fc.parse_many([stext])[0]
        if valid_outcome(fg.expected(small), sout) is None:
            small, stext = pg, text
        sig2 = sig + ":" + feature_of(stext, small)
        report(sig2, what + " [" + feature_of(stext, small) + "]",
               {"kind": "valid", "text": stext, "expected_tree": fg.expected(small), "signature": sig2,
                "layout_seed": lseed, "replay_cmd": "./check C03 --replay <this file>"})
        for s2, w2 in fc.judge(text, out):
            report(s2, w2, {"kind": "valid", "text": text, "signature": s2})

    # ---- layout invariance is implied by equality with the prescribed tree for every layout; count it
    chk.coverage["layout_groups"] = len(progs)

    # ---- corruptions: accepted => complete; never hang / panic; errors well-formed
    cor = []
    for text, pieces in corrupt_base:
        if len(text) > 600:
            continue
        for how, t in fc.corruptions(rng, pieces, n_corrupt_per):
            cor.append((how, t))
    # NUL probe: text after U+0000 must not be silently ignored
    nul = []
    for text, pieces in corrupt_base[:40 if quick else 300]:
        toks = [i for i, (k, _) in enumerate(pieces) if k == "tok"]
        if not toks:
            continue
        cut = rng.choice(toks)
        head = "".join(t for _, t in pieces[:cut + 1])
        nul.append(("nul-then-junk", head + "\x00" + rng.choice(["））", "】", "}", "！", "如果", "：：", "“"])))
    allc = cor + nul
    outs = fc.parse_many([t for _, t in allc], timeout_ms=800)
    for (how, text), out in zip(allc, outs):
        chk.count(["corrupt", text])
        chk.dist("corrupt:" + how)
        chk.dist("corrupt-outcome:" + ("accept" if out.get("ok") else ("hang" if out.get("hang") else "reject")))
        model_inputs.append((text, out))
        issues = fc.judge(text, out)
        if how == "nul-then-junk" and out.get("ok"):
            issues.append(("nul-truncates-source", "text after a U+0000 character is silently ignored (program accepted)"))
        for sig, what in issues:
            if sig.startswith("display") or sig.startswith("cursor"):
                continue          # C05's subject; reported by ./check C05
            chk.dist("issue:" + sig)
            if sig in found:
                continue
            small = text
            if sig != "nul-truncates-source":
                small = fc.shrink_text(text, fc.same_issue_pred(sig, timeout_ms=300))
            report(sig, what, {"kind": "corrupt", "how": how, "text": small, "signature": sig,
                               "must_reject": sig == "nul-truncates-source"})

    for sig, (size, what, rep) in sorted(found.items(), key=lambda kv: kv[1][0]):
        chk.violation(what + ": " + repr(rep.get("text", ""))[:200], sig, rep)

    # ---- Stage 2: the Gallina model on the same inputs
    lim = 450 if quick else 2500
    pool = [m for m in model_inputs[len(corpus):] if len(m[0]) <= 360]
    sel = model_inputs[:len(corpus)] + rng.sample(pool, min(lim, len(pool)))
    mm = fm.compare(chk, [t for t, _ in sel], [o for _, o in sel], "C03")
    seen = set()
    for sig, what, text in mm:
        if sig in seen:
            continue
        seen.add(sig)
        chk.violation(what, sig, {"kind": "model-vs-implementation", "text": text, "signature": sig,
                                  "replay_cmd": "./check %s --replay <this file>" % chk.pid}, no_input=sig.endswith(":lines"))

    chk.coverage["rule"] = ("seeded generator: random ASTs (all 14 statement kinds, all expression forms, expression depth <= 6, "
                            "block depth <= 3) rendered under %d random layouts each (synonyms, ASCII/Chinese punctuation, spaces, "
                            "one optional comma, comments incl. multi-line, TAB/4-space, LF/CR/CRLF/LFCR, continuation breaks); "
                            "then token/line corruptions and truncations of accepted renderings and a U+0000 probe; "
                            "distinct = distinct source text; non-trivial = every case (no empty sources counted)" % k_lay)


def stmt_kinds(pg):
    out = set()
    for _, node in _paths(pg):
        if node and isinstance(node[0], str) and node[0] in ("VarDecl", "Empty", "Branch", "While", "Iterate", "Break", "Continue",
                                                             "FuncDecl", "Return", "Class", "Prop", "Throw", "Import", "Catch",
                                                             "MethodCall", "Assign", "Call", "New", "Member", "Array", "HashMap",
                                                             "Logic", "Arith"):
            out.add(node[0])
    return out
