# C13 — Every text value round-trips through a string literal.
# Tie: hand-written model (coq/model/StringLit.v: parseString + unescapeBackTickSpecialStr) vs the real lexer
# (syntax.NewLexer + zh.NextToken), the parser (导入《…》) and the interpreter (输出“…”) on generated inputs (T3):
#   * exhaustive: ALL strings up to a given length over the critical alphabet x the five opening quotes, compared through
#     63-bit digests per block (model evaluated inside Coq with vm_compute, same digest computed by the Go harness over the
#     real lexer); a block whose digests differ is compared case by case;
#   * encoder stream: random (long) texts written by the specification's encoder `literal_of`, read back by the lexer,
#     the parser and the interpreter: must give the text;
#   * raw stream: random (long) literal sources, lexer vs model; end to end where the grammar accepts the style.
import json
import random
import os
from concurrent.futures import ThreadPoolExecutor
from vlib import core

HARNESS = "c13"

TB = ("Coq 8.16.1 kernel and vm_compute (primitive 63-bit integers only in the digest of the correspondence check, not in any "
      "theorem); hand-written Gallina model tied to /repo by the per-run correspondence check (Go harness built -tags verif "
      "from the working tree, public API only: syntax.NewLexer + zh.NextToken, syntax.NewParser, exec.NewInterpreter; model "
      "evaluated inside Coq on the same inputs); generators and comparison code in tools/; ")
CLAIM = dict(
    text=("Theorems (coq/props/C13.v, closed under the global context) about an executable model of parseString and "
          "unescapeBackTickSpecialStr (pkg/syntax/zh/tokens.go): for EVERY text and each of the five opening quotes the literal "
          "written by the constructive encoder (balanced own quotes verbatim, unbalanced ones wrapped in backticks, backtick as "
          "`BK`, NUL as `U+0`, all else verbatim incl. LF/CR/CRLF/LFCR) lexes to exactly that text and ends at its closing quote, "
          "whatever follows (induction on the text); balanced bodies without backtick/NUL are their own literal; escape table: "
          "CR LF CRLF TAB SP BK in any context, `U+h` (1-8 digits [0-9A-F]) = h and every scalar value is writable, a lone "
          "wrapped quote denotes itself and is not counted, and the machine's result is always one of exactly four cases, the "
          "fourth keeping the consumed text unchanged and never swallowing a quote; every run terminates, a token ends only "
          "right after its own closing quote, the only error is 'incomplete string', and a literal without its closing quote is "
          "that error. The model is tied to the code on every run: all strings up to length 3 (quick: +length 4 over the reduced "
          "alphabet; thorough: length 4 full, length 5 reduced) over the critical alphabet x 5 quote styles by digest, plus random "
          "long texts through the encoder and random raw literals, against the real lexer, parser (导入《…》) and interpreter "
          "(输出“…”), the latter also with a second literal following directly as the next statement (each literal keeps its own content)."),
    note=TB + ("Go's string(runes) (invalid code points -> U+FFFD) and strconv.ParseInt(s,16,32) (saturation at MaxInt32) are restated "
               "in Gallina and validated by the differential run. Digest comparison of exhaustive blocks can miss a difference only by "
               "a 63-bit hash collision. ‘…’/『…』 literals are lexed but no grammar rule consumes them, so they are compared at token "
               "level only. Recorded line starts are compared except for sources in which the escape machine can consume a line "
               "break (C18's subject). `U+h` above 0x10FFFF or in the surrogate range is outside the statement and not judged."),
    technique="Coq proof (induction over texts and over the escape machine's input) + model/implementation correspondence by vm_compute",
    design="5/C13")

FINISH = {}

IMPORTS = ("From Coq Require Import List ZArith Bool. Import ListNotations.\n"
           "From Zn.model Require Import StringLit StringLitRun.")

BT, CR, LF = 0x60, 0x0D, 0x0A
STYLES = [(0x201C, 0x201D), (0x300C, 0x300D), (0x2018, 0x2019), (0x300E, 0x300F), (0x300A, 0x300B)]
QUOTES = [q for p in STYLES for q in p]
LETTERS = [ord(ch) for ch in "CRLFTABSPKU"]
FULL = QUOTES + [BT, CR, LF] + LETTERS + [ord("+")] + [ord(ch) for ch in "0123456789DE"] + [ord("x"), 0]
TYPE_OF = {0x201C: 2, 0x300C: 2, 0x2018: 6, 0x300E: 6, 0x300A: 7}
OUTPUT_KW = [0x8F93, 0x51FA]   # 输出
IMPORT_KW = [0x5BFC, 0x5165]   # 导入


def reduced(o, c):
    """per-style reduced alphabet: own pair, one foreign pair, backtick, CR, LF, the escape-name letters, '+',
    one decimal digit, one hex letter that is in no name, one neutral letter, NUL"""
    fo, fc = (0x300C, 0x300D) if o == 0x201C else (0x201C, 0x201D)
    return [o, c, fo, fc, BT, CR, LF] + LETTERS + [ord("+"), ord("0"), ord("D"), ord("x"), 0]


def scalar(c):
    return 0 <= c < 0xD800 or 0xE000 <= c <= 0x10FFFF


def to_text(lit):
    return [c if scalar(c) else 0xFFFD for c in lit]


def show(cps):
    out = []
    for c in cps:
        if c in (CR, LF, 0, 9) or not scalar(c):
            out.append("<%X>" % c)
        else:
            out.append(chr(c))
    return "".join(out)


def decode_enc(enc):
    if not enc:
        return {"k": "bad"}
    if enc[0] == 1:
        n = enc[3]
        lit = enc[4:4 + n]
        rest = enc[4 + n:]
        return {"k": "ok", "type": enc[1], "end": enc[2], "lit": lit, "lines": rest[1:1 + rest[0]] if rest else [], "nl": rest[0] if rest else 0}
    if enc[0] == 0:
        return {"k": "err", "code": enc[1]}
    return {"k": "other", "raw": enc}


# ------------------------------------------------------------------ comparison of one lexer outcome
def judge_lex(chk, src, impl, model, where, replay):
    """impl/model: integer encodings. Returns True when they agree (or the case is outside the statement)."""
    m = decode_enc(model)
    i = decode_enc(impl)
    if m["k"] == "ok" and any(not scalar(x) for x in m["lit"]):
        chk.dist("not-judged:U+ beyond valid code points")
        return True
    if impl == model:
        return True
    if m["k"] == "other":
        chk.violation("model ran out of fuel on %s" % show(src), "tie:model-fuel", {"kind": "tie", "src": src}, no_input=True)
        return False
    if i["k"] not in ("ok", "err"):
        chk.violation("lexer returned an unexpected error kind on %s" % show(src), "lex:other-error",
                      dict(replay, expected=model, observed=impl))
        return False
    if m["k"] == "err" and i["k"] == "ok":
        what, sig = "unterminated literal accepted", "lex:accept-unterminated"
    elif m["k"] == "ok" and i["k"] == "err":
        what, sig = "well-formed literal rejected (code %s)" % i["code"], "lex:reject-valid"
    elif m["k"] == "err":
        what, sig = "wrong syntax error code %s (expected %s)" % (i["code"], m["code"]), "lex:error-code"
    elif i["lit"] != m["lit"]:
        what, sig = "literal reads back as %s, expected %s" % (show(i["lit"]), show(m["lit"])), "lex:value"
    elif i["end"] != m["end"]:
        what, sig = "literal ends at %d, expected %d" % (i["end"], m["end"]), "lex:end"
    elif i["type"] != m["type"]:
        what, sig = "token type %d, expected %d" % (i["type"], m["type"]), "lex:type"
    else:
        chk.violation("recorded line starts differ (not a C13 observable; model/lexer tie): %s impl=%s model=%s" %
                      (show(src), i["lines"], m["lines"]), "tie:lines",
                      {"kind": "tie", "src": src, "impl": impl, "model": model}, no_input=True)
        return False
    if m["k"] == "ok" and i["k"] == "err" and 0 in src[:m["end"]]:
        # pinned tree: RuneEOF = 0, so the character NUL doubles as the end-of-input mark (findings/C13.md, C13-1)
        what, sig = what + " — a NUL (U+0000) in the source is taken for the end of input", "lex:NUL-taken-for-end-of-input"
    chk.violation("%s [%s]: source %s" % (what, where, show(src)), sig,
                  dict(replay, expected=model, observed=impl, replay_cmd="./check C13 --replay <this file>"))
    return False


# ------------------------------------------------------------------ exhaustive blocks by digest
def strings(alpha, n):
    if n == 0:
        return [[]]
    return [[a] + s for a in alpha for s in strings(alpha, n - 1)]


def exhaustive(chk, plans, jobs):
    """plans: list of (label, (o,c), alpha, n, tail). Returns total number of cases."""
    tasks = []       # (plan index, prefix chunk)
    impl = {}
    total = 0
    nontriv = 0
    for pi, (label, (o, c), alpha, n, tail) in enumerate(plans):
        plen = 0
        while len(alpha) ** (n - plen) > 20000:
            plen += 1
        prefixes = strings(alpha, plen)
        out = core.harness("c13", "lexdigest", [{"alphabet": alpha, "prefixes": prefixes, "open": [o], "tail": tail,
                                                 "len": n - plen, "timeout_ms": 3000000}], batch_timeout=3600)[0]
        if "digests" not in out:
            raise RuntimeError("harness lexdigest failed: %s" % json.dumps(out)[:300])
        impl[pi] = (prefixes, plen, [int(d) for d in out["digests"]])
        total += out["cases"]
        nontriv += out["nontrivial"]
        chk.dist("exhaustive:%s" % label, out["cases"])
        per = max(1, 400000 // (len(alpha) ** (n - plen)))
        for k in range(0, len(prefixes), per):
            tasks.append((pi, k, prefixes[k:k + per]))

    # group the tasks so that one coqc process evaluates about half a million cases
    groups, cur, cur_n = [], [], 0
    for task in tasks:
        pi, k, chunk = task
        label, (o, c), alpha, n, tail = plans[pi]
        size = len(chunk) * len(alpha) ** (n - impl[pi][1])
        if cur and cur_n + size > 500000:
            groups.append(cur)
            cur, cur_n = [], 0
        cur.append(task)
        cur_n += size
    if cur:
        groups.append(cur)

    def one(gi_group):
        gi, group = gi_group
        txt = [IMPORTS, "Open Scope Z_scope.", "Set Printing Depth 10000000.", "Set Printing Width 200."]
        for j, (pi, k, chunk) in enumerate(group):
            label, (o, c), alpha, n, tail = plans[pi]
            plen = impl[pi][1]
            txt.append("Definition dig%d := Eval vm_compute in digest_blocks %s %s %s %s %d.\nPrint dig%d." % (
                j, core.zlist([o]), core.zlistlist(chunk), core.zlist(alpha), core.zlist(tail), n - plen, j))
        rc, out = core.coq_eval("c13d_%d_%d" % (os.getpid(), gi), "\n".join(txt), timeout=3000)
        if rc != 0:
            raise RuntimeError("coq digest evaluation failed:\n" + out[-2000:])
        res = []
        for j, (pi, k, chunk) in enumerate(group):
            val = core.parse_coq_value(out, marker="dig%d " % j)
            if val is None or len(val) != len(chunk):
                raise RuntimeError("cannot parse coq digest output:\n" + out[:1000])
            res.append((pi, k, val))
        return res

    bad = []
    with ThreadPoolExecutor(max_workers=jobs) as ex:
        for res in ex.map(one, list(enumerate(groups))):
            for pi, k, val in res:
                prefixes, plen, dig = impl[pi]
                for j, v in enumerate(val):
                    if v != dig[k + j]:
                        bad.append((pi, prefixes[k + j]))
    chk.coverage["evaluations"] += total
    # drill down: at most 3 differing blocks, case by case
    for pi, prefix in bad[:3]:
        label, (o, c), alpha, n, tail = plans[pi]
        plen = impl[pi][1]
        io = core.harness("c13", "lexblock", [{"alphabet": alpha, "prefix": prefix, "open": [o], "tail": tail, "len": n - plen,
                                               "timeout_ms": 600000}])[0]["encs"]
        txt = "\n".join([IMPORTS, "Open Scope Z_scope.", "Set Printing Depth 10000000.", "Set Printing Width 1000000.",
                         "Definition r := Eval vm_compute in run_block_j %s %s %s %s %d." % (
                             core.zlist([o]), core.zlist(prefix), core.zlist(alpha), core.zlist(tail), n - plen),
                         "Print r."])
        rc, out = core.coq_eval("c13b_%d" % os.getpid(), txt, timeout=900)
        mo = core.parse_coq_value(out, marker="r") if rc == 0 else None
        if mo is None or len(mo) != len(io):
            raise RuntimeError("cannot evaluate block for drill-down:\n" + out[-1500:])
        bodies = strings(alpha, n - plen)
        shown = 0
        for body, a, b in zip(bodies, io, mo):
            if a != b and shown < 3:
                src = [o] + prefix + body + tail
                if not judge_lex(chk, src, a, b, "exhaustive " + label, {"kind": "lex", "src": src}):
                    shown += 1
    if bad and not chk.violations:
        # digests differ but every differing case is outside the statement (not judged): fine
        chk.dist("exhaustive:blocks-with-unjudged-differences", len(bad))
    if len(bad) > 3:
        chk.notes.append("%d exhaustive blocks differ; 3 were expanded" % len(bad))
    return total, nontriv, len(bad)


# ------------------------------------------------------------------ generators for the per-case streams
def rand_char(rng):
    k = rng.random()
    if k < 0.30:
        return rng.choice(QUOTES)
    if k < 0.42:
        return BT
    if k < 0.50:
        return rng.choice([CR, LF])
    if k < 0.70:
        return rng.choice(LETTERS + [ord("+")] + [ord(ch) for ch in "0123456789ABCDEFabcdef"])
    if k < 0.74:
        return 0
    if k < 0.82:
        return rng.choice([0x20, 0x09, 0x3000, 0xFF0C, 0x3002, 0xFF1A, 0x3008, 0x3009, 0x5C, 0x22, 0x27, 0x7B, 0x7D])
    if k < 0.92:
        return rng.randrange(0x4E00, 0x9FFF)
    if k < 0.96:
        return rng.randrange(0x10000, 0x110000)
    c = rng.randrange(1, 0x110000)
    return 0xE000 if 0xD800 <= c < 0xE000 else c


ESC_SNIPPETS = ["`CR`", "`LF`", "`CRLF`", "`TAB`", "`SP`", "`BK`", "`U+1F005`", "`U+0`", "`U+41`", "`U+10FFFF`", "`U+0000005C`",
                "`U+D7FF`", "`U+E000`", "`U+1f600`", "`U+`", "`U+123456789`", "`CRL`", "`TABK`", "`cr`", "``", "`华为`", "`U+FFFD`",
                "`“`", "`”`", "`「`", "`」`", "`《`", "`》`", "`‘`", "`』`", "`”", "`“abc", "` `", "`\r\n", "`C\n", "`U+4\r",
                # look-alikes of the documented names: full-width and other non-ASCII digits and letters, lower case — kept literally
                "`U+４１`", "`U+4１`", "`U+０`", "`U+１F005`", "`U+٤١`", "`U+Ａ`", "`U+a`", "`Ｕ+41`", "`U＋41`", "`ＣＲ`", "`ＴＡＢ`", "`ＬＦ`", "`Cr`",
                "`U+4 1`", "`U+-1`", "`U+110000`", "`U+FFFFFFFF`", "`U+000000041`"]


def rand_text(rng, n):
    out = []
    while len(out) < n:
        k = rng.random()
        if k < 0.12:
            out += [ord(ch) for ch in rng.choice(ESC_SNIPPETS)]
        elif k < 0.2:
            o, c = rng.choice(STYLES)                          # a balanced nested group
            out += [o] + [rand_char(rng) for _ in range(rng.randrange(0, 4))] + [c]
        elif k < 0.25:
            out += rng.choice([[CR, LF], [LF, CR], [CR, CR], [LF, LF], [CR, LF, CR], [LF, CR, LF]])
        else:
            out.append(rand_char(rng))
    return out[:n] if rng.random() < 0.5 else out


def load_corpus():
    p = os.path.join(core.VERIF, "corpus", "C13", "cases.json")
    if os.path.exists(p):
        return json.load(open(p, encoding="utf8"))
    return []


# ------------------------------------------------------------------ the per-case streams
def run_cases(chk, cases):
    """cases: dicts {"kind":"lex","src":[...]} or {"kind":"enc","o":o,"s":[...],"tail":[...]}; label in "gen"."""
    if not cases:
        return
    enc_idx = [i for i, c in enumerate(cases) if c["kind"] == "enc"]
    lex_idx = [i for i, c in enumerate(cases) if c["kind"] == "lex" and "model" not in c]
    src = {}
    model = {}
    for i, c in enumerate(cases):
        if c["kind"] == "lex" and "model" in c:      # model outcome already evaluated in Coq (block enumeration)
            src[i], model[i] = c["src"], c["model"]
    if enc_idx:
        res = core.coq_run_cases("c13e", IMPORTS, "fun p => match p with (o, s, t) => run_encode o s t end",
                                 ["(%d, (%s : list Z), (%s : list Z))" % (cases[i]["o"], core.zlist(cases[i]["s"]), core.zlist(cases[i].get("tail", [])))
                                  for i in enc_idx], shard=150)
        for i, v in zip(enc_idx, res):
            src[i], model[i] = v[0], v[1]
    if lex_idx:
        res = core.coq_run_cases("c13l", IMPORTS, "run_lex_j", [core.zlist(cases[i]["src"]) for i in lex_idx], shard=200)
        for i, v in zip(lex_idx, res):
            src[i], model[i] = cases[i]["src"], v
    order = sorted(src)
    outs = core.harness("c13", "lex", [{"src": src[i]} for i in order])
    impl = {}
    for i, o in zip(order, outs):
        impl[i] = o.get("enc") if isinstance(o, dict) and "enc" in o else [2, json.dumps(o)[:200]]

    e2e = []     # (case index, command, program, expectation)
    for i in order:
        c = cases[i]
        s = src[i]
        m = decode_enc(model[i])
        rep = {"kind": c["kind"], "case": {k: v for k, v in c.items() if k not in ("gen", "model", "count")}}
        gen = c.get("gen", c["kind"])
        chk.count([c["kind"], s], nontrivial=c.get("count", True) and any(x in QUOTES or x in (BT, CR, LF, 0) for x in s[1:-1]))
        chk.dist("stream:" + gen)
        chk.dist("expect:" + ("token" if m["k"] == "ok" else "incomplete-string"))
        if i % 61 == 0:
            chk.sample({"kind": c["kind"], "generator": gen, "source": show(s)[:120], "model": model[i][:24]})
        if c["kind"] == "enc":
            # the theorem's prediction: the literal reads back as the text, ends at its last character, has the style's type
            text = c["s"]
            lit_len = len(s) - len(c.get("tail", []))
            ok = m["k"] == "ok" and m["lit"] == text and m["end"] == lit_len and m["type"] == TYPE_OF[c["o"]]
            if not ok:
                chk.violation("model evaluation contradicts theorem C13_roundtrip on %s" % show(text), "tie:theorem",
                              {"kind": "tie", "case": rep["case"], "model": model[i]}, no_input=True)
                continue
            ii = decode_enc(impl[i])
            if not (ii["k"] == "ok" and ii["lit"] == text and ii["end"] == lit_len and ii["type"] == TYPE_OF[c["o"]]):
                if ii["k"] == "ok":
                    what = "text %s written as literal %s reads back as %s (end %s, expected %d)" % (
                        show(text)[:80], show(s)[:100], show(ii["lit"])[:80], ii["end"], lit_len)
                else:
                    what = "text %s written as literal %s is rejected: %s" % (show(text)[:80], show(s)[:100], impl[i])
                chk.violation(what, "encode:roundtrip", dict(rep, literal=s, expected=model[i], observed=impl[i],
                                                             replay_cmd="./check C13 --replay <this file>"))
                continue
        if not judge_lex(chk, s, impl[i], model[i], gen, rep):
            continue
        # end to end where the grammar consumes the style and the literal spans the whole source
        if m["k"] == "ok" and any(not scalar(x) for x in m["lit"]):
            continue
        o = s[0]
        whole = (m["k"] == "ok" and m["end"] == len(s)) or m["k"] == "err"
        if not whole:
            chk.dist("e2e:skipped-literal-ends-early")
            continue
        exp = to_text(m["lit"]) if m["k"] == "ok" else None
        if o in (0x201C, 0x300C):
            e2e.append((i, "e2e", OUTPUT_KW + s, exp))
        elif o == 0x300A:
            e2e.append((i, "parse", IMPORT_KW + s, exp))
        else:
            chk.dist("e2e:no-grammar-rule-for-enum-string")
    # two literals that follow each other directly (the second is the next statement): each keeps its own content
    singles = [t for t in e2e if t[1] == "e2e" and t[3] is not None and t[3] != "TRUE"]
    rng_adj = random.Random(len(singles) * 7919 + 13)
    for _ in range(min(60, len(singles) * 2 if len(singles) > 1 else 0)):
        a, b = rng_adj.sample(singles, 2)
        sep = rng_adj.choice(["\n", " \n", "\n\n", "\n注：说明\n", "  \n  ".replace(" ", "")])
        sep_cps = [ord(ch) for ch in sep]
        e2e.append((a[0], "e2e", a[2] + sep_cps + b[2][len(OUTPUT_KW):], a[3]))
    # a literal INSIDE a statement: further tokens follow on the line on which the literal closes (list item, first of two
    # statements on a line); whatever the literal holds — line breaks included — the statement goes on after its closing quote
    for t in rng_adj.sample(singles, min(80, len(singles))):
        lit = t[2][len(OUTPUT_KW):]
        pre, post, same = rng_adj.choice([("输出【", "，1】#1", 0), ("令Xq = ", "；输出Xq", 0), ("输出【1，", "】#2", 0), ("输出{", "}", 0),
                                          ("如何Eq？\n    输入Mq\n    输出Mq\n\n输出（Eq：", "）", 0), ("输出", " == ", 1), ("输出", " 为 ", 1),
                                          ("如何Eq？\n    输入Mq、Nq\n    输出Mq\n\n输出（Eq：", "、1）", 0)])
        if same:
            # the literal compared with itself: 真 whatever it holds
            e2e.append((t[0], "e2e", [ord(ch) for ch in pre] + lit + [ord(ch) for ch in post] + lit, "TRUE"))
        else:
            e2e.append((t[0], "e2e", [ord(ch) for ch in pre] + lit + [ord(ch) for ch in post], t[3]))
    # long literals in program FILES: characters that sit at (or straddle) the 4096-byte blocks the file is read in — U+FEFF,
    # astral and CJK characters, line breaks — are part of the literal like anywhere else
    file_cases = []
    head = len("输出“".encode("utf8"))
    for blk in (4096, 8192):
        for delta in (-4, -3, -2, -1, 0, 1):
            for ch in ("\ufeff", "\U0001F600", "乙", "\n", "é"):
                pad = blk - head + delta
                text = "a" * pad + ch + "尾"
                file_cases.append(text)
    rng_file = random.Random(len(file_cases))
    chosen = [t for t in file_cases if "\ufeff" in t] + rng_file.sample([t for t in file_cases if "\ufeff" not in t], 8)
    for text in chosen:
        e2e.append((0, "e2efile", [ord(c) for c in "输出“" + text + "”"], [ord(c) for c in text]))
    for cmd in ("e2e", "parse", "e2efile"):
        batch = [t for t in e2e if t[1] == cmd]
        if not batch:
            continue
        outs = core.harness("c13", "e2e" if cmd == "e2efile" else cmd, [dict({"src": t[2]}, **({"file": True} if cmd == "e2efile" else {})) for t in batch])
        for (i, _, prog, exp), o in zip(batch, outs):
            chk.count([cmd, prog])
            chk.dist("e2e:" + cmd)
            rep = {"kind": cmd, "prog": prog, "case": {k: v for k, v in cases[i].items() if k not in ("gen", "model", "count")}}
            if exp is None:
                good = o.get("kind") == "error" and o.get("err", {}).get("class") == "syntax" and o["err"].get("code") == 27
                what = "unterminated literal: expected syntax error 27, observed %s" % json.dumps(o, ensure_ascii=False)[:160]
                sig = cmd + ":unterminated"
            elif exp == "TRUE":
                good = o.get("kind") == "value" and o.get("value") == {"t": "bool", "v": True}
                what = "a literal compared with itself yields %s, expected 真" % json.dumps(o, ensure_ascii=False)[:160]
                sig = "e2e:self-comparison"
            elif cmd in ("e2e", "e2efile"):
                good = o.get("kind") == "value" and o.get("str") == exp
                what = "输出‹literal› yields %s, expected text %s" % (
                    show(o["str"])[:80] if "str" in o else json.dumps(o, ensure_ascii=False)[:160], show(exp)[:80])
                sig = "e2e:value"
            else:
                imps = o.get("imports") or []
                good = o.get("kind") == "ok" and len(imps) == 1 and imps[0]["name"] == exp and imps[0]["libtype"] == 1
                what = "导入‹literal› parses to %s, expected name %s" % (json.dumps(o, ensure_ascii=False)[:160], show(exp)[:80])
                sig = "parse:value"
            if not good:
                chk.violation("%s; program %s" % (what, show(prog)[:120]), sig,
                              dict(rep, expected=exp, observed=o, replay_cmd="./check C13 --replay <this file>"))


def run(chk, replay=None):
    rng = chk.rng
    quick = chk.tier == "quick"
    jobs = 6
    FINISH.clear()

    if replay is not None:
        if replay.get("kind") in ("lex", "enc"):
            run_cases(chk, [dict(replay["case"], gen="replay")])
        elif replay.get("kind") == "e2efile":
            o = core.harness("c13", "e2e", [{"src": replay["prog"], "file": True}])[0]
            chk.count(["e2efile", replay["prog"]])
            if not (o.get("kind") == "value" and o.get("str") == replay.get("expected")):
                chk.violation("a literal in a program file does not read back: %s" % json.dumps(o, ensure_ascii=False)[:200], "e2e:value",
                              dict(replay, observed=o))
        elif replay.get("kind") in ("e2e", "parse"):
            run_cases(chk, [dict(replay["case"], gen="replay")])
        else:
            chk.violation("replay file of kind %s names no input" % replay.get("kind"), "replay:no-input", replay, no_input=True)
        chk.coverage["rule"] = "replay of one recorded case"
        return

    # 1. corpus first
    cases = [dict(c, gen="corpus", count=False) for c in load_corpus()]

    # 2. encoder stream: random texts, all five styles, various lengths (long ones included)
    n_enc = 60 if quick else 500
    for _ in range(n_enc):
        n = rng.choice([0, 1, 2, 3, 5, 8, 13, 21, 40, 80, 200] if quick else [0, 1, 2, 3, 5, 8, 13, 21, 40, 80, 200, 600])
        s = rand_text(rng, n)
        tail = rng.choice([[], [], [ord("x")], [LF], [rng.choice(QUOTES)], [BT]])
        for (o, c) in STYLES:
            cases.append({"kind": "enc", "o": o, "s": s, "tail": tail, "gen": "encoder"})
    # texts made of own quotes, backticks and NUL only (worst case for the encoder), every style
    for (o, c) in STYLES:
        for _ in range(20 if quick else 150):
            n = rng.randrange(6, 40)
            s = [rng.choice([o, c, o, c, BT, 0, CR, LF, ord("B"), ord("K")]) for _ in range(n)]
            cases.append({"kind": "enc", "o": o, "s": s, "tail": [], "gen": "encoder-own-quotes"})
    # every escape name / U+ form / boundary code point as a text of its own (documented table, end to end)
    singles = [[0x0D], [0x0A], [0x0D, 0x0A], [0x09], [0x20], [BT], [0], [0xD7FF], [0xE000], [0xFFFD], [0x10FFFF], [0x1F005]]
    for s in singles:
        for (o, c) in STYLES:
            cases.append({"kind": "enc", "o": o, "s": s, "tail": [], "gen": "encoder-single", "count": False})

    # 3. raw stream: random literal sources (length >= 6 so that they are disjoint from the exhaustive part)
    n_raw = 400 if quick else 4000
    for _ in range(n_raw):
        o, c = rng.choice(STYLES)
        n = rng.choice([6, 7, 8, 10, 14, 20, 40, 100] if quick else [6, 7, 8, 10, 14, 20, 40, 100, 300])
        body = rand_text(rng, n)
        # sprinkle own quotes so that a good share closes
        for _ in range(rng.randrange(0, 4)):
            body.insert(rng.randrange(len(body) + 1), rng.choice([o, c, c]))
        tail = rng.choice([[], [c], [c], [c, ord("x")], [BT, c], [c, BT]])
        cases.append({"kind": "lex", "src": [o] + body + tail, "gen": "raw"})
    # documented escapes in context, for the two expression styles (end to end)
    for snip in ESC_SNIPPETS:
        for (o, c) in STYLES[:2] + STYLES[4:]:
            pre = [rand_char(rng) for _ in range(3)]
            cases.append({"kind": "lex", "src": [o] + pre + [ord(ch) for ch in snip] + [rand_char(rng) for _ in range(3)] + [c],
                          "gen": "raw-escape-snippet"})
    # all strings up to length 2 over the full alphabet, per case, for the end-to-end path (token level is covered below)
    def short_block(style):
        o, c = style
        defs = ["Definition blk%d := Eval vm_compute in run_block_j %s [] %s %s %d.\nPrint blk%d." % (
            n, core.zlist([o]), core.zlist(FULL), core.zlist([c]), n, n) for n in (0, 1, 2)]
        txt = "\n".join([IMPORTS, "Open Scope Z_scope.", "Set Printing Depth 10000000.", "Set Printing Width 1000000."] + defs)
        rc, out = core.coq_eval("c13s_%d_%d" % (os.getpid(), o), txt, timeout=900)
        if rc != 0:
            raise RuntimeError("coq evaluation of short blocks failed:\n" + out[-2000:])
        res = []
        for n in (0, 1, 2):
            val = core.parse_coq_value(out, marker="blk%d" % n)
            bodies = strings(FULL, n)
            if val is None or len(val) != len(bodies):
                raise RuntimeError("cannot parse short block output:\n" + out[:1000])
            for body, m in zip(bodies, val):
                res.append({"kind": "lex", "src": [o] + body + [c], "gen": "e2e-short", "count": False, "model": m})
        return res

    with ThreadPoolExecutor(max_workers=3) as ex:
        for res in ex.map(short_block, STYLES[:2] + STYLES[4:]):
            cases.extend(res)
    run_cases(chk, cases)

    # 4. exhaustive part (token level), by digest
    plans = []
    for (o, c) in STYLES:
        top_full = 3 if quick else 4
        for n in range(0, top_full + 1):
            plans.append(("full-alphabet(%d) len %d" % (len(FULL), n), (o, c), FULL, n, []))
        red = reduced(o, c)
        if quick:
            plans.append(("reduced-alphabet(%d) len 4" % len(red), (o, c), red, 4, []))
        else:
            plans.append(("reduced-alphabet(%d) len 5" % len(red), (o, c), red, 5, []))
            red2 = [x for x in red if x not in (0, ord("x"))]     # closed bodies of length 5: without the two neutral symbols
            plans.append(("reduced-alphabet(%d) len 5 + closing quote" % len(red2), (o, c), red2, 5, [c]))
    total, nontriv, nbad = exhaustive(chk, plans, jobs)

    FINISH["extra"] = {
        "distinct_nontrivial": len(chk._distinct) + nontriv,
        "exhaustive": True,
        "exhaustive_cases": total,
        "exhaustive_blocks_differing": nbad,
        "corpus_size": len(load_corpus()),
    }
    chk.coverage["rule"] = (
        "exhaustive part: every string of length 0..%d over the full critical alphabet (%d symbols: the ten quotes, backtick, CR, LF, "
        "C R L F T A B S P K U, +, 0-9 D E, x, NUL) and of length %s over the per-style reduced alphabet (23 symbols: own pair, one "
        "foreign pair, backtick, CR, LF, the name letters, +, 0, D, x, NUL), after each of the five opening quotes, lexed by the real "
        "lexer and by the model inside Coq, compared by 63-bit digests per block (differing blocks expanded case by case); "
        "encoder stream: seeded random texts (len 0..%d; quotes 30%%, backtick 12%%, CR/LF 8%%, escape letters/hex 20%%, NUL 4%%, "
        "escape-like snippets, balanced groups, CJK, astral) written by the specification's encoder in all five styles with a "
        "random continuation, read by lexer / parser (导入《…》) / interpreter (输出“…”); raw stream: seeded random literal sources "
        "(len 6..%d); all strings of length <= 2 end to end. distinct = distinct (style, source); non-trivial = the body contains a "
        "quote, backtick, CR, LF or NUL; exhaustive cases are distinct by construction and counted by the harness, corpus and "
        "the short end-to-end repeats are not counted as distinct."
        % (3 if quick else 4, len(FULL), "4" if quick else "5 (and, without x and NUL, length 5 followed by the closing quote)", 200 if quick else 600,
           100 if quick else 300))
