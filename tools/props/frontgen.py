# Shared by c03.py / c05.py: random ASTs of the Zn language (dump form of harness/cmd/front), and a renderer
# with random layout choices allowed by the manual (synonyms, spaces, one optional comma, comments, TAB/4-space
# indentation, LF/CR/CRLF, line breaks after ， 、 { 【 ： ？ and before 】 }).
# Tree form (same as the Go dumper): ["ID",[cps]] ["Str",[cps]] ["Array",[..]] ["HashMap",[[k,v]..]] ["Assign",t,e]
# ["New",id,[..]] ["Call",id,[..],yield|"nil"] ["Member",root|"nil",rootType,memberType,id|"nil",idx|"nil"]
# ["MethodCall",root,[calls],yield|"nil"] ["Logic",ty,l,r] ["Arith",ty,l,r]
# ["VarDecl",[[ty,[ids],e]..]] ["Empty"] ["Branch",e,blk,else|"nil",[es],[blks],hasElse] ["While",e,blk]
# ["Iterate",e,[ids],blk] ["Break"] ["Continue"] ["FuncDecl",id,ty,exec] ["Return",e] ["Class",id,[props],[ms],[gs]]
# ["Prop",id,e] ["Throw",id,[es]] ["Import",ty,str,[ids]] ["ExecBlock",[ids],blk,[catches]] ["Catch",id,blk]
# ["Block",[stmts]] ["Program",[imports],exec|"nil"]

NIL = "nil"

KEYWORDS = ["令", "为", "以", "其", "或", "且", "之", "的", "设为", "恒为", "新建", "何为", "不为", "如果", "再如", "输出",
            "如何", "拦截", "导入", "定义", "得到", "输入", "否则", "每当", "遍历", "等于", "大于", "小于", "抛出",
            "不等于", "不大于", "不小于", "继续循环", "结束循环"]
KEYGLYPHS = set("".join(KEYWORDS)) | set("义取对成是注")

SAFE_CJK = [c for c in "甲乙丙丁戊己庚辛壬癸子丑寅卯数值变量价格总和名称年龄身高温度单位商品列表字典方法类型长度文本内容天地玄黄宇宙洪荒"
            if c not in KEYGLYPHS]
ASCII_ID = "ABCDEFGHXYZabcdefgxyz_"
DIGITS = "0123456789"


def cps(s):
    return [ord(c) for c in s]


def ID(s):
    return ["ID", cps(s)]


def Str(s):
    return ["Str", cps(s)]


def lit(node):
    return "".join(chr(c) for c in node[1])


# ------------------------------------------------------------------ AST generation

class Gen:
    def __init__(self, rng, max_expr_depth=5, max_block_depth=3):
        self.rng = rng
        self.med = max_expr_depth
        self.mbd = max_block_depth

    # -- leaves
    def ident_text(self):
        r = self.rng
        k = r.random()
        if k < 0.45:
            n = r.choice([1, 1, 2, 2, 3])
            return "".join(r.choice(SAFE_CJK) for _ in range(n))
        if k < 0.75:
            s = r.choice(ASCII_ID) + "".join(r.choice(ASCII_ID + DIGITS) for _ in range(r.randrange(0, 3)))
            return s
        if k < 0.85:
            return r.choice(SAFE_CJK) + r.choice(ASCII_ID + DIGITS)
        if k < 0.93:
            # interior - / * .  (manual: 白卡纸/牛皮纸飞机盒, 公交车站-数目, 星标值*)
            a = r.choice(SAFE_CJK) + r.choice(SAFE_CJK)
            b = r.choice(SAFE_CJK) + r.choice(ASCII_ID)
            return a + r.choice(["-", "/", "*", "."]) + b
        # an identifier that NEEDS backticks (contains keyword glyphs)
        return r.choice(["游所为的手机", "不为空", "如果", "新建时间", "其他", "大于号", "输出值", "令牌", "成为", "注意事项",
                         "结束循环", "以上", "或者", "对象之名"])

    def ident(self):
        return ID(self.ident_text())

    def number(self):
        r = self.rng
        return ID(r.choice(["0", "1", "2", "3", "10", "42", "100", "3.14", "0.5", "-5", "+7", "-0.25", "1e3", "2*10^8", "12.345"]))

    def string(self):
        r = self.rng
        k = r.random()
        if k < 0.55:
            n = r.randrange(0, 5)
            return Str("".join(r.choice(SAFE_CJK + list("abc 12，。：；为的令")) for _ in range(n)))
        if k < 0.7:
            return Str(r.choice(["摄氏度", "华氏度", "无效的温度单位", "黄河之水天上来", "如果其名为小明：", "a + b", "注：不是注释", "// x", "/* y */"]))
        if k < 0.8:
            # nested quotes of several kinds (balanced)
            return Str(r.choice(["他说“好”", "「内」外", "《论语》〈学而篇〉", "‘单’", "『书』", "“”", "「」"]))
        if k < 0.9:
            # multi-line text
            return Str(r.choice(["朝辞白帝彩云间，\n千里江陵一日还。", "a\nb", "x\r\ny", "末行\n", "\n首行", "一\r二"]))
        # unbalanced quotes of a kind different from the delimiters are fine: decided at render time
        return Str(r.choice(["半个“", "半个」", "’", "『"]))

    def leaf(self):
        k = self.rng.random()
        if k < 0.5:
            return self.ident()
        if k < 0.8:
            return self.number()
        return self.string()

    def key(self):
        k = self.rng.random()
        if k < 0.5:
            return self.ident()
        if k < 0.75:
            return self.number()
        return self.string()

    # -- expressions
    def expr(self, d=None):
        r = self.rng
        if d is None:
            d = r.randrange(0, self.med + 1)
        if d <= 0:
            return self.leaf()
        k = r.random()
        if k < 0.08:
            return ["Logic", 1, self.expr(d - 1), self.expr(d - 1)]
        if k < 0.16:
            return ["Logic", 2, self.expr(d - 1), self.expr(d - 1)]
        if k < 0.28:
            return ["Logic", r.choice([4, 5, 6, 7, 8, 9, 10, 11]), self.expr(d - 1), self.expr(d - 1)]
        if k < 0.36:
            return ["Assign", self.assignable(d - 1), self.expr(d - 1)]
        if k < 0.48:
            return ["Arith", r.choice([12, 13]), self.expr(d - 1), self.expr(d - 1)]
        if k < 0.60:
            return ["Arith", r.choice([14, 15, 16, 17]), self.expr(d - 1), self.expr(d - 1)]
        if k < 0.72:
            return self.member(d)
        if k < 0.78:
            return ["Array", [self.expr(d - 1) for _ in range(r.randrange(0, 4))]]
        if k < 0.83:
            return ["HashMap", [[self.key(), self.expr(d - 1)] for _ in range(r.randrange(0, 4))]]
        if k < 0.91:
            return self.call(d, allow_yield=True)
        if k < 0.95:
            return ["New", self.ident(), [self.expr(d - 1) for _ in range(r.randrange(0, 3))]]
        return self.method_call(d)

    def call(self, d, allow_yield):
        r = self.rng
        y = self.ident() if (allow_yield and r.random() < 0.2) else NIL
        return ["Call", self.ident(), [self.expr(d - 1) for _ in range(r.randrange(0, 4))], y]

    def method_call(self, d):
        r = self.rng
        k = r.random()
        if k < 0.6:
            root = self.ident()
        elif k < 0.8:
            root = self.member(max(d - 1, 1))
        else:
            root = self.expr(d - 1)
        chain = [self.call(d, False) for _ in range(r.choice([1, 1, 1, 2, 3]))]
        y = self.ident() if r.random() < 0.25 else NIL
        return ["MethodCall", root, chain, y]

    def member(self, d):
        r = self.rng
        k = r.random()
        if k < 0.2:
            return ["Member", NIL, 2, 1, self.ident(), NIL]           # 其 X
        root = self.expr(d - 1) if r.random() < 0.5 else self.leaf()
        if k < 0.6:
            return ["Member", root, 1, 1, self.ident(), NIL]          # root 之 X
        j = r.random()
        if j < 0.4:
            idx = self.number()
        elif j < 0.55:
            idx = self.ident()
        elif j < 0.75:
            idx = self.string()
        else:
            idx = self.expr(d - 1)
        return ["Member", root, 1, 2, NIL, idx]                       # root # idx

    def assignable(self, d):
        if self.rng.random() < 0.6 or d <= 0:
            return self.ident()
        return self.member(d)

    # -- statements
    def stmt(self, bd, in_loop=False):
        r = self.rng
        k = r.random()
        can_nest = bd > 0
        if k < 0.14:
            return self.vardecl(can_nest)
        if k < 0.26 and can_nest:
            return self.branch(bd)
        if k < 0.33 and can_nest:
            return ["While", self.expr(), self.block(bd - 1, True)]
        if k < 0.41 and can_nest:
            return ["Iterate", self.expr(), [self.ident() for _ in range(r.choice([0, 1, 1, 2]))], self.block(bd - 1, True)]
        if k < 0.48 and can_nest:
            return ["FuncDecl", self.ident(), r.choice([1, 1, 3]), self.execblock(bd - 1)]
        if k < 0.53 and can_nest:
            return self.classdecl(bd)
        if k < 0.60:
            return ["Return", self.expr()]
        if k < 0.65:
            return ["Throw", self.ident(), [self.expr() for _ in range(r.choice([1, 1, 2, 3]))]]
        if k < 0.69:
            return ["Break"]
        if k < 0.73:
            return ["Continue"]
        if k < 0.78:
            return ["Empty"]
        if k < 0.84:
            return self.method_call(r.randrange(1, 4))                  # 以 X（M） statement
        if k < 0.90:
            return ["Assign", self.assignable(2), self.expr()]
        e = self.expr()
        return e

    def vardecl(self, can_block):
        r = self.rng

        def pair():
            return [r.choice([1, 1, 3]), [self.ident() for _ in range(r.choice([1, 1, 1, 2, 3]))], self.expr()]
        if can_block and r.random() < 0.3:
            return ["VarDecl", [pair() for _ in range(r.randrange(1, 4))], "block"]
        return ["VarDecl", [pair()]]

    def block(self, bd, in_loop=False):
        n = self.rng.choice([1, 1, 2, 2, 3])
        return ["Block", [self.stmt(bd, in_loop) for _ in range(n)]]

    def branch(self, bd):
        r = self.rng
        n_other = r.choice([0, 0, 0, 1, 2])
        has_else = r.random() < 0.5
        return ["Branch", self.expr(), self.block(bd - 1), self.block(bd - 1) if has_else else NIL,
                [self.expr() for _ in range(n_other)], [self.block(bd - 1) for _ in range(n_other)], has_else]

    def execblock(self, bd, top=False):
        r = self.rng
        inputs = []
        nin = r.choice([0, 0, 1, 1])   # a second 输入 line is rejected on purpose (ast_fail_test 'multiple 已知 blocks')
        input_lines = []
        for _ in range(nin):
            ids = [self.ident() for _ in range(r.choice([1, 1, 2, 3]))]
            input_lines.append(len(ids))
            inputs.extend(ids)
        n = r.choice([1, 2, 2, 3, 4]) if not top else r.choice([1, 2, 3, 4, 5, 6])
        stmts = [self.stmt(bd) for _ in range(n)]
        catches = []
        if r.random() < 0.25:
            for _ in range(r.choice([1, 1, 2])):
                catches.append(["Catch", self.ident(), self.block(max(bd - 1, 0))])
        return ["ExecBlock", inputs, ["Block", stmts], catches, input_lines]

    def classdecl(self, bd):
        r = self.rng
        items = []
        for _ in range(r.choice([1, 2, 2, 3, 4])):
            k = r.random()
            if k < 0.5:
                items.append(["Prop", self.ident(), self.expr()])
            elif k < 0.8:
                items.append(["FuncDecl", self.ident(), 1, self.execblock(max(bd - 2, 0))])
            else:
                items.append(["FuncDecl", self.ident(), 2, self.execblock(max(bd - 2, 0))])
        return ["Class", self.ident(), items]

    def program(self):
        r = self.rng
        imports = []
        for _ in range(r.choice([0, 0, 0, 1, 2])):
            ty = r.choice([1, 2])
            imports.append(["Import", ty, Str(r.choice(["文件", "JSON", "模块甲", "工具/数学", "a-b"])),
                            [self.ident() for _ in range(r.choice([0, 0, 1, 2]))]])
        return ["Program", imports, self.execblock(self.mbd, top=True)]


# ------------------------------------------------------------------ expected tree (strip generator-only annotations)

def expected(t):
    """The tree the grammar prescribes, in the dump form of the Go harness."""
    if t == NIL or not isinstance(t, list) or not t:
        return t
    tag = t[0]
    if tag in ("ID", "Str"):
        return [tag, list(t[1])]
    if tag == "VarDecl":
        return ["VarDecl", [[p[0], [expected(i) for i in p[1]], expected(p[2])] for p in t[1]]]
    if tag == "ExecBlock":
        return ["ExecBlock", [expected(i) for i in t[1]], expected(t[2]), [expected(c) for c in t[3]]]
    if tag == "Class":
        props = [expected(i) for i in t[2] if i[0] == "Prop"]
        ms = [expected(i) for i in t[2] if i[0] == "FuncDecl" and i[2] == 1]
        gs = [expected(i) for i in t[2] if i[0] == "FuncDecl" and i[2] == 2]
        return ["Class", expected(t[1]), props, ms, gs]
    if tag == "HashMap":
        return ["HashMap", [[expected(k), expected(v)] for k, v in t[1]]]
    if tag == "Branch":
        return ["Branch", expected(t[1]), expected(t[2]), expected(t[3]), [expected(e) for e in t[4]],
                [expected(b) for b in t[5]], t[6]]
    out = [tag]
    for x in t[1:]:
        if isinstance(x, list):
            if x and isinstance(x[0], str):
                out.append(expected(x))
            else:
                out.append([expected(y) for y in x])
        else:
            out.append(x)
    return out


# ------------------------------------------------------------------ completeness of a dumped tree

def incomplete_parts(t, path="Program"):
    """List of paths at which a part required by the grammar is nil in a tree dumped by the harness."""
    bad = []

    def req(x, p):
        if x == NIL:
            bad.append(p)
        else:
            walk(x, p)

    def walk(t, p):
        if t == NIL or not isinstance(t, list) or not t:
            return
        tag = t[0]
        if tag in ("ID", "Str", "Prime", "Empty", "Break", "Continue"):
            return
        if tag == "Program":
            for i, x in enumerate(t[1]):
                req(x, p + ".Import")
            if t[2] != NIL:      # empty / import-only program: no exec block (eval.go tests for nil)
                walk(t[2], p + ".Exec")
        elif tag == "Import":
            req(t[2], p + ".Name")
            for x in t[3]:
                req(x, p + ".Item")
        elif tag == "ExecBlock":
            for x in t[1]:
                req(x, p + ".Input")
            req(t[2], p + ".StmtBlock")
            for x in t[3]:
                req(x, p + ".Catch")
        elif tag == "Catch":
            req(t[1], p + ".Class")
            req(t[2], p + ".Block")
        elif tag == "Block":
            for x in t[1]:
                req(x, p + ".Stmt")
        elif tag == "VarDecl":
            for pr in t[1]:
                for i in pr[1]:
                    req(i, p + ".Var")
                req(pr[2], p + ".AssignExpr")
        elif tag == "Branch":
            req(t[1], "Branch.IfTrueExpr")
            req(t[2], "Branch.IfTrueBlock")
            if t[6]:
                req(t[3], "Branch.IfFalseBlock")
            elif t[3] != NIL:
                walk(t[3], "Branch.IfFalseBlock")
            for x in t[4]:
                req(x, "Branch.OtherExpr")
            for x in t[5]:
                req(x, "Branch.OtherBlock")
            if len(t[4]) != len(t[5]):
                bad.append("Branch.OtherExprs/OtherBlocks length")
        elif tag == "While":
            req(t[1], "While.TrueExpr")
            req(t[2], "While.LoopBlock")
        elif tag == "Iterate":
            req(t[1], "Iterate.IterateExpr")
            for x in t[2]:
                req(x, "Iterate.IndexName")
            req(t[3], "Iterate.IterateBlock")
        elif tag == "FuncDecl":
            req(t[1], "FuncDecl.Name")
            req(t[3], "FuncDecl.ExecBlock")
        elif tag == "Return":
            req(t[1], "Return.Expr")
        elif tag == "Class":
            req(t[1], "Class.Name")
            for lst in t[2:5]:
                for x in lst:
                    req(x, "Class.Item")
        elif tag == "Prop":
            req(t[1], "Prop.ID")
            req(t[2], "Prop.InitValue")
        elif tag == "Throw":
            req(t[1], "Throw.Class")
            for x in t[2]:
                req(x, "Throw.Param")
        elif tag == "Array":
            for x in t[1]:
                req(x, "Array.Item")
        elif tag == "HashMap":
            for k, v in t[1]:
                req(k, "HashMap.Key")
                req(v, "HashMap.Value")
        elif tag == "Assign":
            req(t[1], "Assign.Target")
            req(t[2], "Assign.Expr")
        elif tag == "New":
            req(t[1], "New.Class")
            for x in t[2]:
                req(x, "New.Param")
        elif tag == "Call":
            req(t[1], "Call.Name")
            for x in t[2]:
                req(x, "Call.Param")
            if t[3] != NIL:
                walk(t[3], p)
        elif tag == "Member":
            if t[2] == 1:
                req(t[1], "Member.Root")
            if t[3] == 1:
                req(t[4], "Member.MemberID")
            elif t[3] == 2:
                req(t[5], "Member.MemberIndex")
            else:
                bad.append("Member.MemberType")
            if t[2] not in (1, 2):
                bad.append("Member.RootType")
        elif tag == "MethodCall":
            req(t[1], "MethodCall.Root")
            if not t[2]:
                bad.append("MethodCall.Chain empty")
            for x in t[2]:
                req(x, "MethodCall.Call")
        elif tag in ("Logic", "Arith"):
            req(t[2], tag + ".Left")
            req(t[3], tag + ".Right")
        else:
            bad.append("unknown node " + str(tag))

    req(t, path)
    return bad


# ------------------------------------------------------------------ rendering, pass 1: tokens

class Tok:
    __slots__ = ("text", "cls", "ty", "opener")

    def __init__(self, text, cls, ty="", opener=False):
        self.text = text
        self.cls = cls      # id bt kw str p arith pct op
        self.ty = ty        # punctuation kind: comma pause colon semi q bang lb rb lp rp lc rc
        self.opener = opener

    def __repr__(self):
        return "Tok(%r)" % self.text


class NL:
    __slots__ = ("indent", "join")

    def __init__(self, indent, join=False):
        self.indent = indent
        self.join = join      # statement boundary that MAY stay on the same physical line (around ；)


PUNCT = {"comma": ["，", ","], "pause": ["、"], "colon": ["：", ":"], "semi": ["；", ";"], "q": ["？", "?"],
         "bang": ["！", "!"], "lb": ["【", "["], "rb": ["】", "]"], "lp": ["（", "("], "rp": ["）", ")"],
         "lc": ["{"], "rc": ["}"]}
CMP = {4: ["==", "等于"], 5: ["/=", "不等于"], 6: [">", "大于"], 7: [">=", "不小于"], 8: ["<", "小于"], 9: ["<=", "不大于"],
       10: ["为"], 11: ["不为"]}
ARITH = {12: "+", 13: "-", 14: "*", 15: "/", 16: "|", 17: "%"}

LV = {"Logic1": 1, "Logic2": 2, "Cmp": 3, "Assign": 4, "AddSub": 5, "MulDiv": 6, "Member": 7}


def level(e):
    tag = e[0]
    if tag == "Logic":
        return 1 if e[1] == 1 else (2 if e[1] == 2 else 3)
    if tag == "Assign":
        return 4
    if tag == "Arith":
        return 5 if e[1] in (12, 13) else 6
    if tag == "Member":
        return 7
    return 8


def ends_open_method(e):
    """does the rendering of e (unbraced) end with an 以…（…） chain that would swallow a following 、（ ?"""
    tag = e[0]
    if tag == "MethodCall":
        return e[3] == NIL
    if tag in ("Logic", "Arith"):
        return ends_open_method(e[3])
    if tag == "Assign":
        return ends_open_method(e[2])
    return False


class Render1:
    """AST -> list of Tok / NL with synonym choices."""

    def __init__(self, rng, plain=False):
        self.rng = rng
        self.plain = plain
        self.out = []

    def pick(self, xs):
        if self.plain:
            return xs[0]
        return self.rng.choice(xs)

    def p(self, ty, opener=False):
        self.out.append(Tok(self.pick(PUNCT[ty]), "p", ty, opener))

    def kw(self, s):
        self.out.append(Tok(s, "kw"))

    def id(self, node):
        s = lit(node)
        need = any(c in KEYGLYPHS for c in s)
        if need or (not self.plain and self.rng.random() < 0.1 and all(c not in "+-" for c in s[:1])):
            self.out.append(Tok("`" + s + "`", "bt"))
        else:
            self.out.append(Tok(s, "id"))

    def string(self, node, lib=False):
        s = lit(node)
        if lib:
            self.out.append(Tok("《" + s + "》", "str"))
            return
        kinds = [("“", "”"), ("「", "」")]
        ok = []
        for a, b in kinds:
            depth = 0
            good = True
            for c in s:
                if c == a:
                    depth += 1
                elif c == b:
                    depth -= 1
                    if depth < 0:
                        good = False
                        break
            if good and depth == 0:
                ok.append((a, b))
        if not ok:
            raise ValueError("unrenderable string")
        a, b = ok[0] if self.plain else self.rng.choice(ok)
        self.out.append(Tok(a + s + b, "str"))

    # -- expressions
    def expr(self, e, minlv=1, mapctx=False):
        lv = level(e)
        extra = (not self.plain) and self.rng.random() < 0.04
        if lv < minlv or extra:
            self.p("lc")
            self.expr(e, 1, False)
            self.p("rc")
            return
        tag = e[0]
        if tag == "ID":
            self.id(e)
        elif tag == "Str":
            self.string(e)
        elif tag == "Logic":
            ty = e[1]
            if ty == 1:
                self.expr(e[2], 1, mapctx)
                self.kw("或")
                self.expr(e[3], 2, mapctx)
            elif ty == 2:
                self.expr(e[2], 2, mapctx)
                self.kw("且")
                self.expr(e[3], 3, mapctx)
            else:
                # comparisons are one level and associate from left to right like every other level (manual chapter 3,
                # BNF ‹比较表达式›): a comparison as LEFT operand of a comparison needs no braces
                self.expr(e[2], 3, mapctx)
                s = self.pick(CMP[ty])
                self.out.append(Tok(s, "kw" if ord(s[0]) > 255 else "op"))
                self.expr(e[3], 4, mapctx)
        elif tag == "Assign":
            self.expr(e[1], 7, False)
            if mapctx or (not self.plain and self.rng.random() < 0.4):
                self.kw("设为")
            else:
                self.out.append(Tok("=", "op"))
            self.expr(e[2], 5, False)
        elif tag == "Arith":
            ty = e[1]
            if ty in (12, 13):
                self.expr(e[2], 5)
                self.out.append(Tok(ARITH[ty], "arith"))
                self.expr(e[3], 6)
            else:
                self.expr(e[2], 6)
                self.out.append(Tok(ARITH[ty], "arith" if ty in (14, 15) else ("pct" if ty == 17 else "op")))
                self.expr(e[3], 7)
        elif tag == "Member":
            if e[2] == 2:
                self.kw("其")
                self.id(e[4])
            else:
                self.expr(e[1], 7)
                if e[3] == 1:
                    self.kw(self.pick(["之", "的"]))
                    self.id(e[4])
                else:
                    self.out.append(Tok("#", "op"))
                    idx = e[5]
                    if idx[0] in ("ID", "Str") and (self.plain or self.rng.random() < 0.85):
                        if idx[0] == "ID":
                            self.id(idx)
                        else:
                            self.string(idx)
                    else:
                        self.p("lc")
                        self.expr(idx, 1)
                        self.p("rc")
        elif tag == "Array":
            self.p("lb")
            for i, it in enumerate(e[1]):
                if i > 0:
                    self.out.append(Tok("", "itemsep"))
                self.expr(it, 1, True)
            self.p("rb")
        elif tag == "HashMap":
            self.p("lb")
            if not e[1]:
                self.out.append(Tok("=", "op"))
            for i, (k, v) in enumerate(e[1]):
                if i > 0:
                    self.out.append(Tok("", "pairsep"))
                self.expr(k, 5, True)
                self.out.append(Tok("=", "op"))
                self.expr(v, 1, True)
            self.p("rb")
        elif tag == "Call":
            self.p("lp")
            self.call_rest(e)
            if e[3] != NIL:
                self.kw("得到")
                self.id(e[3])
        elif tag == "New":
            self.p("lp")
            self.kw("新建")
            self.id(e[1])
            self.params(e[2])
            self.p("rp")
        elif tag == "MethodCall":
            self.kw("以")
            self.expr(e[1], 1)
            for i, c in enumerate(e[2]):
                if i > 0:
                    self.p("pause")
                self.p("lp")
                self.call_rest(c)
            if e[3] != NIL:
                self.kw("得到")
                self.id(e[3])
        else:
            raise ValueError("expr kind " + str(tag))

    def call_rest(self, c):
        self.id(c[1])
        self.params(c[2])
        self.p("rp")

    def params(self, ps):
        if ps:
            self.p("colon")
            self.pause_list(ps)

    def pause_list(self, ps):
        for i, a in enumerate(ps):
            if i > 0:
                self.p("pause")
            if i < len(ps) - 1 and ends_open_method(a):
                self.p("lc")
                self.expr(a, 1)
                self.p("rc")
            else:
                self.expr(a, 1)

    # -- statements
    def block(self, b, ind):
        self.stmts(b[1], ind)

    def is_simple(self, s):
        if s[0] in ("Branch", "While", "Iterate", "FuncDecl", "Class"):
            return False
        if s[0] == "VarDecl" and len(s) > 2:
            return False
        return True

    def stmts(self, ss, ind, first_nl=True):
        prev = None
        for i, s in enumerate(ss):
            same_line = False
            if prev is not None and not self.plain and self.is_simple(prev):
                if s[0] == "Empty" and self.rng.random() < 0.6:
                    same_line = True
                elif prev[0] == "Empty" and self.rng.random() < 0.5:
                    same_line = True
            self.out.append(NL(ind, join=same_line))
            self.stmt(s, ind)
            prev = s

    def stmt(self, s, ind):
        tag = s[0]
        if tag == "VarDecl":
            self.kw("令")
            if len(s) > 2:
                self.p("colon", opener=True)
                for pr in s[1]:
                    self.out.append(NL(ind + 1))
                    self.vdpair(pr)
            else:
                self.vdpair(s[1][0])
        elif tag == "Empty":
            self.p("semi")
        elif tag == "Branch":
            self.kw("如果")
            self.expr(s[1])
            self.p("colon", opener=True)
            self.block(s[2], ind + 1)
            for e, b in zip(s[4], s[5]):
                self.out.append(NL(ind))
                self.kw("再如")
                self.expr(e)
                self.p("colon", opener=True)
                self.block(b, ind + 1)
            if s[6]:
                self.out.append(NL(ind))
                self.kw("否则")
                self.p("colon", opener=True)
                self.block(s[3], ind + 1)
        elif tag == "While":
            self.kw("每当")
            self.expr(s[1])
            self.p("colon", opener=True)
            self.block(s[2], ind + 1)
        elif tag == "Iterate":
            if s[2]:
                self.kw("以")
                for i, x in enumerate(s[2]):
                    if i > 0:
                        self.p("pause")
                    self.id(x)
            self.kw("遍历")
            self.expr(s[1])
            self.p("colon", opener=True)
            self.block(s[3], ind + 1)
        elif tag == "FuncDecl":
            self.funcdecl(s, ind)
        elif tag == "Return":
            self.kw("输出")
            self.expr(s[1])
        elif tag == "Class":
            self.kw("定义")
            self.id(s[1])
            self.p("colon", opener=True)
            for it in s[2]:
                self.out.append(NL(ind + 1))
                if it[0] == "Prop":
                    self.kw("其")
                    self.id(it[1])
                    if self.pick([0, 1]):
                        self.kw("设为")
                    else:
                        self.out.append(Tok("=", "op"))
                    self.expr(it[2])
                else:
                    self.funcdecl(it, ind + 1)
        elif tag == "Throw":
            self.kw("抛出")
            self.id(s[1])
            self.p("colon")
            self.pause_list(s[2])
            self.p("bang")
        elif tag == "Break":
            self.kw("结束循环")
        elif tag == "Continue":
            self.kw("继续循环")
        elif tag == "MethodCall":
            self.expr(s, 1)
        else:
            # expression statement; one that would START with 以 but is not a bare method call must be braced,
            # because the parser commits to ‹以之语句›
            probe = Render1(self.rng, True)
            probe.expr(s, 1)
            if probe.out and probe.out[0].text == "以":
                self.p("lc")
                self.expr(s, 1)
                self.p("rc")
            else:
                self.expr(s, 1)

    def funcdecl(self, s, ind):
        if s[2] == 2:
            self.kw("何为")
        else:
            self.kw("如何")
            if s[2] == 3:
                self.kw("新建")
        self.id(s[1])
        self.p("q", opener=True)
        self.execblock(s[3], ind + 1)

    def vdpair(self, pr):
        for i, x in enumerate(pr[1]):
            if i > 0:
                self.p("pause")
            self.id(x)
        if pr[0] == 3:
            self.kw("恒为")
        elif self.pick([0, 1]):
            self.kw("设为")
        else:
            self.out.append(Tok("=", "op"))
        self.expr(pr[2])

    def execblock(self, x, ind):
        ids = list(x[1])
        lines = x[4] if len(x) > 4 else ([len(ids)] if ids else [])
        for n in lines:
            self.out.append(NL(ind))
            self.kw("输入")
            for i in range(n):
                if i > 0:
                    self.p("pause")
                self.id(ids.pop(0))
        self.stmts(x[2][1], ind)
        for c in x[3]:
            self.out.append(NL(ind))
            self.kw("拦截")
            self.id(c[1])
            self.p("colon", opener=True)
            self.block(c[2], ind + 1)

    def program(self, pg):
        for im in pg[1]:
            self.out.append(NL(0))
            self.kw("导入")
            self.string(im[2], lib=(im[1] == 1))
            if im[3]:
                self.kw(self.pick(["之", "的"]))
                for i, x in enumerate(im[3]):
                    if i > 0:
                        self.p("pause")
                    self.id(x)
        if pg[2] != NIL:
            self.execblock(pg[2], 0)
        return self.out


# ------------------------------------------------------------------ rendering, pass 2: layout

class Layout:
    def __init__(self, rng, plain=False, **opt):
        self.rng = rng
        self.plain = plain
        r = rng
        if plain:
            self.unit, self.eols = "    ", ["\n"]
            self.p_space = self.p_comma = self.p_comment = self.p_break = self.p_blank = 0.0
        else:
            self.unit = r.choice(["    ", "\t"])
            k = r.random()
            self.eols = [r.choice(["\n", "\r", "\r\n"])] if k < 0.8 else (["\n\r"] if k < 0.85 else ["\n", "\r", "\r\n"])
            self.p_space = r.choice([0.0, 0.3, 0.7])
            self.p_comma = r.choice([0.0, 0.0, 0.1, 0.3])
            self.p_comment = r.choice([0.0, 0.0, 0.05, 0.15])
            self.p_break = r.choice([0.0, 0.0, 0.2, 0.6])
            self.p_blank = r.choice([0.0, 0.1, 0.3])
        for k, v in opt.items():
            setattr(self, k, v)

    def eol(self):
        return self.rng.choice(self.eols)

    def ws(self):
        r = self.rng
        k = r.random()
        if k < 0.8:
            return " "
        if k < 0.9:
            return "  "
        return r.choice(["　", "\t", " ", " \t "])

    COMMENT_TEXT = ["说明", "x = 1", "如果A为B：", "“引”", "「内」", "`反引`", "a，b；c", "", "TODO // 再看", "令X = 【1，2】"]

    def line_comment(self):
        r = self.rng
        t = r.choice(self.COMMENT_TEXT)
        if r.random() < 0.5:
            return "//" + t
        return "注" + r.choice(["", "1", "23"]) + "：" + (" " + t if t[:1] and t[:1] in "“「" else t)

    def inline_comment(self, multiline=False):
        r = self.rng
        t = r.choice(self.COMMENT_TEXT).replace("*/", "")
        if multiline:
            t = t + self.eol() + r.choice(["", "  ", "\t", "      "]) + r.choice(self.COMMENT_TEXT).replace("*/", "")
        k = r.random()
        if k < 0.5:
            if r.random() < 0.3:
                # banner style: runs of '*' next to the opening and the closing mark, and inside the text
                t = r.choice(["", "*", "**", "* ", "***"]) + t + r.choice(["", " ** ", "*a"]) + r.choice(["*", "**", " *", "***", " ****", ""])
            return "/*" + t + "*/"
        t = t.replace("“", "").replace("”", "").replace("「", "").replace("」", "")
        if k < 0.75:
            return "注" + r.choice(["", "7"]) + "：“" + t + "”"
        return "注：「" + t + "」"

    def need_space(self, a, b):
        if a.cls == "arith":
            return True
        if a.cls == "id" and b.cls in ("id", "bt", "str", "arith", "pct"):
            return True
        return False

    def newline(self, indent, first=False):
        """text between two logical lines: optional trailing comment, EOL, blank / comment lines, indentation"""
        r = self.rng
        s = ""
        if not first:
            if r.random() < self.p_comment:
                s += self.ws() + self.line_comment()
            elif r.random() < self.p_space * 0.2:
                s += " "
            s += self.eol()
        while r.random() < self.p_blank:
            k = r.random()
            if k < 0.5:
                s += self.eol()
            else:
                s += self.unit * r.randrange(0, 4)
                if k < 0.8:
                    s += self.line_comment()
                else:
                    s += self.inline_comment(multiline=r.random() < 0.5)
                s += self.eol()
        s += self.unit * indent
        return s

    def render(self, items):
        """returns (text, pieces) where pieces = list of (kind, text), kind in tok|sep, for corruption"""
        r = self.rng
        pieces = []
        prev = None
        first = True
        self.cur_indent = 0
        n = len(items)
        i = 0
        while i < n:
            it = items[i]
            if isinstance(it, NL) and it.join and self.cur_indent == it.indent:
                i += 1
                continue
            if isinstance(it, NL):
                self.cur_indent = it.indent
                lead = ""
                if first and not self.plain and r.random() < 0.15:
                    lead = self.eol() * r.randrange(1, 3)
                pieces.append(("sep", lead + self.newline(it.indent, first)))
                first = False
                prev = None
                i += 1
                continue
            if it.cls in ("itemsep", "pairsep"):
                # separator between list / dictionary items: spaces or one comma
                nxt = items[i + 1]
                k = r.random()
                if self.plain or k < 0.6:
                    sep = Tok("，" if self.plain else r.choice(["，", ","]), "p", "comma")
                    pieces.append(("sep", self.gap(prev, sep, no_comma=True)))
                    pieces.append(("tok", sep.text))
                    prev = sep
                # else: whitespace only (forced below when needed)
                # (the pairs of a dictionary literal may also follow each other on lines of their own without a comma)
                g = self.gap(prev, nxt, no_comma=True, force_space=(prev.ty != "comma"),
                             pair_break=(it.cls == "pairsep" and prev.ty != "comma" and not self.plain))
                pieces.append(("sep", g))
                pieces.append(("tok", nxt.text))
                if "\n" in nxt.text or "\r" in nxt.text:
                    self.cur_indent = 0
                prev = nxt
                i += 2
                continue
            if prev is not None:
                pieces.append(("sep", self.gap(prev, it)))
            pieces.append(("tok", it.text))
            if "\n" in it.text or "\r" in it.text:
                self.cur_indent = 0
            prev = it
            i += 1
        tail = ""
        if not self.plain:
            k = r.random()
            if k < 0.5:
                tail = self.eol()
            elif k < 0.6:
                tail = self.ws() + self.line_comment()
            elif k < 0.7:
                tail = self.eol() + self.eol()
        pieces.append(("sep", tail))
        return "".join(t for _, t in pieces), pieces

    def gap(self, a, b, no_comma=False, force_space=False, pair_break=False):
        r = self.rng
        if a is None:
            return ""
        s = ""
        need = self.need_space(a, b) or force_space
        if need or r.random() < self.p_space:
            s += self.ws()
        near_semi = a.ty == "semi" or b.ty == "semi"
        comma_ok = (not no_comma and not near_semi and a.ty != "comma" and b.ty != "comma" and not a.opener)
        put_comma = comma_ok and r.random() < self.p_comma
        if put_comma:
            s += r.choice(["，", ","])
            if r.random() < self.p_space:
                s += self.ws()
        last_ty = "comma" if put_comma else a.ty
        if r.random() < self.p_comment and not (a.cls == "id" and not s):
            s += self.inline_comment()
            if r.random() < 0.5:
                s += " "
        can_break = (last_ty in ("comma", "pause", "lc", "lb", "colon", "q") or b.ty in ("rb", "rc") or pair_break) and not a.opener
        if can_break and r.random() < (max(self.p_break, 0.5) if pair_break else self.p_break):
            k = r.random()
            ind = self.unit * r.randrange(0, 4)
            if k < 0.8:
                if r.random() < self.p_comment:
                    s += " " + self.line_comment()
                s += self.eol()
                while r.random() < self.p_blank * 0.5:
                    s += self.eol()
                s += ind
                self.cur_indent = len(ind) // len(self.unit)
            else:
                s += " " + self.inline_comment(multiline=True) + r.choice(["", " "])
                self.cur_indent = 0
        elif need and not s:
            s = " "
        # a 注-comment directly after an identifier would be read as part of the identifier
        if a.cls == "id" and s.startswith("注"):
            s = " " + s
        return s


def render(rng, prog, plain=False, **opt):
    items = Render1(rng, plain).program(prog)
    return Layout(rng, plain, **opt).render(items)


# ------------------------------------------------------------------ physical lines (spec for the error display)

def split_lines(src):
    """physical lines of a text: breaks are CRLF | LFCR | CR | LF, scanned left to right"""
    lines = []
    cur = []
    starts = [0]
    i = 0
    n = len(src)
    while i < n:
        c = src[i]
        if c in "\r\n":
            if i + 1 < n and src[i + 1] in "\r\n" and src[i + 1] != c:
                i += 1
            lines.append("".join(cur))
            cur = []
            starts.append(i + 1)
        else:
            cur.append(c)
        i += 1
    lines.append("".join(cur))
    return lines, starts


def line_of(src, pos):
    """index of the physical line containing position pos (a position on a line break belongs to the line it ends)"""
    lines, starts = split_lines(src)
    k = 0
    for j, st in enumerate(starts):
        if st <= pos:
            k = j
    # position inside the break that ends line k-1 ?  (only for CRLF second char)
    return k, lines
