# C09 — Exceptions reach the nearest matching handler and unwind cleanly.
from vlib import core, semprop, proggen
from vlib.semgen import *

HARNESS = "sem"
CLAIM = dict(
    text=("Theorems (coq/props/C09.v): a body (program or method) whose statements raise — 抛出, a failing built-in, a runtime fault — "
          "ends, for every fuel/state/nesting, either with the handler's 输出 value (空 if none) in a state whose call stack, block depth "
          "and symbol-stack shape are those at entry (body_balanced: handled exception = normal return for the caller), or with the "
          "unchanged error above the caller's frames; the handler chosen is the first of the nearest body whose class matches; runtime "
          "faults are exceptions of class 异常; no matching handler propagates the error unchanged; a raise skips the rest of the block "
          "(outcome semantics). Tie: generated programs with raise points x handler placements x class matches (custom exception "
          "types), followed by statements that read caller state, executed by the interpreter and by the model in Coq incl. call-stack "
          "length and scope depth after the run; a handler family in which the handler uses its body's inputs, 此 and the methods "
          "of its own module after faults raised by statements, built-in methods and called methods at two depths."),
    note=semprop.TB + "one module only; exception message texts of runtime faults are Go-defined and compared as wildcards.",
    technique="Coq proof (balance invariant incl. frame unwinding at handlers, induction on fuel) + model/implementation correspondence",
    design="5/C09")

PROFILES = [
    (3, proggen.Profile(exceptions=3.0, funcs=2.0, classes=1.2, control=0.8, collections=0.4, markers=0.7, type_errors=0.02)),
    (1, proggen.Profile(exceptions=2.0, funcs=1.5, classes=1.5, control=1.5, markers=0.5)),
]


def witnesses():
    w = []
    # an exception raised inside a loop (over a dictionary, over a list, 每当) — directly, in a nested block, in a called method —
    # leaves the loop and reaches the handler of the body (or ends the program); nothing after the loop runs
    # a fault while a definition of the body is being set up (a property default that fails, a name defined twice) is a fault of
    # that body: its handler sees it
    w.append((([], [Func("F", [], [Class("Cq", [("P", Arith("/", Num(1), Num(0)))], []), Display(Str("body")), Return(Num(1))],
                         [("异常", [Display(Str("h")), Return(Num(2))])]),
                    Display(Call("F", [])), Return(Num(0))], []), None, "witness"))
    w.append((([], [Func("G", [], [Func("In", [], [Return(Num(1))]), Func("In", [], [Return(Num(2))]), Display(Str("body")), Return(Num(3))],
                         [("异常", [Display(Str("h")), Return(Num(4))])]),
                    Display(Call("G", [])), Return(Num(0))], []), None, "witness"))
    thrower = Func("T", [], [Throw("异常", [Str("t")]), Return(Num(1))], [])
    for target in (Map([("a", Num(1)), ("b", Num(2))]), Arr([Num(1), Num(2)])):
        for inner in ([Throw("异常", [Str("x")])], [Branch(Logic("eq", Var("V"), Num(2)), [Throw("异常", [Str("y")])])], [ExprS(Call("T", []))]):
            for catches in ([], [("异常", [Display(Str("h"), ThisProp("内容")), Return(Num(5))])]):
                w.append((([], [thrower, Iter(target, ["K", "V"], [Display(Var("K"))] + inner + [Display(Str("rest"))]), Display(Str("after")), Return(Num(0))],
                           catches), None, "witness"))
    # runtime fault caught in program body and in a method; handler without 输出; 其内容; nested: G catches F's throw then caller continues
    w.append((([], [Decl([(False, ["A"], Arith("/", Num(1), Num(0)))]), Return(Var("A"))], [("异常", [Return(Str("caught"))])]), None, "witness"))
    w.append((([], [Func("F", [], [Decl([(False, ["A"], Arith("/", Num(1), Num(0)))]), Return(Num(1))], [("异常", [Display(Str("h"))])]),
                    Decl([(False, ["R"], Call("F", []))]), Display(Var("R")), Return(Var("R"))], []), None, "witness"))
    w.append((([], [Func("F", [], [Throw("异常", [Str("boom")])], []),
                    Func("G", [], [ExprS(Call("F", [])), Return(Num(1))], [("异常", [Return(ThisProp("内容"))])]),
                    Class("C", [("P", Num(7))], [("M", [], [Decl([(False, ["R"], Call("G", []))]), Return(Arr([Var("R"), ThisProp("P")]))], [])]),
                    Decl([(False, ["O"], New("C", []))]), Decl([(False, ["X"], Method(Var("O"), [("M", [])]))]),
                    Display(Var("X")), Decl([(False, ["Y"], Arith("/", Num(1), Num(0)))]), Return(Var("Y"))], []), None, "witness"))
    return w


def handler_program(rng):
    """the handler of a body runs as part of that body — it sees the body's inputs, 此's properties and the methods of its own
    module — wherever the exception came from: a statement of the body, a built-in method that failed, a method the body
    called (at any depth), a constructor; and its 输出 value (空 without one) is the body's value"""
    thrown = [False]

    def fault(depth):
        k = rng.randrange(6)
        if k == 0:
            return [Decl([(False, ["Vz"], Arith("/", Num(1), Num(0)))])]
        if k == 1:
            return [Decl([(False, ["Vl"], Arr([Num(1), Num(2)]))]), ExprS(Method(Var("Vl"), [("交换", [Num(0), Num(9)])]))]
        if k == 2:
            return [Decl([(False, ["Vd"], Map([("k", Num(1))]))]), Display(Index(Var("Vd"), Str("nokey")))]
        if k == 3:
            thrown[0] = True
            return [Throw("异常", [Str(rng.choice(["boom", "已用100%的额度", "%s%d", "50%"]))])]
        if k == 4:
            return [Decl([(False, ["Vl"], Arr([Num(1)]))]), ExprS(Method(Var("Vl"), [("新增", [Num(5), Str("x")])]))]
        return [Display(Call("Fdeep%d" % depth, []))]
    defs = [Func("Fk", ["Kx"], [Display(Str("k"), Var("Kx")), Return(Arith("+", Var("Kx"), Num(100)))], []),
            Func("Fdeep0", [], [ExprS(Index(Arr([Num(1)]), Num(7))), Return(Num(0))], []),
            Func("Fdeep1", [], [Display(Call("Fdeep0", [])), Return(Num(0))], [])]
    handler = [Display(Str("h"), Var("Pa"), Var("Pb"))]
    if rng.random() < 0.7:
        handler.append(Display(Call("Fk", [Var("Pa")])))
    if rng.random() < 0.6:
        handler.append(Return(rng.choice([Var("Pb"), Call("Fk", [Num(1)]), Str("handled")])))
    elif rng.random() < 0.5:
        handler.append(ExprS(Arith("+", Var("Pa"), Num(1))))       # a last statement with a value, but no 输出: the body yields 空
    body = [Display(Str("b"), Var("Pa"))] + fault(rng.randrange(2)) + [Display(Str("unreachable")), Return(Num(-1))]
    if thrown[0]:
        # the message of a thrown exception is the text it was thrown with (the texts of runtime faults are not judged)
        handler.insert(1, Display(ThisProp("内容")))
    how = rng.randrange(3)
    if how == 0:
        defs.append(Func("Fh", ["Pa", "Pb"], body, [("异常", handler)]))
        use = [Decl([(False, ["Vr"], Call("Fh", [Num(rng.randrange(1, 9)), Str("pb")]))])]
    elif how == 1:
        hb = handler + [Display(ThisProp("Pp"))] if rng.random() < 0.5 else handler
        defs.append(Class("Ch", [("Pp", Num(5))], [("Mh", ["Pa", "Pb"], body, [("异常", hb)])]))
        use = [Decl([(False, ["Vo"], New("Ch", []))]), Decl([(False, ["Vr"], Method(Var("Vo"), [("Mh", [Num(3), Str("pb")])]))])]
    else:
        defs.append(Func("Fh", ["Pa", "Pb"], body, [("异常", handler)]))
        defs.append(Func("Fouter", [], [Decl([(False, ["Vi"], Call("Fh", [Num(2), Str("pb")]))]), Display(Str("outer"), Var("Vi")),
                                          Return(Var("Vi"))], []))
        use = [Decl([(False, ["Vr"], Call("Fouter", []))])]
    main = defs + use + [Display(Str("after"), Var("Vr")), Display(Call("Fk", [Num(2)])), Return(Var("Vr"))]
    return ([], main, [])


def run(chk, replay=None):
    extra = witnesses()
    if replay is None:
        extra += [(handler_program(chk.rng), None, "handler-sees-its-body") for _ in range(40 if chk.tier == "quick" else 500)]
    semprop.run_property(chk, "C09", "c09", PROFILES, 110, 1500, replay=replay, extra_programs=extra,
                         what="exception propagation / unwinding differs from the documented behaviour")
