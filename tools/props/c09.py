# C09 — Exceptions reach the nearest matching handler and unwind cleanly.
from vlib import core, semprop, proggen
from vlib.semgen import *

HARNESS = "sem"
CLAIM = dict(
    text=("Theorems (coq/props/C09.v): a body (program or method) whose statements raise — 抛出, a failing built-in, a runtime fault — "
          "ends, for every fuel/state/nesting, either with the handler's 输出 value (空 if none) in a state whose call stack, block depth "
          "and symbol-stack shape are those at entry (body_balanced: handled exception = normal return for the caller), or with the "
          "unchanged error above the caller's frames; the handler chosen is the first of the nearest body whose class matches; runtime "
          "faults are exceptions of class 异常; no matching handler propagates the error unchanged; a raise skips the rest of the block "
          "(outcome semantics). Tie: generated programs with raise points x handler placements x class matches (custom exception "
          "types), followed by statements that read caller state, executed by the interpreter and by the model in Coq incl. call-stack "
          "length and scope depth after the run."),
    note=semprop.TB + "one module only; exception message texts of runtime faults are Go-defined and compared as wildcards.",
    technique="Coq proof (balance invariant incl. frame unwinding at handlers, induction on fuel) + model/implementation correspondence",
    design="5/C09")

PROFILES = [
    (3, proggen.Profile(exceptions=3.0, funcs=2.0, classes=1.2, control=0.8, collections=0.4, markers=0.7, type_errors=0.02)),
    (1, proggen.Profile(exceptions=2.0, funcs=1.5, classes=1.5, control=1.5, markers=0.5)),
]


def witnesses():
    w = []
    # runtime fault caught in program body and in a method; handler without 输出; 其内容; nested: G catches F's throw then caller continues
    w.append((([], [Decl([(False, ["A"], Arith("/", Num(1), Num(0)))]), Return(Var("A"))], [("异常", [Return(Str("caught"))])]), None, "witness"))
    w.append((([], [Func("F", [], [Decl([(False, ["A"], Arith("/", Num(1), Num(0)))]), Return(Num(1))], [("异常", [Display(Str("h"))])]),
                    Decl([(False, ["R"], Call("F", []))]), Display(Var("R")), Return(Var("R"))], []), None, "witness"))
    w.append((([], [Func("F", [], [Throw("异常", [Str("boom")])], []),
                    Func("G", [], [ExprS(Call("F", [])), Return(Num(1))], [("异常", [Return(ThisProp("内容"))])]),
                    Class("C", [("P", Num(7))], [("M", [], [Decl([(False, ["R"], Call("G", []))]), Return(Arr([Var("R"), ThisProp("P")]))], [])]),
                    Decl([(False, ["O"], New("C", []))]), Decl([(False, ["X"], Method(Var("O"), [("M", [])]))]),
                    Display(Var("X")), Decl([(False, ["Y"], Arith("/", Num(1), Num(0)))]), Return(Var("Y"))], []), None, "witness"))
    return w


def run(chk, replay=None):
    semprop.run_property(chk, "C09", "c09", PROFILES, 140, 1500, replay=replay, extra_programs=witnesses(),
                         what="exception propagation / unwinding differs from the documented behaviour")
