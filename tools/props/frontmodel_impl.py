# Evaluate coq/model/Parser.v (compile_encode) inside Coq on source texts and compare with the real parser's outcome.
from vlib import core

IMPORTS = ("From Coq Require Import List ZArith Bool. Import ListNotations.\n"
           "From Zn.model Require Import Lexer Ast Parser.")
RUN = "compile_encode"
NIL = "nil"
BAD = [-1]


def lit(node):
    if node == NIL:
        return BAD
    return [len(node[1])] + list(node[1])


def opt(f, x):
    return [0] if x == NIL else [1] + f(x)


def exprs(xs):
    out = [len(xs)]
    for x in xs:
        out += expr(x)
    return out


def call(c):
    if c == NIL:
        return BAD
    return [7] + lit(c[1]) + exprs(c[2]) + opt(lit, c[3])


def expr(e):
    if e == NIL:
        return BAD
    t = e[0]
    if t == "ID":
        return [1] + lit(e)
    if t == "Str":
        return [2] + lit(e)
    if t == "Array":
        return [3] + exprs(e[1])
    if t == "HashMap":
        out = [4, len(e[1])]
        for k, v in e[1]:
            out += expr(k) + expr(v)
        return out
    if t == "Assign":
        return [5] + expr(e[1]) + expr(e[2])
    if t == "New":
        return [6] + lit(e[1]) + exprs(e[2])
    if t == "Call":
        return call(e)
    if t == "Member":
        return [8] + opt(expr, e[1]) + [e[2], e[3]] + opt(lit, e[4]) + opt(expr, e[5])
    if t == "MethodCall":
        out = [9] + expr(e[1]) + [len(e[2])]
        for c in e[2]:
            out += call(c)
        return out + opt(lit, e[3])
    if t == "Logic":
        return [10, e[1]] + expr(e[2]) + expr(e[3])
    if t == "Arith":
        return [11, e[1]] + expr(e[2]) + expr(e[3])
    return BAD


def block(b):
    if b == NIL:
        return BAD
    out = [len(b[1])]
    for s in b[1]:
        out += stmt(s)
    return out


def execblock(x):
    if x == NIL:
        return BAD
    out = [40, len(x[1])]
    for i in x[1]:
        out += lit(i)
    out += block(x[2])
    out += [len(x[3])]
    for c in x[3]:
        if c == NIL:
            out += BAD
        else:
            out += lit(c[1]) + block(c[2])
    return out


def funcdecl(s):
    if s == NIL:
        return BAD
    return [27] + lit(s[1]) + [s[2]] + execblock(s[3])


def stmt(s):
    if s == NIL:
        return BAD
    t = s[0]
    if t == "VarDecl":
        out = [20, len(s[1])]
        for ty, ids, e in s[1]:
            out += [ty, len(ids)]
            for i in ids:
                out += lit(i)
            out += expr(e)
        return out
    if t == "Empty":
        return [21]
    if t == "Branch":
        out = [22] + opt(expr, s[1]) + opt(block, s[2]) + opt(block, s[3]) + exprs(s[4]) + [len(s[5])]
        for b in s[5]:
            out += block(b)
        return out + [1 if s[6] else 0]
    if t == "While":
        return [23] + expr(s[1]) + block(s[2])
    if t == "Iterate":
        out = [24] + expr(s[1]) + [len(s[2])]
        for i in s[2]:
            out += lit(i)
        return out + block(s[3])
    if t == "Break":
        return [25]
    if t == "Continue":
        return [26]
    if t == "FuncDecl":
        return funcdecl(s)
    if t == "Return":
        return [28] + expr(s[1])
    if t == "Class":
        out = [29] + lit(s[1]) + [len(s[2])]
        for p in s[2]:
            out += (BAD if p == NIL else lit(p[1]) + expr(p[2]))
        out += [len(s[3])]
        for m in s[3]:
            out += funcdecl(m)
        out += [len(s[4])]
        for m in s[4]:
            out += funcdecl(m)
        return out
    if t == "Throw":
        return [30] + lit(s[1]) + exprs(s[2])
    if t in ("Import", "Block", "Prop"):
        return BAD
    return expr(s)


def program(p):
    out = [42, len(p[1])]
    for im in p[1]:
        if im == NIL:
            out += BAD
            continue
        out += [41, im[1]] + lit(im[2]) + [len(im[3])]
        for i in im[3]:
            out += lit(i)
    return out + opt(execblock, p[2])


def impl_encoding(out):
    if out.get("hang"):
        return [[3, 0, 0, 0], [], []]
    if "panic" in out or "crash" in out:
        return [[2, 0, 0, 0], [], []]
    if out.get("ok"):
        ls = []
        for ind, st in out["lines"]:
            ls += [ind, st]
        return [[1, 0, 0, out.get("indent_type", 0)], ls, program(out["tree"])]
    if out.get("class") == "syntax":
        return [[0, out.get("code"), out.get("cursor"), 0], [], []]
    return [[2, 0, 0, 0], [], []]


def describe(enc):
    h = enc[0]
    return {1: "tree", 0: "error code=%s cursor=%s" % (h[1], h[2]), 2: "crash", 3: "no termination"}.get(h[0], "?")


def compare(chk, texts, outs, pid):
    terms = [core.zlist([ord(c) for c in t]) for t in texts]
    res = core.coq_run_cases(pid.lower() + "m", IMPORTS, RUN, terms, ty="list (list Z)", shard=60, timeout=900, jobs=6)
    out = []
    for t, o, m in zip(texts, outs, res):
        chk.dist("model:compared")
        imp = impl_encoding(o)
        if m[0][0] == 3:
            chk.dist("model:out-of-fuel")
        if imp == m:
            continue
        if imp[0][0] != m[0][0]:
            sig = "model-mismatch:%s-vs-%s" % (describe(imp).split(" ")[0], describe(m).split(" ")[0])
            out.append((sig, "implementation gives %s, the model of the repaired front end gives %s on %r" % (describe(imp), describe(m), t[:120]), t))
        elif imp[0][0] == 0:
            out.append(("model-mismatch:error", "implementation: %s, model: %s on %r" % (describe(imp), describe(m), t[:120]), t))
        elif imp[2] != m[2]:
            out.append(("model-mismatch:tree", "implementation and model return different trees on %r" % t[:120], t))
        else:
            out.append(("model-mismatch:lines", "same tree, different line table / indent type on %r: impl %s model %s" % (t[:80], imp[:2], m[:2]), t))
    return out


# ------------------------------------------------------------------ the error printer (model/ErrDisplay.v)
IMPORTS_D = IMPORTS + "\nFrom Zn.model Require Import ErrDisplay."
RUN_D = "fun t : list Z * list Z * Z => display_encode (fst (fst t)) (snd (fst t)) (snd t)"


def parse_display(disp):
    """-> (line number, quoted text, blanks before ^) or None"""
    import re
    m = re.match(r"在主模块中，位于第 (\d+) 行发生异常：\n", disp)
    tail = disp.rfind("\n\n语法错误")
    if not m or tail < 0:
        return None
    body = disp[m.end():tail]
    k = body.rfind("\n")
    if k < 0 or not body.startswith("    ") or not body[k + 1:].startswith("    ") or not body.endswith("^"):
        return None
    return int(m.group(1)), body[4:k], len(body[k + 1:]) - 5


def compare_display(chk, texts, outs):
    sel = [(t, o) for t, o in zip(texts, outs) if not o.get("ok") and o.get("class") == "syntax" and "lines" in o
           and ("display" in o or "display_panic" in o)]
    terms = []
    for t, o in sel:
        ls = []
        for ind, st in o["lines"]:
            ls += [ind, st]
        terms.append("(%s, %s, %d)" % (core.zlist([ord(c) for c in t]), core.zlist(ls), o["cursor"]))
    if not terms:
        return []
    res = core.coq_run_cases("c05d", IMPORTS_D, RUN_D, terms, ty="list Z", shard=150, timeout=600, jobs=4)
    out = []
    for (t, o), m in zip(sel, res):
        chk.dist("display-model:compared")
        if "display_panic" in o:
            imp = [0]
        else:
            pd = parse_display("".join(chr(c) for c in o["display"]))
            imp = None if pd is None else [1, pd[0], pd[2]] + [ord(c) for c in pd[1]]
        if imp != m:
            out.append(("model-mismatch:display", "rendered error differs from the printer model on %r: implementation %s, model %s"
                        % (t[:100], str(imp)[:120], str(m)[:120]), t))
    return out
