# C08 — Method calls and objects bind arguments, receivers and results correctly.
from vlib import core, semprop, proggen
from vlib.semgen import *

HARNESS = "sem"
CLAIM = dict(
    text=("Theorems (coq/props/C08.v): for every fuel, state and expression — any call, method chain or 新建, at any recursion depth — "
          "a finished evaluation leaves exactly the caller's call stack, block depth and 其, and only adds symbols of the caller's current "
          "block (eval_expr_balanced, by induction over the mutually recursive evaluator); a failed one leaves the caller's frames under the "
          "frames of the calls in progress; arguments are evaluated once, left to right; an arity mismatch runs nothing of the body; property "
          "writes touch one object; unknown members are errors. Tie: generated programs with methods, types, default properties, "
          "constructors, methods calling methods, 得到, chains, and object histories (objects of one type created at different times, updated in "
          "place — 自增, 后增, key writes — from outside and by their own methods, every object displayed after every step), executed by the interpreter and by the model in Coq (result, display trace, "
          "error code, call-stack length, scope depth)."),
    note=semprop.TB + ("one module only (imports are C15); getters (何为) are not modelled; numbers have no identity in the model: 自增 / 自减 "
                       "are modelled for receivers that are values of their own (literals, operator results: Sem.num_method); on stored numbers "
                       "the in-place updates are generated for number properties only and emitted to the model as the read-add-assign "
                       "they equal when the property's Number is not aliased (the generator only assigns such properties fresh values and "
                       "never passes them bare to calls, mutators, 输出 or 得到)."),
    technique="Coq proof (control-state balance invariant by induction on fuel) + model/implementation correspondence",
    design="5/C08")

PROFILES = [
    (3, proggen.Profile(funcs=2.5, classes=2.5, control=0.6, exceptions=0.3, collections=0.5, markers=0.6, type_errors=0.01)),
    (1, proggen.Profile(funcs=2.0, classes=2.0, exceptions=1.0, markers=0.5)),
]


def witnesses():
    w = []
    # a call whose handler executes a loop signal fails with an error: it never yields a signal to the caller's loop, and the
    # method that called it keeps its own frame (其) afterwards
    for sig in (Break(), Continue()):
        w.append((([], [Func("F", [], [Throw("异常", [Str("x")]), Return(Num(1))], [("异常", [sig])]),
                        Class("C", [("P", Num(7))],
                              [("Run", [], [Decl([(False, ["I"], Num(0))]),
                                            While(Logic("lt", Var("I"), Num(2)), [ExprS(AssignVar("I", Arith("+", Var("I"), Num(1)))), Display(Str("in"), Var("I")),
                                                                                  ExprS(Call("F", [])), Display(Str("after-call"))]),
                                            Return(ThisProp("P"))], [("异常", [Display(Str("caught"), ThisProp("P")), Return(ThisProp("P"))])])]),
                        Decl([(False, ["O"], New("C", []))]), Display(Method(Var("O"), [("Run", [])])), Return(Member(Var("O"), "P"))], []), None, "witness"))
    # a failure handled twice: the callee's own handler ends with an error, an outer method's handler catches that one and
    # completes; the method that called the outer one then goes on with its own 其 and return slot
    for rethrow in ([Throw("异常", [Str("again")])], [Display(Arith("/", Num(1), Num(0)))]):
        w.append((([], [Func("Inner", [], [Throw("异常", [Str("first")]), Return(Num(1))], [("异常", [Display(Str("h1"))] + rethrow)]),
                        Func("Outer", [], [Display(Call("Inner", [])), Return(Num(2))], [("异常", [Display(Str("h2")), Return(Num(3))])]),
                        Class("C", [("P", Num(7))],
                              [("Run", [], [Display(Str("run"), ThisProp("P")), Decl([(False, ["V"], Call("Outer", []))]),
                                            ExprS(AssignThis("P", Arith("+", ThisProp("P"), Var("V")))), Display(Str("after"), ThisProp("P")),
                                            Return(ThisProp("P"))], [])]),
                        Decl([(False, ["O"], New("C", []))]), Display(Method(Var("O"), [("Run", [])])), Display(Member(Var("O"), "P")),
                        Display(Method(Var("O"), [("Run", [])])), Return(Member(Var("O"), "P"))], []), None, "witness"))
    # recursion, 得到, chain, 其 in nested method calls
    w.append((([], [Func("Fact", ["N"], [Branch(Logic("lte", Var("N"), Num(1)), [Return(Num(1))]),
                                         Return(Arith("*", Var("N"), Call("Fact", [Arith("-", Var("N"), Num(1))])))]),
                    ExprS(Call("Fact", [Num(10)], "R")), Display(Var("R")), Return(Var("R"))], []), None, "witness"))
    w.append((([], [Class("C", [("P", Num(1)), ("Q", Arr([Num(1)]))],
                          [("Inc", ["X"], [ExprS(AssignThis("P", Arith("+", ThisProp("P"), Var("X")))), Return(ThisProp("P"))], []),
                           ("Twice", ["X"], [ExprS(Method(Var("此"), [("Inc", [Var("X")])])), Return(Method(Var("此"), [("Inc", [Var("X")])]))], [])]),
                    Decl([(False, ["A"], New("C", []))]), Decl([(False, ["B"], New("C", []))]),
                    ExprS(Method(Var("A"), [("Twice", [Num(5)])], "R")), ExprS(Method(Member(Var("A"), "Q"), [("后增", [Num(2)])])),
                    Display(Var("R"), Member(Var("A"), "P"), Member(Var("B"), "P"), Member(Var("A"), "Q"), Member(Var("B"), "Q")),
                    Return(Member(Var("B"), "Q"))], []), None, "witness"))
    w.append((([], [Func("F", ["X", "Y"], [Display(Str("body")), Return(Var("X"))]), ExprS(Call("F", [Num(1)])), Display(Str("after"))], []), None, "witness"))
    return w


def object_history(rng):
    """objects of one type created at different times; in-place and assigning updates through one of them (from outside and
    from its own methods); every object's properties displayed after every step"""
    props = [("Pn", Num(rng.randrange(0, 9))), ("Pl", Arr([Num(rng.randrange(0, 9))])), ("Pd", Map([("k", Num(1))])), ("Ps", Str("s"))]
    rng.shuffle(props)
    methods = [("Tick", ["X"], [ExprS(Bump(None, "Pn", False, Num(rng.randrange(1, 5)))), ExprS(Method(ThisProp("Pl"), [("后增", [Var("X")])])),
                                Return(ThisProp("Pn"))], []),
               ("GetL", [], [Return(ThisProp("Pl"))], []), ("GetD", [], [Return(ThisProp("Pd"))], []),
               ("Put", ["X"], [ExprS(AssignIndex(ThisProp("Pd"), Str(rng.choice(["k", "m"])), Var("X"))), ExprS(AssignThis("Ps", Str("t")))], [])]
    body = [Class("C", props, methods), Decl([(False, ["G"], Arr([Num(1)]))]), Func("GetG", [], [Return(Var("G"))], [])]
    nyield = [0]
    if rng.random() < 0.4:
        body.append(Ctor("C", ["V"], [ExprS(AssignThis("Ps", Var("V")))], []))
        mk = lambda: New("C", [Str(rng.choice(["u", "v"]))])
    else:
        mk = lambda: New("C", [])
    names = []

    def show():
        return Display(Var("G"), *[Member(Var(o), pn) for o in names for pn in ("Pn", "Pl", "Pd", "Ps")])
    for _ in range(rng.randrange(4, 9)):
        k = rng.randrange(8) if names else 0
        if k == 0 and len(names) < 4:
            o = "O%d" % len(names)
            body.append(Decl([(False, [o], mk())]))
            names.append(o)
        else:
            o = rng.choice(names)
            if k == 1:
                body.append(ExprS(Bump(Var(o), "Pn", rng.random() < 0.3, Num(rng.randrange(1, 9)))))
            elif k == 2:
                body.append(ExprS(Method(Var(o), [("Tick", [Num(rng.randrange(10, 99))])])))
            elif k == 3:
                body.append(ExprS(Method(Var(o), [("Put", [Num(rng.randrange(10, 99))])])))
            elif k >= 6:
                # the name bound by 得到 denotes the very value the method output: a change through it is a change of the
                # property (or module variable) the method handed out
                nyield[0] += 1
                r = "R%d" % nyield[0]
                which = rng.randrange(3)
                if which == 0:
                    body.append(ExprS(Method(Var(o), [("GetL", [])], r)))
                    body.append(ExprS(Method(Var(r), [(rng.choice(["后增", "前增"]), [Num(rng.randrange(10, 99))])])))
                elif which == 1:
                    body.append(ExprS(Method(Var(o), [("GetD", [])], r)))
                    body.append(ExprS(AssignIndex(Var(r), Str(rng.choice(["k", "y"])), Num(rng.randrange(10, 99)))))
                else:
                    body.append(ExprS(Call("GetG", [], r)))
                    body.append(ExprS(Method(Var(r), [rng.choice([("后增", [Num(rng.randrange(10, 99))]), ("左移", [])])])))
            elif k == 5 and rng.random() < 0.5:
                # a list held by a variable assigned to a property: the object holds a copy (changes of the variable's list
                # afterwards do not reach it, and the other way round)
                nyield[0] += 1
                lv = "L%d" % nyield[0]
                body.append(Decl([(False, [lv], Arr([Num(rng.randrange(0, 9)), Num(rng.randrange(0, 9))]))]))
                body.append(ExprS(AssignMember(Var(o), "Pl", Var(lv))))
                body.append(ExprS(Method(Var(lv), [("后增", [Num(rng.randrange(10, 99))])])))
                body.append(ExprS(Method(Member(Var(o), "Pl"), [("前增", [Num(rng.randrange(10, 99))])])))
                body.append(Display(Var(lv)))
            elif k == 4:
                body.append(ExprS(Method(Member(Var(o), "Pl"), [(rng.choice(["后增", "前增"]), [Num(rng.randrange(10, 99))])])))
            else:
                body.append(ExprS(AssignMember(Var(o), rng.choice(["Pn", "Ps"]), Num(rng.randrange(100, 200)))))
        body.append(show())
    body.append(Return(Arr([Member(Var(o), "Pn") for o in names])))
    return ([], body, [])


def chain_history(rng):
    """以L（a：…）、（b：…）、（c：…）: the calls of a chain run one after the other, each on the result of the one before, and the
    arguments of a call are evaluated when its turn comes — they see what the earlier calls of the chain did, and their own
    effects (a displaying identity method) happen between the calls"""
    body = [Func("Fq", ["Nq"], [Display(Str("q"), Var("Nq")), Return(Var("Nq"))]),
            Decl([(False, ["L"], Arr([Num(rng.randrange(0, 9)) for _ in range(rng.randrange(0, 3))]))])]

    def arg():
        k = rng.randrange(5)
        if k == 0:
            return Member(Var("L"), "长度")
        if k == 1:
            return Arith("+", Member(Var("L"), "长度"), Num(rng.randrange(10, 99)))
        if k == 2:
            return Call("Fq", [Member(Var("L"), "长度")])
        if k == 3:
            return Call("Fq", [Num(rng.randrange(100, 200))])
        return Arith("*", Member(Var("L"), "末项"), Num(2)) if rng.random() < 0.5 else Num(rng.randrange(0, 9))
    n = 0
    for _ in range(rng.randrange(1, 4)):
        chain = [(rng.choice(["后增", "后增", "前增"]), [arg()]) for _ in range(rng.randrange(2, 5))]
        y = None
        if rng.random() < 0.3:
            n += 1
            y = "R%d" % n
        body.append(ExprS(Method(Var("L"), chain, y)))
        body.append(Display(Var("L")) if y is None else Display(Var("L"), Var(y)))
    body.append(Return(Var("L")))
    return ([], body, [])


def run(chk, replay=None):
    extra = witnesses()
    if replay is None:
        extra += [(object_history(chk.rng), None, "object-history") for _ in range(40 if chk.tier == "quick" else 500)]
        extra += [(chain_history(chk.rng), None, "chain-history") for _ in range(25 if chk.tier == "quick" else 300)]
        # what a call yields when its body failed and was handled by its own handler: the handler's 输出 value, 空 without one
        from props import c09
        extra += [(c09.handler_program(chk.rng), None, "handled-call-value") for _ in range(30 if chk.tier == "quick" else 300)]
    semprop.run_property(chk, "C08", "c08", PROFILES, 120, 1500, replay=replay, extra_programs=extra,
                         what="method call / object semantics differ from the documented behaviour")
