# C08 — Method calls and objects bind arguments, receivers and results correctly.
from vlib import core, semprop, proggen
from vlib.semgen import *

HARNESS = "sem"
CLAIM = dict(
    text=("Theorems (coq/props/C08.v): for every fuel, state and expression — any call, method chain or 新建, at any recursion depth — "
          "a finished evaluation leaves exactly the caller's call stack, block depth and 其, and only adds symbols of the caller's current "
          "block (eval_expr_balanced, by induction over the mutually recursive evaluator); a failed one leaves the caller's frames under the "
          "frames of the calls in progress; arguments are evaluated once, left to right; an arity mismatch runs nothing of the body; property "
          "writes touch one object; unknown members are errors. Tie: generated programs with methods, types, default properties, "
          "constructors, methods calling methods, 得到, chains, executed by the interpreter and by the model in Coq (result, display trace, "
          "error code, call-stack length, scope depth)."),
    note=semprop.TB + "one module only (imports are C15); getters (何为) are not modelled.",
    technique="Coq proof (control-state balance invariant by induction on fuel) + model/implementation correspondence",
    design="5/C08")

PROFILES = [
    (3, proggen.Profile(funcs=2.5, classes=2.5, control=0.6, exceptions=0.3, collections=0.5, markers=0.6, type_errors=0.01)),
    (1, proggen.Profile(funcs=2.0, classes=2.0, exceptions=1.0, markers=0.5)),
]


def witnesses():
    w = []
    # recursion, 得到, chain, 其 in nested method calls
    w.append((([], [Func("Fact", ["N"], [Branch(Logic("lte", Var("N"), Num(1)), [Return(Num(1))]),
                                         Return(Arith("*", Var("N"), Call("Fact", [Arith("-", Var("N"), Num(1))])))]),
                    ExprS(Call("Fact", [Num(10)], "R")), Display(Var("R")), Return(Var("R"))], []), None, "witness"))
    w.append((([], [Class("C", [("P", Num(1)), ("Q", Arr([Num(1)]))],
                          [("Inc", ["X"], [ExprS(AssignThis("P", Arith("+", ThisProp("P"), Var("X")))), Return(ThisProp("P"))], []),
                           ("Twice", ["X"], [ExprS(Method(Var("此"), [("Inc", [Var("X")])])), Return(Method(Var("此"), [("Inc", [Var("X")])]))], [])]),
                    Decl([(False, ["A"], New("C", []))]), Decl([(False, ["B"], New("C", []))]),
                    ExprS(Method(Var("A"), [("Twice", [Num(5)])], "R")), ExprS(Method(Member(Var("A"), "Q"), [("后增", [Num(2)])])),
                    Display(Var("R"), Member(Var("A"), "P"), Member(Var("B"), "P"), Member(Var("A"), "Q"), Member(Var("B"), "Q")),
                    Return(Member(Var("B"), "Q"))], []), None, "witness"))
    w.append((([], [Func("F", ["X", "Y"], [Display(Str("body")), Return(Var("X"))]), ExprS(Call("F", [Num(1)])), Display(Str("after"))], []), None, "witness"))
    return w


def run(chk, replay=None):
    semprop.run_property(chk, "C08", "c08", PROFILES, 140, 1500, replay=replay, extra_programs=witnesses(),
                         what="method call / object semantics differ from the documented behaviour")
