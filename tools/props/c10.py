# C10 — No program can crash the host process.
# Tie: T1 inventory (tools/gen_c10_members.go -> coq/gen/GenC10Members.v, regenerated on every run) +
#      T3 sweep: receiver type x member x argument tuples from a boundary pool, at API level and as one-call programs,
#      operators, indexing, constructors, library functions, input-variable texts, ill-typed programs, heap scripts;
#      where a model clause exists the value / error code is compared with coq/model/Builtins.v evaluated in Coq.
import json
import os
import shutil
import struct
import tempfile

from vlib import core
import gen_c10_members as gen

HARNESS = ["c10", "sem", "c15"]

TB = ("Coq 8.16.1 kernel and vm_compute; hand-written Gallina models (coq/model/Builtins.v, BuiltinsHeap.v) tied to the code by "
      "(1) the member inventory re-read from the Go sources on every run (go/ast translator tools/gen_c10_members.go, trusted to "
      "transcribe) and (2) the per-run differential sweep (Go harness built -tags verif from the working tree, models evaluated "
      "inside Coq on the same inputs); generators and comparison code in tools/props/c10.py; ")
CLAIM = dict(
    text=("Theorems (coq/props/C10.v) about executable models of the built-in member tables, parameter validators, index "
          "arithmetic (insertArrayValue, arrayExecSwap, shiftArrayValue, strExecSlice, IV.ReduceLHS/RHS, float64->int as on amd64), "
          "VM accessors and the container heap: for ALL receivers, member names, arities and argument values (negative, fractional, "
          "huge, non-finite numbers; wrong types) every modelled built-in returns a value or a Zn error, never a Go panic and never a "
          "nil value; no list/dictionary operation can make a container contain itself, and display/copy terminate on every acyclic "
          "heap; the VM accessors used by input-variable text never index an empty call stack. Every member in the inventory "
          "re-read from the sources has a model clause or is in a named differential-only list. The models are tied to the code on "
          "every run by executing the full table receiver type x member x boundary-value argument tuples (arity 0..4) at API level "
          "and as one-call programs, plus operators, indexing, constructors, @JSON/@文件 functions (inside a temp dir), input-variable "
          "texts and ill-typed generated programs: a panic, a nil result, a hang or a dead worker is a violation. States that only a "
          "sequence builds (copies of collections mutated through both names, methods whose body holds definitions only, ...) are reached "
          "by multi-step programs run through the interpreter and through the evaluator model Sem (value, error code and display compared)."),
    note=TB + ("Flocq is used for float64 (int(f), floor, arithmetic): theorems that mention numbers depend on the standard library's "
               "real-number axioms ClassicalDedekindReals.sig_not_dec, ClassicalDedekindReals.sig_forall_dec, "
               "FunctionalExtensionality.functional_extensionality_dep, Classical_Prop.classic (as listed by Print Assumptions). "
               "Go's float->int conversion on amd64, slice/append semantics, encoding/json, strings.*, the OS file system and "
               "CompareValues (包含/寻找) are restated or left opaque and validated by the sweep only. stdlib/http does not compile in "
               "this tree and is not exercised. Memory exhaustion and Go stack limits on deep acyclic values are not modelled."),
    technique="Coq proof (case analysis over the generated member table, lia on index arithmetic, Acc induction on the heap) + "
              "inventory translation + exhaustive/seeded differential sweep with crash isolation",
    design="5/C10")

IMPORTS = ("From Coq Require Import List ZArith Bool String. Import ListNotations.\n"
           "From Zn.model Require Import Builtins.\nOpen Scope string_scope.")

INV = None


def prebuild(chk):
    global INV
    try:
        INV = gen.inventory()
        gen.write(INV)
    except Exception as e:  # translator cannot read the sources any more
        INV = None
        chk.violation("the member inventory could not be re-read from the sources: %s" % str(e)[-300:],
                      "inventory:translator", {"kind": "tie", "detail": str(e)[-2000:]}, no_input=True)


# ---------------------------------------------------------------- values
def bits(x):
    return "%016x" % struct.unpack(">Q", struct.pack(">d", x))[0]


def num(x, src=None):
    return {"t": "num", "bits": bits(x), "_src": src}


def txt(s):
    return {"t": "str", "v": [ord(c) for c in s]}


def lst(*xs):
    return {"t": "list", "v": list(xs)}


def dct(*kvs):
    return {"t": "dict", "v": [[[ord(c) for c in k], v] for k, v in kvs]}


NULL = {"t": "null"}
TRUE = {"t": "bool", "v": True}
FALSE = {"t": "bool", "v": False}
OBJ = {"t": "obj"}
FUNC = {"t": "func"}
CLASS = {"t": "class"}
EXC = {"t": "exc", "msg": [ord(c) for c in "坏了"]}
GO = {"t": "go", "tag": "x"}
SELF = {"t": "self"}
NAN = float("nan")
INF = float("inf")

NUMS_FULL = [num(0.0, "0"), num(-0.0, "{0 * -1}"), num(1.0, "1"), num(-1.0, "-1"), num(0.5, "0.5"), num(1.5, "1.5"),
             num(-10.0, "-10"), num(1e308, "1*10^308"), num(5e-324, "5*10^-324"), num(NAN, "{无穷 - 无穷}"),
             num(INF, "无穷"), num(-INF, "{0 - 无穷}"), num(2.0 ** 53, "9007199254740992"),
             num(2.0 ** 63, "9223372036854775808"), num(2.0 ** 64, "18446744073709551616"),
             num(2.0, "2"), num(3.0, "3"), num(-2.0, "-2"), num(4.0, "4"), num(-2.0 ** 63, "-9223372036854775808")]
TEXTS_FULL = [txt(""), txt("abc"), txt("中文字"), txt("a😀b"), txt(" x "), txt("1.5"), txt("k"), txt("1*^5"), txt("{#1}")]
LISTS_FULL = [lst(), lst(num(1.0), num(2.0), num(3.0)), lst(txt("a"), txt("b")), lst(lst(num(1.0)), lst(num(2.0), num(3.0))),
              lst(num(1.0), txt("a"), NULL), lst(dct(("k", num(1.0))))]
DICTS_FULL = [dct(), dct(("k", num(1.0))), dct(("a", num(1.0)), ("b", txt("x"))), dct(("k", dct(("k", num(2.0))))),
              dct(("n", num(NAN)))]
OTHERS = [TRUE, FALSE, NULL, OBJ, FUNC, CLASS, EXC]

POOL_FULL = NUMS_FULL + TEXTS_FULL + LISTS_FULL + DICTS_FULL + OTHERS + [GO, SELF, lst(SELF)]
POOL_QUICK = [num(0.0, "0"), num(1.0, "1"), num(2.0, "2"), num(3.0, "3"), num(4.0, "4"), num(-10.0, "-10"), num(1.5, "1.5"), num(NAN, "{无穷 - 无穷}"),
              num(2.0 ** 63, "9223372036854775808"), txt(""), txt("abc"), txt("中a😀"), TRUE, NULL,
              lst(num(1.0), num(2.0), num(3.0)), dct(("k", num(1.0))), OBJ, SELF, lst(SELF)]

RECEIVERS = {
    "Array": [lst(), lst(num(1.0), num(2.0), num(3.0)), lst(txt("a"), txt("b")), lst(lst(num(1.0)), NULL, dct(("k", TRUE)))],
    "HashMap": [dct(), dct(("k", num(1.0))), dct(("k", dct(("k", num(2.0)))), ("j", txt("x")))],
    "String": [txt(""), txt("abc"), txt("中a😀"), txt("1*^5"),
               {"t": "strbytes", "hex": "61ffe4b862"}, {"t": "strbytes", "hex": "eda080c0aff09080e4b8adf4908080"}],
    "Number": [num(0.0, "0"), num(1.5, "1.5"), num(NAN, "{无穷 - 无穷}"), num(-1.0, "-1"), num(1e308, "1*10^308")],
    "Bool": [TRUE, FALSE],
    "Null": [NULL],
    "Object": [OBJ],
    "Function": [FUNC],
    "ClassModel": [CLASS],
    "Exception": [EXC],
    "GoValue": [GO],
}
TAGS = {"null": 0, "bool": 1, "num": 2, "str": 3, "list": 4, "dict": 5, "obj": 6, "func": 7, "class": 8, "exc": 9, "go": 10, "nil": 11}


def clean(spec):
    """spec without private keys (what the harness receives)"""
    if isinstance(spec, dict):
        return {k: clean(v) for k, v in spec.items() if not k.startswith("_")}
    if isinstance(spec, list):
        return [clean(x) for x in spec]
    return spec


def has_self(spec):
    if spec.get("t") == "self":
        return True
    if spec.get("t") == "list":
        return any(has_self(x) for x in spec["v"])
    if spec.get("t") == "dict":
        return any(has_self(x[1]) for x in spec["v"])
    return False


def utf8(cps):
    return list("".join(chr(c) for c in cps).encode("utf-8", "surrogatepass"))


def canon_bits(b):
    v = int(b, 16)
    if (v & 0x7FF0000000000000) == 0x7FF0000000000000 and (v & 0x000FFFFFFFFFFFFF) != 0:
        return 0x7FF8000000000000
    return v


def enc_val(d):
    """encoding of a value dump / spec, same as Builtins.enc_val"""
    t = d["t"]
    if t == "num":
        return [2, canon_bits(d["bits"])]
    if t == "strbytes":
        b = list(bytes.fromhex(d["hex"]))
        return [3, len(b)] + b
    if t == "str":
        b = d["bytes"] if "bytes" in d else utf8(d["v"])
        return [3, len(b)] + list(b)
    if t == "bool":
        return [1, 1 if d["v"] else 0]
    if t == "list":
        out = [4, len(d["v"])]
        for x in d["v"]:
            out += enc_val(x)
        return out
    if t == "dict":
        out = [5, len(d["v"])]
        for k, v in d["v"]:
            kb = utf8(k)
            out += [len(kb)] + kb + enc_val(v)
        return out
    if t == "exc":
        b = utf8(d["msg"])
        return [9, len(b)] + b
    return [TAGS.get(t, 99)]


def coq_val(d):
    t = d["t"]
    if t == "num":
        return "(N %d)" % int(d["bits"], 16)
    if t == "strbytes":
        return "(VStr %s)" % core.zlist(bytes.fromhex(d["hex"]))
    if t == "str":
        return "(VStr %s)" % core.zlist(utf8(d["v"]))
    if t == "bool":
        return "(VBool %s)" % core.coq_bool(d["v"])
    if t == "null":
        return "VNull"
    if t == "list":
        return "(VList [%s])" % ";".join(coq_val(x) for x in d["v"])
    if t == "dict":
        return "(VDict [%s])" % ";".join("(%s,%s)" % (core.zlist(utf8(k)), coq_val(v)) for k, v in d["v"])
    if t in ("obj", "stdobj"):
        return "VObj"
    if t in ("func", "libfn"):
        return "VFunc"
    if t in ("class", "stdclass"):
        return "VClass"
    if t == "exc":
        return "(VExc %s)" % core.zlist(utf8(d["msg"]))
    if t == "go":
        return '(VGo "%s")' % d["tag"]
    if t == "global":
        return {"真": "(VBool true)", "假": "(VBool false)", "空": "VNull", "异常": "VClass", "数值": "(N 0)",
                "显示": "VFunc", "取随机数": "VFunc"}[d["name"]]
    raise ValueError(t)


def coq_str(s):
    return '"' + s.replace('"', '""') + '"'


# ---------------------------------------------------------------- Zn source rendering (one-call programs)
PRELUDE = ("定义货件：\n    其名称 = “甲”\n    其件数 = 【1】\n\n    如何回声？\n        输出1\n\n"
           "如何某方法？\n    输出空\n\n令无穷 = 1*10^308 * 10\n")


def zn_text(cps):
    s = "".join(chr(c) for c in cps)
    if any(ch in s for ch in "“”「」\n\r`"):
        return None
    return "“" + s + "”"


def zn_expr(d, recv_var="甲"):
    t = d["t"]
    if t == "num":
        return d.get("_src")
    if t == "str":
        return zn_text(d["v"])
    if t == "bool":
        return "真" if d["v"] else "假"
    if t == "null":
        return "空"
    if t == "list":
        items = [zn_expr(x, recv_var) for x in d["v"]]
        if any(i is None for i in items):
            return None
        return "【" + "，".join(items) + "】"
    if t == "dict":
        if not d["v"]:
            return "【=】"
        items = []
        for k, v in d["v"]:
            ks, vs = zn_text(k), zn_expr(v, recv_var)
            if ks is None or vs is None:
                return None
            items.append(ks + " = " + vs)
        return "【" + "，".join(items) + "】"
    if t == "obj":
        return "（新建货件）"
    if t == "func":
        return "某方法"
    if t == "class":
        return "货件"
    if t == "exc":
        return "（新建异常：“坏了”）"
    if t == "self":
        return recv_var
    if t == "global":
        return d["name"]
    return None


def program_for(case):
    """one-call program for an API case, or None when it cannot be written as source"""
    op = case["op"]
    lines = [PRELUDE]
    recv = case.get("recv")
    args = case.get("args", [])
    name = case.get("name", "")
    argx = []
    if recv is not None and recv.get("t") == "libfn":
        lines.insert(0, "导入《%s》\n" % recv["lib"])
        call_target = recv["name"]
    elif recv is not None and recv.get("t") == "global" and op in ("call", "construct"):
        call_target = recv["name"]
    elif recv is not None and recv.get("t") in ("class",) and op == "construct":
        call_target = "货件"
    else:
        call_target = None
        if recv is None:
            return None
        rx = zn_expr(recv)
        if rx is None:
            return None
        lines.append("令甲 = %s\n" % rx)
    for a in args:
        ax = zn_expr(a)
        if ax is None:
            return None
        argx.append(ax)
    tail = ("：" + "、".join(argx)) if argx else ""
    if op == "get":
        stmt = "令果 = 甲之%s" % name
    elif op == "set":
        stmt = "甲之%s = %s\n令果 = 空" % (name, argx[0])
    elif op == "method":
        stmt = "令果 = 以甲（%s%s）" % (name, tail)
    elif op == "construct":
        stmt = "令果 = （新建%s%s）" % (call_target, tail)
    elif op == "call":
        stmt = "令果 = （%s%s）" % (call_target, tail)
    elif op == "index_get":
        stmt = "令果 = 甲#%s" % ("{" + argx[0] + "}" if not is_atom(args[0]) else argx[0])
    elif op == "index_set":
        stmt = "甲#%s = %s\n令果 = 空" % (argx[0], argx[1] if len(argx) > 1 else "7")
    else:
        return None
    if not name_ok(name):
        return None
    lines.append(stmt + "\n")
    lines.append("（显示：果）\n")
    if call_target is None:
        lines.append("（显示：甲）\n令丙 = 甲\n输出丙 为 甲\n")
    return "".join(lines)


def is_atom(d):
    return d["t"] in ("num", "str") and not (d.get("_src") or "").startswith("{")


def name_ok(name):
    return all(ch not in name for ch in "：、（）\n ")


# ---------------------------------------------------------------- cases
def api_case(op, recv, name, args, rname, kind, cwd=None):
    c = {"op": op, "recv": recv, "name": name, "args": list(args), "_rname": rname, "_kind": kind}
    if cwd:
        c["cwd"] = cwd
    return c


def entry_targets(e):
    """inventory entry -> list of (op, receiver spec, rname, kind)"""
    r, k, n = e["recv"], e["kind"], e["name"]
    if r in RECEIVERS and k in ("get", "set", "method"):
        return [(k, rv, r, k) for rv in RECEIVERS[r]]
    if r == "Number" and k == "construct":
        return [("construct", {"t": "global", "name": "数值"}, "Number", "construct")]
    if r == "ClassModel" and k == "construct":
        return [("construct", CLASS, "ClassModel", "construct")]
    if r == "class:异常" and k == "construct":
        return [("construct", {"t": "global", "name": "异常"}, r, k)]
    if r.startswith("class:") and k == "construct":
        return [("construct", {"t": "stdclass", "name": r[6:]}, r, k)]
    if r.startswith("class:") and k == "classprop":
        return [("get", {"t": "stdobj", "name": r[6:]}, r, k), ("set", {"t": "stdobj", "name": r[6:]}, r, k)]
    if r in ("lib:@JSON", "lib:@文件") and k == "libfn":
        return [("call", {"t": "libfn", "lib": r[4:], "name": n}, r, k)]
    if r == "global" and n in ("显示", "取随机数"):
        return [("call", {"t": "global", "name": n}, r, k)]
    if r == "global":
        return [("global", {"t": "global", "name": n}, r, k)]
    return []


SAFE_FILE_TEXTS = [txt("f.txt"), txt("d"), txt("新文件.txt"), txt("没有"), txt(""), txt("abc")]


def arity_range(op):
    if op in ("get", "global"):
        return [0]
    if op == "set":
        return [1]
    return [0, 1, 2, 3, 4]


def tuples(chk, pool, n, limit):
    """all n-tuples over pool when few enough, else a seeded sample of `limit`"""
    import itertools
    total = len(pool) ** n
    if total <= limit:
        return [list(t) for t in itertools.product(pool, repeat=n)]
    return [[chk.rng.choice(pool) for _ in range(n)] for _ in range(limit)]


def gen_api_cases(chk, inv, cwd):
    quick = chk.tier == "quick"
    pool = POOL_QUICK if quick else POOL_FULL
    cases = []
    names_by_kind = {"get": set(), "set": set(), "method": set()}
    for e in inv["entries"]:
        if e["kind"] in names_by_kind:
            names_by_kind[e["kind"]].add(e["name"])
    for e in inv["entries"]:
        for (op, recv, rname, kind) in entry_targets(e):
            if op == "global":
                # a global value: every member kind with an unknown name and display
                cases.append(api_case("get", recv, "不存在", [], rname, "global"))
                continue
            p = pool
            if recv.get("t") == "libfn" and recv.get("lib") == "@文件":
                p = SAFE_FILE_TEXTS + [num(1.0, "1"), NULL, lst(), TRUE]
            for ar in arity_range(op):
                lim = {0: 1, 1: 10 ** 6, 2: 10 ** 6 if ar <= 2 else 0, 3: 12 if quick else 150, 4: 8 if quick else 80}[ar]
                for tup in tuples(chk, p, ar, lim):
                    cases.append(api_case(op, recv, e["name"], tup, rname, kind, cwd))
    # the full table receiver type x member name (members of other types, unknown names)
    small = [num(1.0, "1"), txt("abc"), lst(num(1.0)), NULL]
    for rtype, rvs in RECEIVERS.items():
        for kind in ("get", "set", "method"):
            for n in sorted(names_by_kind[kind]) + ["不存在", ""]:
                rv = rvs[-1] if rtype in ("Array", "HashMap") else rvs[0]
                for ar in ([0] if kind == "get" else [1] if kind == "set" else [0, 1, 2]):
                    for tup in tuples(chk, small, ar, 4):
                        cases.append(api_case(kind, rv, n, tup, rtype, kind, cwd))
    # indexing: every receiver x every index value, read and write
    idx_pool = NUMS_FULL + [txt("k"), txt(""), txt("不存在"), NULL, TRUE, lst(), OBJ]
    for rtype, rvs in RECEIVERS.items():
        for rv in rvs[:3]:
            for ix in idx_pool:
                cases.append(api_case("index_get", rv, "#", [ix], rtype, "index", cwd))
                cases.append(api_case("index_set", rv, "#", [ix, lst(num(1.0))], rtype, "index", cwd))
    cases.sort(key=lambda c: 1 if (has_self(c["recv"]) or any(has_self(a) for a in c["args"])) else 0)
    # JSON of every pool value (what HTTP响应 / 生成JSON do with nested values)
    for v in POOL_FULL:
        if not has_self(v):
            cases.append({"op": "json", "recv": v, "name": "json", "args": [], "_rname": "json", "_kind": "json"})
    return cases


VALIDATE_TYPES = ["number", "string", "array", "hashmap", "bool", "object", "function", "govalue", "any", "golang:x",
                  "golang:y", "string+", "number*", "any?", "hashmap?", "string?", "weird"]


def gen_validate_cases(chk):
    rng = chk.rng
    n = 250 if chk.tier == "quick" else 2500
    vals = [num(1.0), txt("a"), lst(), dct(), TRUE, OBJ, FUNC, GO, {"t": "go", "tag": "y"}, NULL]
    out = []
    fixed = [("least", ["string", "string", "any?"]), ("least", ["number", "any", "hashmap?"]), ("least", ["string+"]),
             ("exact", ["golang:x"]), ("least", ["number", "string+"]), ("all", ["golang:x"])]
    for kind, tys in fixed:
        for ar in range(0, 5):
            out.append({"op": "validate", "name": kind, "types": tys, "args": [rng.choice(vals) for _ in range(ar)]})
    for _ in range(n):
        kind = rng.choice(["exact", "least", "all"])
        nt = 1 if kind == "all" else rng.randrange(0, 4)
        tys = [rng.choice(VALIDATE_TYPES) for _ in range(nt)]
        if kind != "least":
            tys = [t for t in tys if t[-1] not in "+*?"] or (["any"] if kind == "all" else [])
            if kind == "all" and not tys:
                tys = ["any"]
        out.append({"op": "validate", "name": kind, "types": tys, "args": [rng.choice(vals) for _ in range(rng.randrange(0, 5))]})
    return out


VM_OPS = ["push", "pop", "this", "ret", "setret", "line", "frame", "stack", "module", "find", "findglobal", "findm", "set", "begin", "end"]
VM_COQ = {"push": "VPush", "pop": "VPop", "this": "VThis", "ret": "VRet", "setret": "VSetRet", "line": "VLine", "frame": "VFrame",
          "stack": "VStack", "module": "VModule", "find": "VFind", "findglobal": "VFindGlobal", "findm": "VFindM", "set": "VSet",
          "begin": "VBegin", "end": "VEnd"}


def gen_vm_cases(chk):
    rng = chk.rng
    out = [[o] for o in VM_OPS if o not in ("pop",)]
    for _ in range(60 if chk.tier == "quick" else 600):
        out.append([rng.choice(VM_OPS) for _ in range(rng.randrange(1, 9))])
    return out


VARINPUT_TEXTS = ["", "A = 1", "A = B", "A = 其B", "A = 其", "A = 【1，2】", "A = 以【1】（后增：2）", "A = （显示：1）",
                  "A = （新建异常：“x”）", "A = （新建数值：1）", "A = 以B（后增：2）", "A = B#1", "A = 【1】#5", "A = 1 / 0",
                  "A = （没有这个方法：1）", "A = 1\nB = A", "A = B = 1", "其A = 1", "A", "令A = 1", "A = 以1（加：其B）",
                  "A = 以“x”（取样：1、B）", "A = （新建B）", "A = 【“k” = B】", "A = 真 且 B", "A = 以【】（新增：1、-5）",
                  "注：说明", "// x", "/* x */", "导入《文件》", "\u200b", "注：「多\n行」", "\n", "A = 1 // 尾",
                  "如果真：\n    A = 1", "A = “", "A = 1 +", "（", "A = 以其（加：1）", "A = （显示：其B）得到C", "A = 以1（加：2）得到C\nB = C"]


def rnd_expr(rng):
    return rng.choice(["1", "0", "-3", "1.5", "“文”", "“”", "真", "空", "【】", "【=】", "【1，2，3】", "【“k” = 1】", "甲", "乙", "丙",
                       "某方法", "货件", "（新建货件）", "（新建异常：“x”）", "无穷", "{无穷 - 无穷}", "异常", "显示", "数值", "未定义名"])


def rnd_name(rng):
    return rng.choice(["名称", "件数", "长度", "首项", "文本", "新增", "后增", "回声", "不存在", "内容", "自身", "加", "取样"])


def gen_illtyped(chk, n):
    rng = chk.rng
    ops = ["+", "-", "*", "/", "|", "%", "为", "不为", "大于", "小于", "不大于", "不小于", "==", "/=", ">", "<", ">=", "<=", "且", "或"]
    T = [
        lambda: "令丁 = %s %s %s" % (rnd_expr(rng), rng.choice(ops), rnd_expr(rng)),
        lambda: "如果%s：\n    输出1" % rnd_expr(rng),
        lambda: "每当%s：\n    结束循环" % rnd_expr(rng),
        lambda: "遍历%s：\n    输出1" % rnd_expr(rng),
        lambda: "以值遍历%s：\n    （显示：值）" % rnd_expr(rng),
        lambda: "以键、值遍历%s：\n    （显示：键、值）" % rnd_expr(rng),
        lambda: "抛出%s：%s" % (rng.choice(["异常", "货件", "真", "某方法", "未定义名"]), rnd_expr(rng)),
        lambda: "输出%s之%s" % (rnd_expr(rng), rnd_name(rng)),
        lambda: "%s之%s = %s" % (rng.choice(["甲", "乙", "丙"]), rnd_name(rng), rnd_expr(rng)),
        lambda: "输出%s#%s" % (rng.choice(["甲", "乙", "丙", "【1，2】", "“文”"]), rng.choice(["1", "0", "-1", "“k”", "甲", "乙", "1.5", "无穷"])),
        lambda: "%s#%s = %s" % (rng.choice(["甲", "乙", "丙"]), rng.choice(["1", "0", "9", "“k”", "乙"]), rnd_expr(rng)),
        lambda: "令丁 = （%s：%s）" % (rng.choice(["显示", "取随机数", "某方法", "货件", "甲", "真", "未定义名"]), rnd_expr(rng)),
        lambda: "令丁 = （新建%s：%s）" % (rng.choice(["异常", "货件", "数值", "真", "显示", "甲", "未定义名"]), rnd_expr(rng)),
        lambda: "令丁 = 以%s（%s：%s、%s）" % (rnd_expr(rng), rnd_name(rng), rnd_expr(rng), rnd_expr(rng)),
        lambda: "令丁 = 以%s（%s）" % (rnd_expr(rng), rnd_name(rng)),
        lambda: "以%s（%s：%s）得到戊\n（显示：戊）" % (rng.choice(["甲", "乙", "丙"]), rnd_name(rng), rnd_expr(rng)),
        lambda: "甲 = %s" % rnd_expr(rng),
        lambda: "输出%s" % rnd_expr(rng),
        lambda: "（显示：%s、%s）" % (rnd_expr(rng), rnd_expr(rng)),
        lambda: "令丁 = “{#1} {#2}” %% %s" % rnd_expr(rng),
    ]
    progs = []
    for _ in range(n):
        body = [PRELUDE, "令甲 = %s\n" % rnd_expr(rng).replace("甲", "1").replace("乙", "2").replace("丙", "3"),
                "令乙 = %s\n" % rnd_expr(rng).replace("乙", "2").replace("丙", "3"), "令丙 = %s\n" % rnd_expr(rng).replace("丙", "3")]
        for _ in range(rng.randrange(1, 5)):
            body.append(rng.choice(T)() + "\n")
        if rng.random() < 0.3:
            body.append("\n拦截异常：\n    输出其内容\n")
        progs.append("".join(body))
    return progs


def gen_handled_faults(chk):
    """every kind of failure (runtime faults, thrown exceptions, template / formatter / identifier errors, stray loop signals)
    inside a body that has a handler which USES the exception (其内容 read, displayed, measured): a value or a Zn error"""
    faults = ["令丁 = “{}：{” % 【1】", "令丁 = “{}-{}” % 【1】", "令丁 = “{#.2}” % 【“文”】", "令丁 = “{#x}” % 【1】", "令丁 = 128kg", "令丁 = 1.2.3",
              "结束循环", "继续循环", "令丁 = 1 / 0", "抛出异常：“x”", "（未定义方法：1）", "令丁 = 【1】#5", "令丁 = 未定义名", "令丁 = “a” > 1",
              "令丁 = 以“文”（不存在）", "令丁 = （新建未定义类）", "丁 = 1", "令丁 = 【1，2】之不存在", "以值遍历5：\n        输出值", "如果1：\n        输出1",
              "令丁 = （解析JSON：“{”）", "令丁 = （读取文件：“/不存在/x”）"]
    handlers = ["输出其内容", "（显示：其内容）\n    输出1", "令文 = 其内容之长度\n    输出文", "输出【其内容】", "输出“{}” % 【其内容】", "输出其"]
    progs = []
    for f in faults:
        for h in handlers[:3] + [chk.rng.choice(handlers[3:])]:
            progs.append("导入《@JSON》\n导入《@文件》\n令甲 = 1\n%s\n输出2\n\n拦截异常：\n    %s\n" % (f.replace("\n        ", "\n    "), h))
            progs.append("导入《@JSON》\n导入《@文件》\n如何试？\n    令甲 = 1\n    %s\n    输出2\n\n    拦截异常：\n        %s\n\n（显示：（试））\n输出3\n"
                         % (f, h.replace("\n    ", "\n        ")))
    return progs


def gen_mutating_loops(chk, n):
    """loops over a collection that the loop body changes (keys removed ahead of / behind the current one, items shifted out,
    the collection emptied or replaced), with the loop variables then USED (displayed, rendered, stored, compared, passed on):
    what such a loop visits is not specified, but it is a value or a Zn error every time, never a crash of the host"""
    rng = chk.rng
    progs = []
    uses = ["（显示：值）", "令文 = 值之文本", "以表（后增：值）\n    （显示：表）", "令和 = 值 + 1", "如果值 == 1：\n        （显示：“一”）",
            "（显示：“{}” % 【值】）", "典#“新” = 值", "（回显：值）", "令副 = 值\n    （显示：副）", "（显示：键、值）", "令对 = 【键 = 值】\n    （显示：对）",
            "输出值", "抛出异常：值"]
    for _ in range(n):
        keys = rng.sample(["a", "b", "c", "d", "e"], rng.randrange(2, 6))
        is_dict = rng.random() < 0.65
        lines = ["如何回显？\n    输入某\n    输出某\n", "令表 = 【】"]
        if is_dict:
            lines.append("令典 = 【%s】" % "，".join("“%s” = %d" % (k, i + 1) for i, k in enumerate(keys)))
            head = rng.choice(["以键、值遍历典：", "以值遍历典：" if False else "以键、值遍历典："])
            muts = ["以典（移除：“%s”）" % rng.choice(keys), "以典（移除：“%s”）" % keys[-1], "以典（移除：键）", "典#“%s” = 9" % rng.choice(keys + ["z"]),
                    "以典（写入：“y”、7）", "典 = 【】", "典 = 【“a” = 5】"]
        else:
            lines.append("令典 = 【%s】" % "，".join(str(i + 1) for i in range(len(keys))))
            head = "以键、值遍历典："
            muts = ["以典（左移）", "以典（右移）", "以典（后增：8）", "以典（前增：8）", "典 = 【】", "典#1 = 9", "以典（交换：1、%d）" % len(keys)]
        body = []
        for _ in range(rng.randrange(1, 4)):
            m = rng.choice(muts)
            if rng.random() < 0.4:
                m = "如果键 == %s：\n        %s" % (("“%s”" % rng.choice(keys)) if is_dict else str(rng.randrange(1, 4)), m)
            body.append(m)
        for _ in range(rng.randrange(1, 3)):
            body.append(rng.choice(uses))
        rng.shuffle(body)
        lines.append(head)
        lines += ["    " + b for b in body]
        lines.append("（显示：典、表）")
        if rng.random() < 0.3:
            lines.append("\n拦截异常：\n    输出其内容")
        progs.append("\n".join(lines) + "\n")
    return progs


def gen_operator_programs(chk):
    quick = chk.tier == "quick"
    pool = POOL_QUICK if quick else (NUMS_FULL[:12] + TEXTS_FULL[:4] + LISTS_FULL[:3] + DICTS_FULL[:3] + OTHERS)
    ops = ["+", "-", "*", "/", "|", "%", "为", "不为", "大于", "小于", "不大于", "不小于", "==", "/=", "且", "或"]
    progs = []
    exprs = [zn_expr(v) for v in pool if v.get("t") != "self"]
    exprs = [e for e in exprs if e]
    for op in ops:
        for a in exprs:
            for b in (exprs if not quick else chk.rng.sample(exprs, 6)):
                progs.append(PRELUDE + "令甲 = %s\n令乙 = %s\n令果 = 甲 %s 乙\n（显示：果）\n" % (a, b, op))
    return progs


# ---------------------------------------------------------------- heap scripts (aliasing / cycles)
def gen_heap_cases(chk):
    rng = chk.rng
    n = 150 if chk.tier == "quick" else 2000
    out = [{"cells": ["list"], "ops": [["append", 0, ["ref", 0]]]},
           {"cells": ["list"], "ops": [["merge", 0, [["ref", 0]]]]},
           {"cells": ["dict"], "ops": [["dset", 0, 1, ["ref", 0]]]},
           {"cells": ["list", "list"], "ops": [["append", 0, ["ref", 1]], ["append", 1, ["ref", 0]]]},
           {"cells": ["list", "dict"], "ops": [["dset", 1, 1, ["ref", 0]], ["prepend", 0, ["ref", 1]]]}]
    for _ in range(n):
        nc = rng.randrange(1, 5)
        cells = [rng.choice(["list", "list", "dict"]) for _ in range(nc)]
        ops = []
        for _ in range(rng.randrange(1, 9)):
            a = rng.randrange(nc)
            item = ["ref", rng.randrange(nc)] if rng.random() < 0.6 else ["num", rng.randrange(0, 9)]
            if cells[a] == "list":
                k = rng.choice(["append", "prepend", "insert", "merge"])
                if k == "insert":
                    ops.append(["insert", a, item, rng.choice([0, 1, 2, -1, -2, -7, 5])])
                elif k == "merge":
                    ops.append(["merge", a, [item] + ([["ref", rng.randrange(nc)]] if rng.random() < 0.3 else [])])
                else:
                    ops.append([k, a, item])
            else:
                ops.append(["dset", a, rng.randrange(0, 3), item])
        out.append({"cells": cells, "ops": ops})
    return out


def heap_term(c):
    def item(x):
        return "(IRef %d)" % x[1] if x[0] == "ref" else "(INum %d)" % x[1]
    cells = "[" + ";".join("CList []" if k == "list" else "CDict []" for k in c["cells"]) + "]"
    ops = []
    for o in c["ops"]:
        if o[0] == "append":
            ops.append("HAppend %d %s" % (o[1], item(o[2])))
        elif o[0] == "prepend":
            ops.append("HPrepend %d %s" % (o[1], item(o[2])))
        elif o[0] == "insert":
            ops.append("HInsert %d %s (%d)" % (o[1], item(o[2]), o[3]))
        elif o[0] == "merge":
            ops.append("HMerge %d [%s]" % (o[1], ";".join(item(x) for x in o[2])))
        elif o[0] == "dset":
            ops.append("HDictSet %d %d %s" % (o[1], o[2], item(o[3])))
    return "(%s, [%s])" % (cells, ";".join("(" + x + ")" for x in ops))


def flat_shape(t):
    """nested shape (harness) -> flat int list, same as BuiltinsHeap.enc_tree"""
    if t[0] == 0:
        return [0, t[1]]
    if t[0] == 1:
        out = [1, len(t) - 1]
        for x in t[1:]:
            out += flat_shape(x)
        return out
    if t[0] == 2:
        out = [2, len(t) - 1]
        for k, x in t[1:]:
            out += [k] + flat_shape(x)
        return out
    return [t[0]]


# ---------------------------------------------------------------- classification
def panic_class(o):
    if "panic" in o:
        p = o["panic"]
        for key in ("slice bounds out of range", "index out of range", "interface conversion", "nil pointer dereference",
                    "nil map", "divide by zero", "stack overflow"):
            if key in p:
                return key.replace(" ", "-")
        return "panic"
    if "crash" in o or "hang" in o:
        return "no-return"        # the worker died (Go stack overflow, exit) or did not come back
    if o.get("kind") == "nilok":
        return "nil-result"
    if o.get("kind") == "nilinside" or o.get("recv_nilinside"):
        return "nil-inside-result"
    return None


def describe(case):
    if "src" in case:
        return "program:\n" + case["src"]
    if "text" in case:
        return "input-variable text %r" % case["text"]
    if "ops" in case and "cells" in case:
        return "heap script %s" % json.dumps(case, ensure_ascii=False)
    if "ops" in case:
        return "VM accessor script %s" % case["ops"]
    return "%s %s on %s with %s" % (case.get("op"), case.get("name"), json.dumps(clean(case.get("recv")), ensure_ascii=False),
                                    json.dumps(clean(case.get("args", [])), ensure_ascii=False))


def case_size(c):
    return len(json.dumps(clean(c), ensure_ascii=False))


class Findings:
    """one violation per signature, keeping the smallest failing case"""

    def __init__(self):
        self.best = {}

    def add(self, sig, what, cmd, case, observed, no_input=False, extra=None):
        sz = case_size(case)
        if sig not in self.best or sz < self.best[sig][0]:
            self.best[sig] = (sz, what, cmd, case, observed, no_input, extra or {})

    def flush(self, chk):
        # one representative of every failure class first (the driver prints the first few)
        def cls(sig):
            return sig.rsplit(":", 1)[-1]
        seen = {}
        order = []
        for sig in sorted(self.best):
            seen[cls(sig)] = seen.get(cls(sig), 0) + 1
            order.append((seen[cls(sig)], sig))
        for _, sig in sorted(order):
            sz, what, cmd, case, observed, no_input, extra = self.best[sig]
            rp = {"kind": cmd, "case": clean(case), "observed": observed, "signature": sig,
                  "replay_cmd": "./check C10 --replay <this file>"}
            rp.update(extra)
            chk.violation(what, sig, rp, no_input=no_input)


def sig_of(case, cls):
    rn = case.get("_rname") or (case.get("recv") or {}).get("t", "?")
    return "%s.%s:%s" % (rn, case.get("name", case.get("op", "?")), cls)


# ---------------------------------------------------------------- model comparison
def model_term(case):
    """Coq term (rname, recv, kind, name, args) or None when the case has no tree-shaped rendering"""
    if case["op"] in ("index_get", "index_set", "json", "validate"):
        return None
    recv = case["recv"]
    if has_self(recv) or any(has_self(a) for a in case.get("args", [])):
        return None
    try:
        rv = coq_val(recv)
        args = "[" + ";".join(coq_val(a) for a in case.get("args", [])) + "]"
    except (ValueError, KeyError):
        return None
    kind = case["_kind"]
    if kind == "classprop" and case["op"] == "set":
        return None
    return "(%s, %s, %s, %s, %s)" % (coq_str(case["_rname"]), rv, coq_str(kind), coq_str(case["name"]), args)


RUN_CASE = "fun c => match c with (rn, rv, k, n, a) => run_case rn rv k n a end"


def compare_model(case, o, m):
    """-> None if consistent, else text"""
    if m == [[-2]]:
        return None
    mo, mr = m[0], m[1]
    call = case["op"] == "call"
    kind = o.get("kind")
    err = o.get("err", {})
    if mo[0] == 9:
        return "model predicts a crash"
    if mo[0] == 0:
        if call:
            ok = kind == "error" and err.get("class") == "exception"
        else:
            ok = kind == "error" and err.get("class") == "runtime" and err.get("code") == mo[1]
        if not ok:
            return "expected Zn error %d, observed %s" % (mo[1], json.dumps(o, ensure_ascii=False)[:160])
    elif mo[0] == 1:
        if not (kind == "error" and err.get("class") == "signal" and err.get("code") == 4):
            return "expected an exception signal, observed %s" % json.dumps(o, ensure_ascii=False)[:160]
    elif mo[0] == 2:
        if not (kind == "value" and TAGS.get(o["value"].get("t")) == mo[1]):
            return "expected a value of type %d, observed %s" % (mo[1], json.dumps(o, ensure_ascii=False)[:160])
    elif mo[0] == 3:
        if kind != "value":
            return "expected a value, observed %s" % json.dumps(o, ensure_ascii=False)[:160]
        v = dict(o["value"])
        if v.get("t") == "unit":
            if mo[1:] != [0]:
                return "expected %s, observed unit" % mo[1:]
        else:
            if "bytes" in o and v.get("t") == "str":
                v["bytes"] = list(bytes.fromhex(o["bytes"]))
            if enc_val(v) != mo[1:]:
                return "expected value %s, observed %s" % (str(mo[1:])[:120], str(enc_val(v))[:120])
    elif mo[0] == 4:
        okv = kind == "value" and TAGS.get(o["value"].get("t")) == mo[1]
        oke = kind == "error" and err.get("class") == "signal" and err.get("code") == 4
        if not (okv or oke):
            return "expected a value of type %d or an exception, observed %s" % (mo[1], json.dumps(o, ensure_ascii=False)[:160])
    if mr != [-1] and "recv_after" in o and case["recv"].get("t") not in ("global", "libfn", "stdclass", "stdobj", "class", "obj", "func", "strbytes"):
        if enc_val(o["recv_after"]) != mr:
            return "receiver afterwards: expected %s, observed %s" % (str(mr)[:120], str(enc_val(o["recv_after"]))[:120])
    return None


# ---------------------------------------------------------------- run
def run(chk, replay=None):
    global INV
    if INV is None:
        try:
            INV = gen.inventory()
        except Exception:
            INV = {"entries": [], "problems": ["translator failed"]}
    quick = chk.tier == "quick"
    fnd = Findings()
    cwd = tempfile.mkdtemp(prefix="znc10-")
    try:
        with open(os.path.join(cwd, "f.txt"), "w", encoding="utf8") as f:
            f.write("文件内容\n")
        os.mkdir(os.path.join(cwd, "d"))
        if replay is not None and replay.get("kind") == "program":
            run_sequences(chk, replay)
            return
        if replay is not None and replay.get("kind") == "modules":
            run_module_programs(chk, replay)
            return
        _run(chk, replay, quick, fnd, cwd)
    finally:
        shutil.rmtree(cwd, ignore_errors=True)
    fnd.flush(chk)
    if replay is None:
        run_module_programs(chk)
        run_sequences(chk)


def run_module_programs(chk, replay=None):
    """programs made of several files, ending in a fault whose rendering walks frames of several modules: a method of one module
    called under a local name or handed over as a value and called by another module, with the files of very different lengths
    (the faulting line may lie beyond the end of the file of the frame that is shown).  Judged for crashes only."""
    rng = chk.rng
    cases = []
    if replay is not None:
        cases = [replay["case"]]
    else:
        faults = ["输出 1 / 数", "输出【1】#{数 + 5}", "输出 未定义名 + 数", "令文 = “{}” % 数\n    输出文", "抛出异常：“坏”"]
        for _ in range(24 if chk.tier == "quick" else 300):
            pad_lib = "".join("令填%d = %d\n" % (i, i) for i in range(rng.choice([0, 1, 3, 10, 25])))
            pad_main = "".join("令垫%d = %d\n" % (i, i) for i in range(rng.choice([0, 0, 1, 5, 30])))
            lib = pad_lib + "如何求倒数？\n    输入数\n    %s\n\n如何应用？\n    输入法、量\n    输出（法：量）\n" % rng.choice(faults)
            how = rng.randrange(4)
            if how == 0:
                main = "导入“库”\n" + pad_main + "令算 = 求倒数\n输出（算：0）\n"
            elif how == 1:
                main = "导入“库”\n" + pad_main + "输出（应用：求倒数、0）\n"
            elif how == 2:
                main = "导入“库”\n" + pad_main + "如何本地？\n    输入数\n    %s\n\n输出（应用：本地、0）\n" % rng.choice(faults)
            else:
                main = "导入“库”\n" + pad_main + "令表 = 【求倒数】\n令取 = 表#1\n输出（取：0）\n"
            if rng.random() < 0.25:
                main += "\n拦截异常：\n    输出其内容\n"
            cases.append({"files": {"主.zn": main, "库.zn": lib}, "main": "主.zn"})
    tmproot = tempfile.mkdtemp(prefix="znc10m_")
    try:
        outs = core.harness("c15", "run", [dict(c, root=tmproot) for c in cases], timeout_ms=20000)
    finally:
        shutil.rmtree(tmproot, ignore_errors=True)
    for c, o in zip(cases, outs):
        chk.count(["modules", c["files"]])
        chk.dist("module-programs")
        cls = panic_class(o)
        if cls:
            chk.violation("%s while executing / rendering the error of a program of two files: 主.zn = %r, 库.zn = %r" % (
                cls, c["files"]["主.zn"][:200], c["files"]["库.zn"][:200]), "modules:%s" % cls,
                {"kind": "modules", "case": c, "observed": o, "replay_cmd": "./check C10 --replay <this file>"})


def run_sequences(chk, replay=None):
    """Multi-step programs (several collections, copies of them, mutators applied to the copies and the originals, display and
    iteration afterwards) through the interpreter and through the evaluator model Sem: a crash of the host, or any answer other
    than the model's value / Zn error, is reported.  The single-call sweep above cannot reach states that only a sequence builds
    (two dictionaries sharing storage after a copy, a list emptied by another name, ...)."""
    from vlib import semprop, proggen
    from props import c07
    profiles = [
        (3, proggen.Profile(collections=4.0, control=0.6, funcs=0.6, classes=0.8, exceptions=0.3, markers=0.3, type_errors=0.08, stmts=(5, 12))),
        (1, proggen.Profile(collections=2.0, funcs=1.5, classes=1.5, exceptions=1.0, type_errors=0.1)),
    ]
    n = 40 if chk.tier == "quick" else 500
    extra = [(c07.history(chk.rng), None, "copy-history") for _ in range(n)] if replay is None else []
    if replay is None:
        # a dictionary and its copy, a new key written to each / keys removed from each, then both displayed and iterated
        from vlib.semgen import Decl, Map, Num, Var, ExprS, Method, Str, Display, Iter, Return, Arr, AssignIndex
        for nk in (2, 3, 5):
            d = Map([("k%d" % i, Num(i)) for i in range(nk)])
            for ops in ([("甲", "写入", [Str("d"), Num(4)]), ("乙", "写入", [Str("e"), Num(5)])],
                        [("乙", "写入", [Str("e"), Num(5)]), ("甲", "写入", [Str("d"), Num(4)])],
                        [("甲", "移除", [Str("k0")]), ("乙", "移除", [Str("k%d" % (nk - 1))])],
                        [("乙", "移除", [Str("k0")]), ("甲", "写入", [Str("z"), Num(9)]), ("甲", "移除", [Str("k1")])]):
                body = [Decl([(False, ["甲"], d)]), Decl([(False, ["乙"], Var("甲"))])]
                for who, m, args in ops:
                    body.append(ExprS(Method(Var(who), [(m, args)])))
                    body.append(Display(Var("甲"), Var("乙")))
                body.append(Iter(Var("甲"), ["K", "V"], [Display(Var("K"), Var("V"))]))
                body.append(Iter(Var("乙"), ["K", "V"], [Display(Var("K"), Var("V"))]))
                body.append(Return(Arr([Var("甲"), Var("乙")])))
                extra.append((([], body, []), None, "dictionary-copy-witness"))
    semprop.run_property(chk, "C10", "c10s", profiles, 50, 700, replay=replay, extra_programs=extra,
                         what="a program crashes the host or answers differently from the evaluator model")


def check_inventory(chk):
    """C10_inventory_covered names the member when a new built-in has neither a clause nor a place in the named list"""
    if INV is None:
        return
    if INV["problems"]:
        chk.violation("the translator met member tables it cannot read: %s" % "; ".join(INV["problems"])[:300],
                      "inventory:unreadable", {"kind": "tie", "problems": INV["problems"]}, no_input=True)
    try:
        rc, out = core.coq_eval("c10inv_%d" % os.getpid(), IMPORTS + "\nEval vm_compute in (List.length uncovered, uncovered).\n", timeout=300)
    except Exception as e:  # noqa
        rc, out = 1, str(e)
    if rc != 0:
        chk.violation("the inventory could not be evaluated against the model clauses: " + out[-300:], "inventory:eval",
                      {"kind": "tie", "detail": out[-1500:]}, no_input=True)
        return
    import re
    m = re.search(r"=\s*\((\d+)%nat", out) or re.search(r"=\s*\((\d+)\s*,", out)
    n = int(m.group(1)) if m else -1
    chk.coverage["inventory_entries"] = len(INV["entries"])
    if n != 0:
        names = re.findall(r'\("([^"]*)",\s*"([^"]*)",\s*"([^"]*)"\)', out)
        chk.violation("built-in member(s) without a model clause and not in the differential-only list: %s"
                      % ", ".join("%s.%s(%s)" % (a, c, b) for a, b, c in names)[:400], "inventory:uncovered",
                      {"kind": "inventory", "uncovered": names, "theorem": "C10_inventory_covered"}, no_input=True)


def _run(chk, replay, quick, fnd, cwd):
    rng = chk.rng
    import time
    t0 = [time.time()]

    def phase(name):
        chk.coverage.setdefault('phase_s', {})[name] = round(time.time() - t0[0], 1)
        t0[0] = time.time()
    if replay is not None:
        cmd = replay["kind"]
        case = dict(replay["case"])
        if cmd in ("api", "prog") and "cwd" in case:
            case["cwd"] = cwd
        o = core.harness("c10", cmd, [case], timeout_ms=20000)[0]
        chk.count([cmd, clean(case)])
        cls = panic_class(o)
        sig = replay.get("signature", "replay")
        if cls:
            fnd.add(sig, "%s: %s -> %s" % (cls, describe(case)[:200], json.dumps(o, ensure_ascii=False)[:120]), cmd, case, o)
        elif cmd == "api" and replay.get("model_term"):
            res = core.coq_run_cases("c10r", IMPORTS, RUN_CASE, [replay["model_term"]], ty="list (list Z)")
            d = compare_model(dict(case, _rname=replay.get("rname"), _kind=replay.get("mkind")), o, res[0])
            if d:
                fnd.add(sig, d, cmd, case, o, no_input=True)
        return

    check_inventory(chk)

    # ---- corpus first
    corpus = load_corpus()
    for c in corpus:
        case = dict(c["case"])
        if "cwd" in case:
            case["cwd"] = cwd
        o = core.harness("c10", c["kind"], [case], timeout_ms=20000)[0]
        chk.count(["corpus", c["kind"], clean(case)])
        chk.dist("corpus")
        cls = panic_class(o)
        if cls is None and c["kind"] == "heapops" and any(has_deep(t) for t in o.get("trees", [])):
            cls = "cyclic-container"
        if cls:
            fnd.add(c.get("signature", "corpus:" + cls), "%s: %s" % (cls, describe(case)[:220]), c["kind"], case, o)

    phase('inventory+corpus')
    # ---- (a) API level
    api = gen_api_cases(chk, INV, cwd)
    outs = core.harness("c10", "api", [clean(c) for c in api], timeout_ms=8000, batch_timeout=900)
    model_idx = []
    for i, (c, o) in enumerate(zip(api, outs)):
        chk.count(["api", clean(c)], nontrivial=len(c.get("args", [])) > 0 or c["op"] in ("get", "json"))
        chk.dist("api:" + c["op"])
        chk.dist("api-arity:%d" % len(c.get("args", [])))
        if o.get("skipped"):
            chk.dist("api-skipped")
            continue
        cls = panic_class(o)
        if cls:
            fnd.add(sig_of(c, cls), "%s at API level: %s -> %s" % (cls, describe(c)[:220], json.dumps(o, ensure_ascii=False)[:100]), "api", c, o)
            chk.dist("api-outcome:abnormal")
            continue
        chk.dist("api-outcome:" + str(o.get("kind")))
        if i % 1999 == 0:
            chk.sample({"case": describe(c)[:160], "observed": json.dumps(o, ensure_ascii=False)[:120]})
        if model_term(c) is not None:
            model_idx.append(i)
    phase('api')
    # model comparison: every arity<=1 case and a seeded sample of the rest
    small = [i for i in model_idx if len(api[i].get("args", [])) <= 1]
    rest = [i for i in model_idx if len(api[i].get("args", [])) > 1]
    budget = 2200 if quick else 20000
    # index-arithmetic members on number pairs are always compared (取样 decodes/encodes UTF-8 in the model; 交换, 新增)
    forced = [i for i in rest if api[i]["name"] in ("取样", "交换", "新增") and api[i]["_rname"] in ("String", "Array")
              and len(api[i]["args"]) == 2 and api[i]["args"][1].get("t") == "num"
              and (api[i]["name"] == "新增" or api[i]["args"][0].get("t") == "num")]
    if quick:
        forced = [i for i in forced if api[i]["name"] == "取样"] + rng.sample([i for i in forced if api[i]["name"] != "取样"],
                                                                               min(300, len([i for i in forced if api[i]["name"] != "取样"])))
    fs = set(forced)
    rest = [i for i in rest if i not in fs]
    pick = forced + rng.sample(small, min(len(small), budget // 2)) + rng.sample(rest, min(len(rest), budget - budget // 2))
    pick.sort()
    terms = [model_term(api[i]) for i in pick]
    if terms:
        res = core.coq_run_cases("c10m", IMPORTS, RUN_CASE, terms, ty="list (list Z)", shard=300, timeout=900)
        for i, m in zip(pick, res):
            chk.dist("model:" + ("not-modelled" if m == [[-2]] else "compared"))
            d = compare_model(api[i], outs[i], m)
            if d:
                c = api[i]
                fnd.add("model-tie:%s.%s" % (c["_rname"], c["name"]),
                        "implementation and model (Builtins.exec) disagree on %s: %s" % (describe(c)[:200], d), "api",
                        dict(c), dict(outs[i], model=m), no_input=True,
                        extra={"model_term": model_term(c), "rname": c["_rname"], "mkind": c["_kind"]})
    chk.coverage["model_compared"] = len(terms)

    phase('api-model')
    # ---- validators against the model
    vcases = gen_validate_cases(chk)
    vouts = core.harness("c10", "api", [clean(c) for c in vcases])
    vterms = []
    for c in vcases:
        fn = {"exact": "validate_exact", "least": "validate_least", "all": "validate_all"}[c["name"]]
        tys = "[" + ";".join(coq_str(t) for t in c["types"]) + "]" if c["name"] != "all" else coq_str(c["types"][0])
        vterms.append("enc_vres (%s Repaired [%s] %s)" % (fn, ";".join(coq_val(a) for a in c["args"]), tys))
    vres = core.coq_run_cases("c10v", IMPORTS, "fun x => x", vterms, shard=300)
    for c, o, m in zip(vcases, vouts, vres):
        chk.count(["validate", clean(c)])
        chk.dist("validate:" + c["name"])
        cls = panic_class(o)
        c2 = dict(c, _rname="Validate", name=c["name"])
        if cls:
            fnd.add("Validate%sParams:%s" % (c["name"].capitalize(), cls),
                    "%s in Validate%sParams(%s) on %d values" % (cls, c["name"].capitalize(), c["types"], len(c["args"])), "api", c2, o)
            continue
        obs = [1] if o.get("kind") == "value" else [0, o.get("err", {}).get("code")]
        if obs != m:
            fnd.add("model-tie:Validate.%s" % c["name"], "validator model disagrees: types %s, %d values: model %s, observed %s"
                    % (c["types"], len(c["args"]), m, obs), "api", c2, o, no_input=True)

    # ---- VM accessors against the model
    vms = gen_vm_cases(chk)
    vmouts = core.harness("c10", "vmops", [{"ops": ops} for ops in vms])
    vmres = core.coq_run_cases("c10vm", IMPORTS, "fun ops => vm_run Repaired vm_init ops",
                               ["[" + ";".join(VM_COQ[o] for o in ops) + "]" for ops in vms], shard=400)
    for ops, o, m in zip(vms, vmouts, vmres):
        chk.count(["vmops", ops])
        chk.dist("vmops")
        cls = panic_class(o)
        if cls:
            fnd.add("vm-accessor:%s" % cls, "%s in VM accessors on a VM without a call frame/scope: ops %s" % (cls, ops), "vmops", {"ops": ops}, o)
        elif o.get("res") != m:
            fnd.add("model-tie:vm", "VM accessor model disagrees on %s: model %s observed %s" % (ops, m, o.get("res")), "vmops",
                    {"ops": ops}, o, no_input=True)

    phase('validators+vm')
    # ---- input-variable text
    vi = [{"text": t} for t in VARINPUT_TEXTS]
    for _ in range(40 if quick else 400):
        vi.append({"text": "A = " + rng.choice(["1 + ", "以", "", "（显示：", "【"]) + rnd_expr(rng).replace("甲", "B").replace("乙", "其C")
                   + rng.choice(["", "）", "】", "（加：1）", "之长度", "#1"])})
    for c, o in zip(vi, core.harness("c10", "varinput", vi)):
        chk.count(["varinput", c["text"]])
        chk.dist("varinput")
        cls = panic_class(o)
        if cls:
            fnd.add("varinput:%s" % cls, "%s in ExecVarInputText(%r)" % (cls, c["text"]), "varinput", c, o)

    # ---- (b) one-call programs through the interpreter
    progs = []
    seen = set()
    cap = 2500 if quick else 30000
    order = list(range(len(api)))
    rng.shuffle(order)
    order.sort(key=lambda i: len(api[i].get("args", [])))
    for i in order:
        if len(progs) >= cap:
            break
        c = api[i]
        if c["op"] in ("json",) or c.get("_kind") == "classprop":
            continue
        src = program_for(c)
        if src is None or src in seen:
            continue
        seen.add(src)
        progs.append((src, c))
    n_call = len(progs)
    for src in gen_operator_programs(chk):
        progs.append((src, {"op": "operator", "name": "operator", "_rname": "program"}))
    for src in gen_illtyped(chk, 400 if quick else 6000):
        progs.append((src, {"op": "illtyped", "name": "illtyped", "_rname": "program"}))
    for src in gen_handled_faults(chk):
        progs.append((src, {"op": "handled-fault", "name": "handled-fault", "_rname": "program"}))
    for src in gen_mutating_loops(chk, 150 if quick else 2500):
        progs.append((src, {"op": "mutating-loop", "name": "mutating-loop", "_rname": "program"}))
    pouts = core.harness("c10", "prog", [{"src": s, "cwd": cwd} for s, _ in progs], timeout_ms=8000, batch_timeout=1200)
    for k, ((src, c), o) in enumerate(zip(progs, pouts)):
        chk.count(["prog", src])
        chk.dist("prog:" + ("one-call" if k < n_call else c["op"]))
        cls = panic_class(o)
        if cls:
            sg = sig_of(c, cls) if k < n_call else "program.%s:%s" % (c["op"], cls)
            fnd.add(sg, "%s while executing a program: %s" % (cls, src.replace(PRELUDE, "…")[:260]), "prog", {"src": src, "cwd": cwd}, o)
        else:
            chk.dist("prog-outcome:" + str(o.get("kind")))
            if k % 997 == 0:
                chk.sample({"program": src.replace(PRELUDE, "…")[:200], "observed": json.dumps(o, ensure_ascii=False)[:100]})

    phase('programs')
    # ---- heap scripts against the heap model
    run_heap(chk, fnd)
    phase('heap')

    chk.coverage["rule"] = ("full table: every inventory member x receivers of its type x all argument tuples of arity<=2 over the %s pool "
                            "(%d values: numbers 0,-0,1,-1,.5,1.5,-10,1e308,5e-324,NaN,+-Inf,2^53,2^63,2^64..., texts empty/ASCII/CJK/astral, bools, "
                            "空, lists, dicts, nested, objects, functions, class refs, exceptions, the receiver itself) + seeded arity 3-4; every "
                            "member name on every other receiver type; every index value read/write; Validate* on random type lists; VM accessor "
                            "scripts; input-variable texts; the same calls as one-call programs through the interpreter; all binary operators "
                            "over pool pairs; ill-typed generated programs; every kind of failure under a handler that uses 其内容; loops whose body changes the collection they run over and then uses the loop variables; heap mutation scripts. distinct = distinct case; non-trivial = has "
                            "arguments (or is a getter)") % ("reduced" if quick else "full", len(POOL_QUICK if quick else POOL_FULL))


def run_heap(chk, fnd):
    if not os.path.exists(os.path.join(core.COQ, "model", "BuiltinsHeap.v")):
        return
    hs = gen_heap_cases(chk)
    houts = core.harness("c10", "heapops", hs, timeout_ms=8000)
    imports = ("From Coq Require Import List ZArith Bool. Import ListNotations.\nFrom Zn.model Require Import BuiltinsHeap.")
    hres = core.coq_run_cases("c10h", imports, "fun c => run_script (fst c) (snd c)", [heap_term(c) for c in hs], ty="list (list Z)", shard=200)
    for c, o, m in zip(hs, houts, hres):
        chk.count(["heap", c])
        chk.dist("heap-script")
        cls = panic_class(o)
        if cls:
            fnd.add("heap:%s" % cls, "%s after heap script %s" % (cls, json.dumps(c, ensure_ascii=False)[:200]), "heapops", c, o)
            continue
        trees = [flat_shape(t) for t in o.get("trees", [])]
        if any(has_deep(t) for t in o.get("trees", [])):
            fnd.add("heap:cyclic-container", "a list/dictionary contains itself after %s" % json.dumps(c, ensure_ascii=False)[:200], "heapops", c, o)
            continue
        if 0 in o.get("status", []):
            fnd.add("heap:nil-result", "nil result in heap script %s" % json.dumps(c, ensure_ascii=False)[:200], "heapops", c, o)
            continue
        if trees != m:
            fnd.add("model-tie:heap", "heap model disagrees on %s: model %s observed %s" % (json.dumps(c, ensure_ascii=False)[:160], str(m)[:100], str(trees)[:100]),
                    "heapops", c, o, no_input=True)


def has_deep(t):
    if t == [9]:
        return True
    if t and t[0] == 1:
        return any(has_deep(x) for x in t[1:])
    if t and t[0] == 2:
        return any(has_deep(x[1]) for x in t[1:])
    return False


def load_corpus():
    p = os.path.join(core.VERIF, "corpus", "C10", "cases.json")
    if os.path.exists(p):
        return json.load(open(p, encoding="utf8"))
    return []
