# C18 — Errors point at the line and call chain where they arose.
import json
import re
from vlib import core, semprop, proggen, semcheck
from vlib import semgen as G
from vlib.semgen import *

HARNESS = ["sem", "c15"]
CLAIM = dict(
    text=("Theorems (coq/props/C18.v): physical line starts (CR, LF, CRLF, LFCR) are strictly increasing and FindLineIdx returns the line "
          "containing the cursor, for every source and cursor; the LEXER's line table is that table — for every source the front-end model "
          "accepts the recorded line starts equal phys_starts, and in every state the lexer reaches they are the physical line starts up to "
          "the cursor (texts and comments spanning lines, all four line-end forms, backtick escapes: C18_lexer_lines_are_physical_lines, "
          "C18_lexer_lines_up_to_cursor); every statement starts with the running frame's line set to its own line and "
          "callers keep the line of their pending call; an expression that fails leaves the frame that evaluated it untouched — its line included "
          "— under the frames of the calls in progress, so that an expression statement, 输出, a declaration and a 每当 condition (first "
          "and every later pass) are reported at their own line; for every fuel, state and expression a returned call leaves no frame, a failed call "
          "leaves exactly its own frame above what its callees left, and a handled exception drops them (eval_expr_balanced), so the chain "
          "walked by the error display is the chain of active calls. Tie: (a) generated sources with multi-line texts and comments, CRLF/CR/LF "
          "line ends, wide characters and a syntax fault planted at a generator-known line and column: error cursor, reported line, quoted "
          "source line and caret column against the specification evaluated in Coq, and the lexer's recorded line starts against "
          "phys_starts; (b) generated programs ending in runtime faults at any call depth, after handled exceptions, with comments and "
          "multi-line texts shifting the lines: module/call type/line of every frame of the chain against the model, and the line numbers "
          "printed by DisplayError against that chain; (c) programs with one fault planted at a place known by construction (declaration, "
          "assignment, expression statement, 如果 / 每当 condition on the first and on later passes, 遍历 target, arguments, 输出; nested in "
          "blocks, methods, object methods and constructors): reported lines and quoted texts must be those of the faulting statement and "
          "of the calls leading to it — the expectation comes from the construction, not from the model."),
    note=semprop.TB + ("the lexer model (Lexer.v / StringLit.v) is hand-written and tied to the Go lexer by the per-run comparisons of C03/C05/C13 and, here, of the "
                       "Go lexer's recorded line starts with phys_starts; "
                       "one module only for the chain (module names of imported methods are C15's subject); East-Asian display widths are "
                       "checked for ASCII, CJK ideographs and full-width punctuation."),
    technique="Coq proof (line-start specification, FindLineIdx, frame/line bookkeeping invariants) + fault-planting correspondence",
    design="5/C18")

IMPORTS = "From Coq Require Import List ZArith Bool. Import ListNotations.\nFrom Zn.model Require Import Lines."


def width(ch):
    """display width by the Unicode data: East Asian Width W / F = 2 columns, combining and format characters 0, others 1
    (the generator draws from characters on which this and the printer's table agree on the repaired tree: ASCII, CJK,
    full-width forms, and the characters at the borders of the width ranges)"""
    import unicodedata
    if unicodedata.east_asian_width(ch) in "WF":
        return 2
    if unicodedata.category(ch) in ("Mn", "Me", "Cf"):
        return 0
    return 1


# characters at (and next to) the borders of the width ranges, harmless inside a text literal
WIDTH_POOL = "~}|ˇ˜჻⌧⌨〈〉⌫〽〾〿ゕゖ゛䶴䶵䷾䷿一龥힢힣豈頻﹪﹫｟｠｡ￜ￥￦𝟿aZ09 甲，。！"


def syntax_cases(rng, n):
    cases = []
    names = ["甲", "乙丙", "Va", "数量", "Xy"]
    for _ in range(n):
        eol = rng.choice(["\n", "\n", "\r\n", "\r"])
        lines = []
        for _ in range(rng.randrange(0, 7)):
            k = rng.random()
            nm = rng.choice(names) + rng.choice(["", "A", "二"])
            if k < 0.4:
                lines.append("令%s = %d" % (nm, rng.randrange(0, 99)))
            elif k < 0.55:
                lines.append("令%s = “第一行%s第二行”" % (nm, eol))
            elif k < 0.65:
                lines.append("令%s = “甲`%s乙”" % (nm, eol))          # a line break right after a backtick inside a text
            elif k < 0.75:
                lines.append("注：“多行%s注释%s结束”" % (eol, eol))
            elif k < 0.85:
                lines.append("注：一行注释")
            elif k < 0.92:
                lines.append("")
            else:
                lines.append("如果真：%s    令%s = 1" % (eol, nm))
        kind = rng.randrange(4)
        if kind == 3:
            # a line whose indentation itself is the fault: a space count that is not a multiple of four, or a TAB in a text
            # indented with spaces — reported at that line, at its first character after the indentation
            if rng.random() < 0.5:
                ind = " " * rng.choice([1, 2, 3, 5, 6, 7])
                lines.insert(0, "令首 = 0")
            else:
                ind = "\t"
                lines.insert(0, "令首 = 0")
                lines.append("如果真：%s    令内 = 1" % eol)
            fault_line, col = ind + "令坏 = 3", len(ind)
        elif kind == 0:
            pre = "令%s = %d + " % (rng.choice(names) + "宽字符", rng.randrange(1, 9))
            if rng.random() < 0.6:
                # a text holding characters from the borders of the width ranges stands before the fault
                pre = "令%s = “%s” + " % (rng.choice(names), "".join(rng.choice(WIDTH_POOL) for _ in range(rng.randrange(1, 6))))
            fault_line, col = pre + "）", len(pre)
        elif kind == 1:
            fault_line, col = "】", 0
        else:
            fault_line, col = "    令多余 = 1", 4                     # an over-indented line: the left-over token is the offending one
            lines.insert(0, "令首 = 0")                               # (the first line of a text fixes the base indent)
            lines.append("令前 = 1")                                  # (and a block header before it would make the indent legal)
        prefix = eol.join(lines) + (eol if lines else "")
        tail = eol + "令尾 = 1" + eol if rng.random() < 0.7 else ""
        src = prefix + fault_line + tail
        cursor = len(prefix) + col
        stripped = fault_line.lstrip(" \t")
        indent = len(fault_line) - len(stripped)
        caret = sum(width(c) for c in stripped[:col - indent])
        cases.append({"src": src, "cursor": cursor, "quoted": stripped, "caret": caret, "kind": kind, "eol": repr(eol)})
    return cases


def parse_display(text):
    m = re.search(r"第 (\d+) 行", text)
    ls = text.split("\n")
    line_no = int(m.group(1)) if m else None
    quoted = ls[1][4:] if len(ls) > 1 and ls[1].startswith("    ") else None
    caret = None
    if len(ls) > 2 and ls[2].rstrip().endswith("^"):
        caret = len(ls[2]) - 4 - 1
    return line_no, quoted, caret


def chain_lines(text):
    """line numbers printed by the runtime error display, outermost first (native frames print none)"""
    return [int(x) for x in re.findall(r"第 (\d+) 行", text)]


# ---- (c) planted faults: programs whose only fault sits at a place known by construction.  The expected report does not come
# from the evaluator model (which follows the code) but from the construction: the innermost statement that evaluates the
# faulting expression, and the call statements between it and the program's top level.
def planted_program(rng):
    fault, code = rng.choice([(Arith("/", Num(1), Num(0)), 90), (Index(Arr([Num(1)]), Num(5)), 40), (Var("Wundef"), 42)])
    uid = [0]

    def fresh(p):
        uid[0] += 1
        return "%s%d" % (p, uid[0])

    def filler():
        k = rng.randrange(5)
        if k == 0:
            return [ExprS(Str("多行\n文本"))]
        if k == 1:
            return [Decl([(False, [fresh("Vf")], Arr([Num(1), Num(2)]))])]
        if k == 2:
            return [Display(Num(rng.randrange(100)))]
        if k == 3:
            return [Branch(Logic("eq", Num(1), Num(2)), [Display(Num(0))], [], [Display(Num(1))])]
        return [Decl([(False, [fresh("Vf")], Str("a"))])]

    def fillers(n):
        out = []
        for _ in range(rng.randrange(0, n + 1)):
            out += filler()
        return out
    kinds = ["decl", "assign", "expr", "if-cond", "while-cond-first", "while-cond-later", "iter-target", "display-arg", "method-arg", "return"]
    kind = rng.choice(kinds)
    pre = []
    if kind == "decl":
        mark = Decl([(False, [fresh("Vd")], Arith("+", Num(1), fault))])
    elif kind == "assign":
        x = fresh("Va")
        pre = [Decl([(False, [x], Num(0))])]
        mark = ExprS(AssignVar(x, fault))
    elif kind == "expr":
        mark = ExprS(fault)
    elif kind == "if-cond":
        mark = Branch(Logic("eq", fault, Num(0)), [Display(Num(1))] + fillers(2), [], None)
    elif kind == "while-cond-first":
        mark = While(Logic("eq", fault, Num(0)), [Display(Num(1))] + fillers(2))
    elif kind == "while-cond-later":
        # the condition is fine on the first passes and faults when it is tested again after the body has run
        i = fresh("Vi")
        pre = [Decl([(False, [i], Num(0))])]
        fault, code = Arith("/", Num(10), Arith("-", Num(rng.randrange(1, 4)), Var(i))), 90
        body = fillers(2) + [ExprS(AssignVar(i, Arith("+", Var(i), Num(1))))] + fillers(2)
        if rng.random() < 0.5:
            # the passes before the faulting test leave the body through 继续循环 (on some line of the body, inside a branch)
            body = fillers(1) + [ExprS(AssignVar(i, Arith("+", Var(i), Num(1)))),
                                 Branch(Logic("gt", Var(i), Num(0)), fillers(1) + [Continue()], [], None)] + fillers(2)
        mark = While(Logic("gt", fault, Num(0)), body)
    elif kind == "iter-target":
        mark = Iter(Arr([Num(1), fault]), [], [Display(Num(1))])
    elif kind == "display-arg":
        mark = Display(Num(1), fault)
    elif kind == "method-arg":
        x = fresh("Vl")
        pre = [Decl([(False, [x], Arr([]))])]
        mark = ExprS(Method(Var(x), [("后增", [fault])]))
    else:
        mark = Return(Arith("*", Num(2), fault))
    stmts = pre + [mark]
    calls = []          # call statements from the fault outwards
    defs = []
    for _ in range(rng.randrange(0, 4)):
        w = rng.choice(["if", "while", "iter", "func", "func", "method", "ctor"])
        if w == "ctor" and kind == "return":
            w = "func"       # 输出 inside a constructor is not part of the planted shapes
        inner = fillers(2) + stmts + fillers(1)
        if w == "if":
            stmts = [Branch(Logic("eq", Num(1), Num(1)), inner, [], None)]
        elif w == "while":
            g = fresh("Vg")
            stmts = [Decl([(False, [g], Num(0))]), While(Logic("lt", Var(g), Num(1)), [ExprS(AssignVar(g, Num(1)))] + inner)]
        elif w == "iter":
            stmts = [Iter(Arr([Num(7)]), [], inner)]
        elif w == "func":
            f = fresh("Fp")
            defs.append(Func(f, [], inner, []))
            c = rng.choice([ExprS(Call(f, [])), Decl([(False, [fresh("Vr")], Arith("+", Call(f, []), Num(1)))]), Display(Call(f, []))])
            calls.append(c)
            stmts = [c]
        elif w == "ctor":
            # the statements run inside a custom constructor: the chain shows the line of the 新建 statement
            cn = fresh("Ck")
            defs.append(Class(cn, [("Pa", Num(1))], []))
            defs.append(Ctor(cn, [], inner, []))
            c = Decl([(False, [fresh("Vo")], New(cn, []))])
            calls.append(c)
            stmts = [c]
        else:
            cn, mn = fresh("Cp"), fresh("Mp")
            defs.append(Class(cn, [("Pa", Num(1))], [(mn, [], inner, [])]))
            o = fresh("Vo")
            c = ExprS(Method(Var(o), [(mn, [])]))
            calls.append(c)
            stmts = [Decl([(False, [o], New(cn, []))]), c]
    body = defs + fillers(3) + stmts + fillers(2)
    return ([], body, []), mark, calls, code, kind


def run_planted(chk, n):
    rng = chk.rng
    import random as _r
    cases = []
    for _ in range(n):
        prog, mark, calls, code, kind = planted_program(rng)
        txt, r = G.render(prog, None, _r.Random(rng.random()))
        want = [r.line_of[id(c)] + 1 for c in reversed(calls)] + [r.line_of[id(mark)] + 1]
        cases.append((prog, txt, want, code, kind))
    outs = core.harness("sem", "run", [{"src": c[1], "mode": "vm", "inputs": {}} for c in cases], timeout_ms=8000)
    for (prog, txt, want, code, kind), o in zip(cases, outs):
        chk.count(["planted", txt])
        chk.dist("planted:%s:depth%d" % (kind, len(want) - 1))
        e = o.get("err") or {}
        # a fault inside a method reaches the caller as an exception of the default class (no code)
        reported = o.get("kind") == "error" and (e.get("code") == code or (len(want) > 1 and e.get("class") == "goexception"))
        if not reported:
            chk.violation("a planted fault (%s, code %d) was not reported: %s; program:\n%s" % (kind, code, str(o)[:160], txt[:400]),
                          "planted:not-reported", {"kind": "planted", "text": txt, "observed": o, "expected_code": code})
            continue
        disp = e.get("display", "")
        got = chain_lines(disp)
        src_lines = re.split(r"\r\n|\n|\r", txt)
        quoted = [l[4:] for l in disp.split("\n") if l.startswith("    ")]
        wantq = [src_lines[k - 1].strip() for k in want]
        if got != want or [q.strip() for q in quoted[:len(wantq)]] != wantq:
            chk.violation("a runtime fault planted in a %s is reported at lines %s (quoting %s); the statement that faults and the calls "
                          "leading to it are on lines %s (%s); program:\n%s" % (kind, got, quoted, want, wantq, txt[:500]),
                          "planted:" + ("line" if got != want else "quote"),
                          {"kind": "planted", "text": txt, "fault_kind": kind, "reported_lines": got, "expected_lines": want,
                           "display": disp})


def run_module_chains(chk, replay=None):
    """a fault inside a method of an imported module (at a line known by construction), reached through calls that cross module
    borders: every entry of the displayed chain names its module, the line of ITS file, and quotes that line of that file"""
    import tempfile
    import shutil
    rng = chk.rng
    cases = []
    if replay is not None:
        cases = [replay["case"]]
    else:
        for _ in range(12 if chk.tier == "quick" else 120):
            pad_lib = ["令填%d = %d" % (i, i) for i in range(rng.choice([0, 1, 3, 7]))]
            pad_main = ["令垫%d = %d" % (i, i + 50) for i in range(rng.choice([0, 2, 5, 12]))]
            fault = rng.choice(["令结果 = 甲 / 乙", "输出【1】#{甲 + 5}", "输出 无此名称 + 甲"])
            lib = pad_lib + ["如何取商？", "    输入甲、乙", "    令备 = 1", "    " + fault, "    输出 0", ""]
            lib_fault_line = len(pad_lib) + 4
            inner_call = "    输出（取商：%d、0）" % rng.randrange(1, 9)
            if rng.random() < 0.5:
                lib += ["如何外层？", "    令先 = 2", inner_call, ""]
                lib_call_line = len(lib) - 1
                main_call = "令每份 = （外层）"
                chain = [("主", None), ("库", lib_call_line), ("库", lib_fault_line)]
            else:
                main_call = "令每份 = （取商：%d、0）" % rng.randrange(1, 9)
                chain = [("主", None), ("库", lib_fault_line)]
            main = ["导入“库”"] + pad_main + [main_call, "输出每份"]
            main_line = len(pad_main) + 2
            chain[0] = ("主", main_line)
            cases.append({"files": {"主.zn": "\n".join(main) + "\n", "库.zn": "\n".join(lib)}, "main": "主.zn", "chain": chain})
    tmproot = tempfile.mkdtemp(prefix="znc18m_")
    try:
        outs = core.harness("c15", "run", [{"files": c["files"], "main": c["main"], "root": tmproot} for c in cases], timeout_ms=20000)
    finally:
        shutil.rmtree(tmproot, ignore_errors=True)
    for c, o in zip(cases, outs):
        chk.count(["module-chain", c["files"]])
        chk.dist("module-chain")
        text = o.get("errtext") or ""
        src = {"主": c["files"]["主.zn"].split("\n"), "库": c["files"]["库.zn"].split("\n")}
        # the display: a head line and "来自…" lines, each followed by the quoted source line
        got = []
        lines = text.split("\n")
        for i, l in enumerate(lines):
            m = re.search(r"第 (\d+) 行", l)
            if m:
                mod = "库" if "库" in l else "主"
                quoted = lines[i + 1].strip() if i + 1 < len(lines) else ""
                got.append((mod, int(m.group(1)), quoted))
        want = [(mod, ln, src[mod][ln - 1].strip()) for mod, ln in c["chain"]]
        if o.get("kind") != "error" or got != want:
            chk.violation("a fault inside an imported module is reported as %s; the calls leading to it and the fault are at %s; files %s" % (
                got, want, json.dumps(c["files"], ensure_ascii=False)[:400]), "module-chain",
                {"kind": "module-chain", "case": c, "observed": o, "expected": want, "replay_cmd": "./check C18 --replay <this file>"})


def run(chk, replay=None):
    rng = chk.rng
    quick = chk.tier == "quick"
    if replay is not None and replay.get("kind") == "module-chain":
        run_module_chains(chk, replay)
        return
    if replay is None:
        run_module_chains(chk)
    if replay is not None and replay.get("kind") == "program":
        semprop.run_property(chk, "C18", "c18", [], 0, 0, replay=replay, what="reported line / call chain differs from the place the error arose")
        return
    # ---------- (a) syntax errors at a known line and column
    cases = syntax_cases(rng, 150 if quick else 2000) if replay is None else [replay["case"]]
    outs = core.harness("sem", "parse", [{"src": c["src"]} for c in cases])
    terms = ["(%s, %d)" % (core.zlist([ord(ch) for ch in c["src"]]), c["cursor"]) for c in cases]
    model = core.coq_run_cases("c18a", IMPORTS, "fun p => [[line_of (fst p) (snd p)]; phys_starts (fst p)]", terms,
                               case_ty="list Z * Z", shard=100)
    for c, o, m in zip(cases, outs, model):
        chk.count(["syntax", c["src"]])
        chk.dist("syntax-fault:kind%d:eol=%s" % (c["kind"], c["eol"]))
        want_line = m[0][0] + 1
        starts = m[1]
        e = o.get("err") or {}
        if o.get("kind") != "error" or e.get("class") != "syntax":
            chk.violation("a planted syntax fault was not reported as a syntax error: %r -> %s" % (c["src"][:80], str(o)[:120]),
                          "syntax:not-reported", {"kind": "syntax", "case": c, "observed": o})
            continue
        line_no, quoted, caret = parse_display(e.get("display", ""))
        got_starts = o.get("lines", [])
        problems = []
        if e.get("cursor") != c["cursor"]:
            problems.append("error cursor %s, offending character at %d" % (e.get("cursor"), c["cursor"]))
        if line_no != want_line:
            problems.append("reported line %s, physical line %d" % (line_no, want_line))
        if quoted != c["quoted"]:
            problems.append("quoted %r, source line %r" % (quoted, c["quoted"]))
        if caret != c["caret"]:
            problems.append("caret column %s, expected %d" % (caret, c["caret"]))
        # the lexer's line table up to the fault must be a prefix of the physical line starts
        k = min(len(got_starts), len(starts))
        if got_starts[:k] != starts[:k] or len(got_starts) > len(starts):
            problems.append("lexer line starts %s, physical line starts %s" % (got_starts[:12], starts[:12]))
        if problems:
            sig = "syntax:" + ("line" if any("line" in p for p in problems) else ("caret" if any("caret" in p for p in problems) else "cursor"))
            chk.violation("syntax error position: %s; source %r" % ("; ".join(problems), c["src"][:120]), sig,
                          {"kind": "syntax", "case": c, "observed": {"cursor": e.get("cursor"), "display": e.get("display"), "lines": got_starts},
                           "expected": {"line": want_line, "starts": starts}, "replay_cmd": "./check C18 --replay <this file>"})
    if cases:
        chk.sample({"syntax_case": cases[0]["src"][:200], "fault_at": cases[0]["cursor"]})
    if replay is not None:
        return
    # ---------- (b) runtime faults: the chain of active calls with their lines
    def display_matches_chain(m, impl, text):
        raw = impl.get("raw", {})
        if raw.get("kind") != "error":
            return None
        disp = (raw.get("err") or {}).get("display", "")
        chain = m[2]
        want = [chain[i + 1] + 1 for i in range(0, len(chain), 2) if chain[i] != 4]
        got = chain_lines(disp)
        if want != got:
            return "call chain differs in the displayed text: lines shown %s, lines of the active frames %s" % (got, want)
        return None

    profiles = [
        (3, proggen.Profile(exceptions=2.5, funcs=2.5, classes=1.2, control=0.8, collections=0.5, markers=0.3, type_errors=0.03)),
        (1, proggen.Profile(exceptions=1.5, funcs=2.0, classes=2.0, control=1.5, markers=0.2)),
    ]
    extra = []
    # witness: G catches F's throw, a later fault on line 8 must not show the returned calls
    extra.append((([], [Func("F", [], [Throw("异常", [Str("boom")])], []),
                        Func("G", [], [ExprS(Call("F", [])), Return(Num(1))], [("异常", [Return(Num(2))])]),
                        Decl([(False, ["R"], Call("G", []))]), ExprS(Str("多行\n文本")),
                        Func("H", ["X"], [Return(Arith("/", Num(1), Var("X")))], []),
                        Decl([(False, ["Y"], Call("H", [Num(0)]))])], []), None, "witness"))
    semprop.run_property(chk, "C18", "c18", profiles, 120, 1500, extra_programs=extra, decorate=True, extra_check=display_matches_chain,
                         what="reported line / call chain differs from the place the error arose")
    run_planted(chk, 150 if quick else 3000)
    chk.coverage["rule"] = ("(c) programs with one fault planted in a declaration, assignment, expression statement, 如果 / 每当 condition "
                            "(first and later passes), 遍历 target, call or method argument, 输出, nested 0-3 levels deep in blocks, methods "
                            "and object methods, decorated with comments / multi-line texts: reported lines and quoted texts must be those "
                            "of the faulting statement and of the calls leading to it (expectation by construction, not from the model); "
                            "(a) sources of 0-6 lines (declarations, two-line texts incl. a break right after a backtick, multi-line and one-line "
                            "comments, blank lines, a branch) with one syntax fault of 3 kinds planted after them, LF/CRLF/CR line ends; "
                            "(b) generated programs with methods, types, raise points and handlers, decorated with comments and multi-line texts; "
                            "distinct = distinct source text")
