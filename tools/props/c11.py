# C11 — Execution is deterministic.
import os
from vlib import core, semprop, proggen
from vlib.semgen import *

HARNESS = "sem"
CLAIM = dict(
    text=("Theorems (coq/props/C11.v): the evaluator model is a function of program, inputs and fuel; equality of dictionaries "
          "(为 / 不为 / == / 包含 / 寻找) is invariant under every permutation of either operand's entries (contents only, "
          "induction on the nesting fuel); 遍历, 所有索引/所有值 and display follow the one stored key order. Tie: every generated program is "
          "executed several times in-process (Go draws fresh map iteration orders each time): all repetitions must agree with each other "
          "and with the model; static inventory of every range-over-map statement in the interpreter's source, checked against the "
          "allow-list of sites whose order is proved or argued unobservable."),
    note=semprop.TB + "取随机数 is excluded; scheduling/timing nondeterminism is not in the single-goroutine model (C16/C20).",
    technique="Coq proof (permutation invariance of structural equality) + repeated-execution correspondence + go/ast map-range inventory",
    design="5/C11")

PROFILES = [
    (3, proggen.Profile(collections=3.0, control=1.2, classes=1.0, funcs=0.8, exceptions=0.5, markers=0.4)),
    (1, proggen.Profile()),
]


def dict_cases(rng):
    out = []
    keys = ["a", "b", "c", "d", "e", "f"]
    for _ in range(12):
        n = rng.randrange(2, 6)
        ks = rng.sample(keys, n)
        d1 = Map([(k, Num(rng.randrange(0, 3))) for k in ks])
        ks2 = list(ks)
        rng.shuffle(ks2)
        vals = {k: v for k, v in d1[1]}
        d2 = Map([(k, vals[k] if rng.random() < 0.8 else Num(9)) for k in ks2])
        op = rng.choice(["xeq", "xneq", "eq", "neq"])
        body = [Decl([(False, ["D"], d1)]), Decl([(False, ["E"], d2)]),
                Decl([(False, ["L"], Arr([Num(1), Var("D"), Var("E")]))]),
                Display(Logic(op, Var("D"), Var("E")), Method(Var("L"), [("包含", [Var("E")])]), Method(Var("L"), [("寻找", [Var("E")])])),
                Iter(Var("E"), ["K", "V"], [Display(Var("K"), Var("V"))]),
                Return(Arr([Logic(op, Var("D"), Var("E")), Member(Var("E"), "所有索引"), Member(Var("D"), "所有值")]))]
        out.append((([], body, []), None, "dict-equality"))
    return out


def run(chk, replay=None):
    extra = dict_cases(chk.rng) if replay is None else []
    semprop.run_property(chk, "C11", "c11", PROFILES, 90, 900, replay=replay, extra_programs=extra, repeat=6,
                         what="outcome depends on something other than program and inputs")
    inventory(chk)


ALLOWED_SITES = {
    # file:function -> why the iteration order is not observable
    "pkg/value/object.go:NewObject": "each property is copied independently into a map; allocation order is not observable",
    "pkg/exec/eval.go:evalImportStmt": "exports are declared under distinct names (C15)",
    "pkg/common/elem2json.go:buildPlainValueFromElement": "ranges over keyOrder slice / see C19",
    "pkg/common/elem2json.go:buildElementFromPlainValue": "see C19 (document order)",
    "pkg/runtime/vm.go:LoadExternalLibs": "slice",
    "pkg/runtime/verif_access.go:VerifScopeInfo": "verif hook; result sorted",
    "pkg/server/verif_hooks.go:*": "verif hook: copies the master's table into a snapshot map",
    "pkg/value/value_util.go:containsElement": "existential search (is the container reachable?): the boolean answer does not depend on the visiting order",
    "pkg/runtime/module.go:checkCircularDepedencyDFS": "boolean answer independent of visiting order (C15_dfs_iff_cycle)",
    "pkg/error/io_error.go:ReadFileError": "lookup only",
    "pkg/server/http_handler.go:*": "request headers / query: C16",
    "pkg/server/pg_handler.go:*": "C16",
    "pkg/server/pm_server.go:*": "C20",
    "pkg/common/http_request.go:*": "C16",
    "pkg/common/http_resp.go:*": "C16",
    "stdlib/http/http_helper.go:*": "network library, not modelled (DESIGN.md section 8)",
    "pkg/exec/exec_varinput.go:ExecExpressionInputText": "each input text is evaluated independently on its own VM; only the choice of the first reported error could depend on the order (C05/C10 cover the evaluation itself)",
}


def inventory(chk):
    """every `range` over a map in the interpreter packages (go/ast + go/types in the harness binary)"""
    import json as _json
    tool = os.path.join(core.BUILD, "maprange" + core.REPO_TAG)
    src = os.path.join(core.VERIF, "harness_tools", "maprange")
    rc, out = core.sh(["go", "build", "-o", tool, "."], cwd=src, env=core.GOENV, timeout=300)
    o = {}
    if rc == 0:
        rc2, out2 = core.sh([tool, core.REPO], cwd=core.REPO, env=core.GOENV, timeout=300)
        try:
            o = _json.loads(out2.strip().split("\n")[-1])
        except ValueError:
            o = {"error": out2[-300:]}
    else:
        o = {"error": out[-300:]}
    if "sites" not in o:
        chk.violation("map-range inventory could not be computed: %s" % str(o)[:300], "c11:inventory-failed",
                      {"kind": "tie", "detail": o}, no_input=True)
        return
    chk.coverage["map_range_sites"] = o["sites"]
    for s in o["sites"]:
        key = "%s:%s" % (s["file"], s["func"])
        wild = "%s:*" % s["file"]
        chk.count(["maprange", key])
        if key not in ALLOWED_SITES and wild not in ALLOWED_SITES:
            chk.violation("a range over a Go map whose iteration order is not shown to be unobservable: %s line %d (%s)" % (key, s["line"], s["expr"]),
                          "c11:maprange:" + key, {"kind": "maprange", "site": s}, no_input=True)
