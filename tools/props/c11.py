import json
# C11 — Execution is deterministic.
import os
from vlib import core, semprop, proggen
from vlib.semgen import *

HARNESS = ["sem", "c15"]
CLAIM = dict(
    text=("Theorems (coq/props/C11.v): the evaluator model is a function of program, inputs and fuel; equality of dictionaries "
          "(为 / 不为 / == / 包含 / 寻找) is invariant under every permutation of either operand's entries (contents only, "
          "induction on the nesting fuel); 遍历, 所有索引/所有值 and display follow the one stored key order. Tie: every generated program is "
          "executed several times in-process (Go draws fresh map iteration orders each time): all repetitions must agree with each other "
          "and with the model; values built by a library (解析JSON of generated documents with objects nested in arrays and objects, then "
          "displayed and regenerated) are executed eight times in one process and must give one outcome, and so must programs made of "
          "several module files (whole / selective imports, a module imported again after other imports), six runs each; static inventory of every range-over-map statement in the interpreter's source, checked against the "
          "allow-list of sites whose order is proved or argued unobservable."),
    note=semprop.TB + "取随机数 is excluded; scheduling/timing nondeterminism is not in the single-goroutine model (C16/C20).",
    technique="Coq proof (permutation invariance of structural equality) + repeated-execution correspondence + go/ast map-range inventory",
    design="5/C11")

PROFILES = [
    (3, proggen.Profile(collections=3.0, control=1.2, classes=1.0, funcs=0.8, exceptions=0.5, markers=0.4)),
    (1, proggen.Profile()),
]


def dict_cases(rng):
    out = []
    keys = ["a", "b", "c", "d", "e", "f"]
    for _ in range(12):
        n = rng.randrange(2, 6)
        ks = rng.sample(keys, n)
        d1 = Map([(k, Num(rng.randrange(0, 3))) for k in ks])
        ks2 = list(ks)
        rng.shuffle(ks2)
        vals = {k: v for k, v in d1[1]}
        d2 = Map([(k, vals[k] if rng.random() < 0.8 else Num(9)) for k in ks2])
        op = rng.choice(["xeq", "xneq", "eq", "neq"])
        body = [Decl([(False, ["D"], d1)]), Decl([(False, ["E"], d2)]),
                Decl([(False, ["L"], Arr([Num(1), Var("D"), Var("E")]))]),
                Display(Logic(op, Var("D"), Var("E")), Method(Var("L"), [("包含", [Var("E")])]), Method(Var("L"), [("寻找", [Var("E")])])),
                Iter(Var("E"), ["K", "V"], [Display(Var("K"), Var("V"))]),
                Return(Arr([Logic(op, Var("D"), Var("E")), Member(Var("E"), "所有索引"), Member(Var("D"), "所有值")]))]
        out.append((([], body, []), None, "dict-equality"))
    return out


def gen_json(rng, d=0):
    k = rng.random()
    if d >= 3 or k < 0.25:
        return rng.choice([1, 2.5, -3, True, False, None, "a", "文", ""])
    if k < 0.55:
        return [gen_json(rng, d + 1) for _ in range(rng.randrange(0, 4))]
    keys = rng.sample(["a", "b", "c", "d", "e", "f", "g", "键", "k1", "k2"], rng.randrange(2, 7))
    return {kk: gen_json(rng, d + 1) for kk in keys}


JSON_PROG = ("导入《@JSON》\n输入文本\n令结果 = （解析JSON：文本）\n（显示：结果）\n"
             "（显示：（生成JSON：【“v” = 结果】））\n输出结果\n")


def json_determinism(chk, n, replay=None):
    """values built by a library (解析JSON) and handed back (生成JSON, display, result): the same program on the same input, executed
    eight times in one process, must give one outcome.  No model is involved: any difference between two runs is a violation."""
    import json as _json
    rng = chk.rng
    docs = []
    if replay is not None:
        docs = [replay["document"]]
    else:
        docs.append('{"条目":[{"a":1,"b":2,"c":3,"d":4,"e":5,"f":6},{"z":true,"y":null,"x":"s","w":[{"k":1,"j":2,"i":3}]}]}')
        for _ in range(n):
            top = gen_json(rng)
            if not isinstance(top, (dict, list)):
                top = {"v": top, "w": [gen_json(rng, 1), gen_json(rng, 1)]}
            docs.append(_json.dumps(top, ensure_ascii=rng.random() < 0.3, separators=rng.choice([(",", ":"), (", ", ": ")])))
    cases = [{"src": JSON_PROG, "mode": "exec", "inputs": {"文本": {"t": "str", "v": [ord(c) for c in d]}}, "repeat": 8} for d in docs]
    outs = core.harness("sem", "run", cases, timeout_ms=8000)
    for d, o in zip(docs, outs):
        chk.count(["json", d])
        chk.dist("json-determinism")
        runs = o.get("runs") if isinstance(o, dict) else None
        if not runs:
            chk.violation("repeated execution of the JSON program crashed: %s" % str(o)[:200], "json:crash", {"kind": "json", "document": d, "observed": o})
            continue
        def key(r):
            return _json.dumps({k: v for k, v in r.items() if k in ("kind", "value", "display", "err")}, sort_keys=True, ensure_ascii=False)
        distinct = sorted({key(r) for r in runs})
        if len(distinct) > 1:
            show = ["".join(chr(c) for c in (r.get("display") or [[]])[0]) for r in runs[:4]]
            chk.violation("the same program on the same input gave %d different outcomes in 8 runs (解析JSON of %s): first displays %s"
                          % (len(distinct), d[:200], show), "json:nondeterministic",
                          {"kind": "json", "document": d, "program": JSON_PROG, "outcomes": distinct[:4], "replay_cmd": "./check C11 --replay <this file>"})


def modules_determinism(chk, n, replay=None):
    """programs made of several module files (whole and selective imports, a module imported again after other imports,
    methods that use their home module), each executed six times in one process: one outcome.  No model is involved."""
    import copy
    import shutil
    import tempfile
    from props import c15
    rng = chk.rng
    cases = []
    if replay is not None:
        cases = [replay["case"]]
    else:
        kinds = {}
        while len(cases) < n:
            c = c15.random_case(rng, kinds)
            if rng.random() < 0.6:
                # import one of the modules once more, after the other imports of the file
                fs = [f for f in c["files"].values() if [i for i in f["imports"] if not i["name"].startswith("@")]]
                if fs:
                    f = rng.choice(fs)
                    first = [i for i in f["imports"] if not i["name"].startswith("@")][0]
                    again = copy.deepcopy(first)
                    if rng.random() < 0.4:
                        again["items"] = []
                    f["imports"].append(again)
            cases.append(c)
        # a module imported as a whole, another one (several methods that call each other) imported as a whole, the first one
        # imported again (as a whole or by name), then every imported method called: whatever the re-import does (in this tree:
        # error 43), it does the same on every run
        for _ in range(max(10, n // 3)):
            mk = [0]

            def mark():
                mk[0] += 1
                return ["mark", mk[0]]
            na, nb = rng.randrange(1, 3), rng.randrange(2, 5)
            fa = ["法甲%d" % i for i in range(na)]
            fb = ["法乙%d" % i for i in range(nb)]
            defs_a = [{"fun": f, "body": [mark()] + ([["call", fa[-1]]] if f != fa[-1] else [])} for f in fa]
            defs_b = [{"fun": f, "body": [mark()] + ([["call", fb[-1]]] if f != fb[-1] else [])} for f in fb]
            again = {"name": "模甲", "items": [] if rng.random() < 0.5 else [fa[0]]}
            main = {"imports": [{"name": "模甲", "items": []}, {"name": "模乙", "items": []}, again], "defs": [],
                    "body": [mark()] + [["call", f] for f in rng.sample(fb, len(fb))] + [["call", fa[0]], mark()]}
            cases.append({"kind": "reimport", "root": "", "main": "主.zn",
                          "files": {"主.zn": main, "模甲.zn": {"imports": [], "defs": defs_a, "body": [mark()]},
                                    "模乙.zn": {"imports": [], "defs": defs_b, "body": [mark()]}}, "edges": []})
    tmproot = tempfile.mkdtemp(prefix="znc11_")
    try:
        for c in cases:
            inp = c15.harness_input(c, tmproot)
            outs = core.harness("c15", "run", [inp] * 6, timeout_ms=30000)
            chk.count(["modules", c["main"], {k: c15.render_source(v) for k, v in c["files"].items()}])
            chk.dist("modules-determinism")
            obs = [json.dumps(c15.impl_obs(o), ensure_ascii=False) for o in outs]
            if len(set(obs)) > 1:
                chk.violation("the same set of module files gave %d different outcomes in 6 runs: %s; files %s"
                              % (len(set(obs)), sorted(set(obs))[:3],
                                 json.dumps({k: c15.render_source(v) for k, v in c["files"].items()}, ensure_ascii=False)[:400]),
                              "modules:nondeterministic", {"kind": "modules", "case": c, "outcomes": sorted(set(obs))[:4],
                                                           "replay_cmd": "./check C11 --replay <this file>"})
    finally:
        shutil.rmtree(tmproot, ignore_errors=True)


def thrown_object_program(rng):
    """an object of a user-defined type with several properties, thrown: uncaught (the program ends with whatever the type's
    exception says), or caught and shown.  Whatever is shown, it is the same on every run."""
    names = rng.sample(["货号", "仓库", "缺口", "Pa", "Pb", "Pc", "备注"], rng.randrange(2, 6))
    props = [(n, rng.choice([Str("s"), Num(rng.randrange(0, 9)), Arr([Num(1)])])) for n in names]
    if rng.random() < 0.3:
        props.append(("内容", Str("msg")))
    body = [Class("库存不足", props, []),
            Ctor("库存不足", ["Xa", "Xb"], [ExprS(AssignThis(names[0], Var("Xa"))), ExprS(AssignThis(names[1], Var("Xb")))], [])]
    thrower = [Display(Str("before")), Throw("库存不足", [Str("SKU-7"), Num(rng.randrange(1, 9))]), Display(Str("unreachable"))]
    how = rng.randrange(3)
    if how == 0:
        body += thrower
        return ([], body, [])
    if how == 1:
        body.append(Func("Fz", [], thrower, []))
        body.append(Display(Call("Fz", [])))
        return ([], body, [])
    body += thrower
    return ([], body, [("库存不足", [Display(Str("caught"), Member(Var("其"), names[0]) if False else ThisProp(names[0])), Return(ThisProp(names[1]))])])


def run(chk, replay=None):
    if replay is not None and replay.get("kind") == "modules":
        modules_determinism(chk, 0, replay)
        return
    if replay is None:
        modules_determinism(chk, 60 if chk.tier == "quick" else 800)
    if replay is not None and replay.get("kind") == "json":
        json_determinism(chk, 0, replay)
        return
    json_determinism(chk, 40 if chk.tier == "quick" else 600) if replay is None else None
    extra = dict_cases(chk.rng) if replay is None else []
    if replay is None:
        extra += [(thrown_object_program(chk.rng), None, "thrown-object") for _ in range(25 if chk.tier == "quick" else 300)]
    semprop.run_property(chk, "C11", "c11", PROFILES, 90, 900, replay=replay, extra_programs=extra, repeat=6,
                         what="outcome depends on something other than program and inputs")
    inventory(chk)


# digests (maprange tool: the loop as written, comments excluded) of the loops the reasons below were given for
ALLOWED_DIGESTS = {
    "pkg/runtime/module.go:checkCircularDepedencyDFS": ["61558cf12db64c61"],
    "pkg/runtime/verif_access.go:VerifScopeInfo": ["fc2517e0293b75aa"],
    "pkg/runtime/vm.go:OwnsType": ["450ee5f2af99313a"],
    "pkg/value/object.go:NewObject": ["2f9206f852b83b37"],
    "pkg/value/value_util.go:containsElement": ["50c036d155a2f8fb"],
    "pkg/common/elem2json.go:buildElementFromPlainValue": ["69baa0769225db34"],
    "pkg/exec/eval.go:evalImportStmt": ["aa21d45046f5e7a6", "299fa524eb5d7e26"],
    "pkg/exec/exec_varinput.go:ExecExpressionInputText": ["a753d88740bb44a0"],
}

ALLOWED_SITES = {
    # file:function -> why the iteration order is not observable
    "pkg/value/object.go:NewObject": "each property is copied independently into a map; allocation order is not observable",
    "pkg/exec/eval.go:evalImportStmt": "exports are declared under distinct names (C15)",
    "pkg/common/elem2json.go:buildPlainValueFromElement": "ranges over keyOrder slice / see C19",
    "pkg/common/elem2json.go:buildElementFromPlainValue": "see C19 (document order)",
    "pkg/runtime/vm.go:LoadExternalLibs": "slice",
    "pkg/runtime/verif_access.go:VerifScopeInfo": "verif hook; result sorted",
    "pkg/server/verif_hooks.go:*": "verif hook: copies the master's table into a snapshot map",
    "pkg/value/value_util.go:containsElement": "existential search (is the container reachable?): the boolean answer does not depend on the visiting order",
    "pkg/runtime/vm.go:OwnsType": "existential search (is the type one of this execution's predefined values?): the boolean answer does not depend on the visiting order",
    "pkg/runtime/module.go:checkCircularDepedencyDFS": "boolean answer independent of visiting order (C15_dfs_iff_cycle)",
    "pkg/error/io_error.go:ReadFileError": "lookup only",
    "pkg/server/http_handler.go:*": "request headers / query: C16",
    "pkg/server/pg_handler.go:*": "C16",
    "pkg/server/pm_server.go:*": "C20",
    "pkg/common/http_request.go:*": "C16",
    "pkg/common/http_resp.go:*": "C16",
    "stdlib/http/http_helper.go:*": "network library, not modelled (DESIGN.md section 8)",
    "pkg/exec/exec_varinput.go:ExecExpressionInputText": "each input text is evaluated independently on its own VM; only the choice of the first reported error could depend on the order (C05/C10 cover the evaluation itself)",
}


def inventory(chk):
    """every `range` over a map in the interpreter packages (go/ast + go/types in the harness binary)"""
    import json as _json
    tool = os.path.join(core.BUILD, "maprange" + core.REPO_TAG)
    src = os.path.join(core.VERIF, "harness_tools", "maprange")
    rc, out = core.sh(["go", "build", "-o", tool, "."], cwd=src, env=core.GOENV, timeout=300)
    o = {}
    if rc == 0:
        rc2, out2 = core.sh([tool, core.REPO], cwd=core.REPO, env=core.GOENV, timeout=300)
        try:
            o = _json.loads(out2.strip().split("\n")[-1])
        except ValueError:
            o = {"error": out2[-300:]}
    else:
        o = {"error": out[-300:]}
    if "sites" not in o:
        chk.violation("map-range inventory could not be computed: %s" % str(o)[:300], "c11:inventory-failed",
                      {"kind": "tie", "detail": o}, no_input=True)
        return
    chk.coverage["map_range_sites"] = o["sites"]
    for s in o["sites"]:
        key = "%s:%s" % (s["file"], s["func"])
        wild = "%s:*" % s["file"]
        chk.count(["maprange", key])
        if key in ALLOWED_DIGESTS and s.get("digest") not in ALLOWED_DIGESTS[key]:
            # the reason recorded for this loop is a statement about what the loop does: the loop has been rewritten
            chk.violation("the range over a Go map in %s (line %d, over %s) is not the loop whose iteration order was shown to be "
                          "unobservable (%s): it was rewritten and must be examined again" % (key, s["line"], s["expr"], ALLOWED_SITES.get(key, "")[:120]),
                          "c11:maprange-changed:" + key, {"kind": "maprange", "site": s, "known_digests": ALLOWED_DIGESTS[key]}, no_input=True)
            continue
        if key not in ALLOWED_SITES and wild not in ALLOWED_SITES:
            chk.violation("a range over a Go map whose iteration order is not shown to be unobservable: %s line %d (%s)" % (key, s["line"], s["expr"]),
                          "c11:maprange:" + key, {"kind": "maprange", "site": s}, no_input=True)
