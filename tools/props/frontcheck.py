# Shared checking machinery of C03 / C05: running the front-end harness, judging outcomes, corruptions, shrinking.
import json
import os
import random

from vlib import core
from props import frontgen as fg

HARNESS = "front"
SYNTAX_CODES = {20, 21, 22, 23, 24, 25, 26, 27}


def text_of(cps):
    return "".join(chr(c) for c in cps)


def parse_many(texts, timeout_ms=2000):
    return core.harness(HARNESS, "parse", [{"src": fg.cps(t)} for t in texts], timeout_ms=timeout_ms)


# ------------------------------------------------------------------ judging one outcome (what C05 demands of EVERY input)

def display_issue(src, out):
    """check the rendered error: succeeds, and the quoted line is the physical line of the source holding the cursor"""
    if "display_panic" in out:
        p = out["display_panic"]
        if "index out of range" in p:
            return "display-panic:index-out-of-range", "rendering the error panics: " + p
        if "Repeat" in p:
            return "display-panic:negative-repeat", "rendering the error panics: " + p
        return "display-panic:other", "rendering the error panics: " + p
    if "display" not in out:
        return None
    disp = text_of(out["display"])
    # format: head line \n "    "+quoted [\n "    "+spaces+"^"] \n\n class[code]：message \n
    tail = disp.rfind("\n\n语法错误")
    if tail < 0:
        return "display-format", "error text without message line: %r" % disp[:80]
    head_nl = disp.find("\n")
    body = disp[head_nl + 1:tail]
    k = body.rfind("\n")
    if k < 0 or body[k + 1:].strip(" ") != "^":
        return "display-format", "no cursor mark line: %r" % disp[:80]
    quoted = body[:k]
    if not quoted.startswith("    "):
        return "display-format", "quoted line not indented: %r" % disp[:80]
    quoted = quoted[4:]
    cursor = out.get("cursor", 0)
    cursor = min(max(cursor, 0), len(src))
    ln, lines = fg.line_of(src, cursor)
    want = lines[ln]
    if "\n" in quoted or "\r" in quoted:
        return "display-quote:spans-lines", "quoted text %r spans more than one line of the source" % quoted
    if "\x00" in quoted and "\x00" not in want:
        return "display-quote:nul-appended", "quoted line %r contains U+0000 which is not in the source line %r" % (quoted, want)
    if quoted != want and quoted != want.lstrip(" \t") and not (want.endswith(quoted) and want[:len(want) - len(quoted)].strip(" \t") == ""):
        if quoted in [l for l in lines] or quoted in [l.lstrip(" \t") for l in lines]:
            # a line of the source, but not the one the error position is on (the lexer records every physical line up to
            # the cursor — C18_lexer_lines_up_to_cursor — so the line that holds the position is known to it)
            return "display-quote:wrong-line", "quoted %r is a line of the source but the error position (cursor %d) is on the line %r" % (quoted, cursor, want)
        return "display-quote:not-a-line", "quoted %r is not a line of the source (cursor line is %r)" % (quoted, want)
    return None


def judge(src, out):
    """-> list of (signature, description) : ways in which this outcome breaks C05 (every input) / C03 completeness"""
    issues = []
    if out.get("not_run"):
        return []       # the batch was stopped after many hanging inputs (reported from those): this input was not run
    if out.get("hang"):
        sig = "hang:statement-after-catch-block" if "拦截" in src else "hang:other"
        return [(sig, "compilation does not terminate")]
    if "panic" in out:
        return [("panic:compile", "compilation panics: " + str(out["panic"])[:120])]
    if "crash" in out:
        return [("crash:compile", "compilation kills the process: " + str(out["crash"])[:120])]
    if out.get("ok"):
        bad = fg.incomplete_parts(out["tree"])
        if bad:
            issues.append(("incomplete:" + bad[0], "accepted with a half-built tree: required part(s) nil: " + ", ".join(bad[:4])))
        return issues
    if out.get("class") != "syntax":
        issues.append(("error-class", "compile error is not a syntax error: " + str(out.get("class"))))
        return issues
    if out.get("code") not in SYNTAX_CODES:
        issues.append(("error-code", "syntax error without a known code: " + str(out.get("code"))))
    cur = out.get("cursor")
    if not isinstance(cur, int) or cur < 0 or cur > len(src):
        issues.append(("cursor-out-of-range", "error cursor %s outside 0..%d" % (cur, len(src))))
    d = display_issue(src, out)
    if d:
        issues.append(d)
    return issues


# ------------------------------------------------------------------ corruptions of valid renderings

def corruptions(rng, pieces, n):
    """token-level and line-level corruptions of a rendering given as (kind, text) pieces"""
    out = []
    tok_idx = [i for i, (k, _) in enumerate(pieces) if k == "tok"]
    text = "".join(t for _, t in pieces)
    for _ in range(n):
        k = rng.random()
        ps = list(pieces)
        if k < 0.2 and tok_idx:
            i = rng.choice(tok_idx)
            ps[i] = ("tok", "")
            out.append(("delete-token", "".join(t for _, t in ps)))
        elif k < 0.35 and tok_idx:
            i = rng.choice(tok_idx)
            ps.insert(i, ps[i])
            out.append(("duplicate-token", "".join(t for _, t in ps)))
        elif k < 0.5 and len(tok_idx) > 1:
            i, j = rng.sample(tok_idx, 2)
            ps[i], ps[j] = ps[j], ps[i]
            out.append(("swap-tokens", "".join(t for _, t in ps)))
        elif k < 0.6:
            out.append(("truncate", text[:rng.randrange(0, len(text) + 1)]))
        elif k < 0.9:
            lines, starts = fg.split_lines(text)
            eol = "\n" if "\n" in text or "\r" not in text else "\r"
            if "\r\n" in text:
                eol = "\r\n"
            i = rng.randrange(len(lines))
            j = rng.random()
            unit = "\t" if "\n\t" in text or "\r\t" in text else "    "
            if j < 0.2:
                del lines[i]
                how = "delete-line"
            elif j < 0.4:
                lines.insert(i, lines[i])
                how = "duplicate-line"
            elif j < 0.55 and len(lines) > 1:
                a = rng.randrange(len(lines))
                lines[i], lines[a] = lines[a], lines[i]
                how = "swap-lines"
            elif j < 0.8:
                if lines[i].startswith(unit):
                    lines[i] = lines[i][len(unit):]
                how = "dedent-line"
            else:
                lines[i] = unit + lines[i]
                how = "indent-line"
            out.append((how, eol.join(lines)))
        else:
            i = rng.randrange(0, len(text) + 1)
            ins = rng.choice(["“", "”", "「", "`", "（", "）", "【", "】", "{", "}", "：", "\n", "\r", "\t", " ", "\x00", "注：", "/*", "，", "、"])
            out.append(("insert-char", text[:i] + ins + text[i:]))
    return out


FUZZ_ALPHABET = (list("令为以其或且之的设恒新建何不如果再输出入拦截导定义得到否则每当遍历等于大小抛继续循环结束注")
                 + list("，,、：:；;？?！!【[】]（(）){}《》「」“”『』‘’&@#=<>+-*/|%`")
                 + ["\n", "\r", "\r\n", "\t", " ", "    ", "　", "\x00", "\x01", "\x0b", "\x0c", "\x7f", "\x85", " ", "​", "﻿",
                    "�", "\U0001F600", "́", "A", "b", "1", "2", ".", "_", "甲", "乙", "中", "é", "ß", "Ω", "あ", "한"])


def fuzz_text(rng, maxlen=24):
    n = rng.choice([0, 1, 2, 3, 4, 6, 8, 12, 16, maxlen])
    k = rng.random()
    out = []
    for _ in range(n):
        if k < 0.85 or rng.random() < 0.9:
            out.append(rng.choice(FUZZ_ALPHABET))
        else:
            c = rng.randrange(0, 0x110000)
            if 0xD800 <= c < 0xE000:
                c = 0x4E00
            out.append(chr(c))
    return "".join(out)


# ------------------------------------------------------------------ shrinking

def shrink_text(text, pred_batch, max_rounds=12):
    """greedy chunk removal on characters grouped in lines then tokens; pred_batch(list of texts) -> list of bool"""
    def units_of(t, mode):
        if mode == "line":
            us = []
            cur = ""
            for ch in t:
                cur += ch
                if ch in "\r\n":
                    us.append(cur)
                    cur = ""
            if cur:
                us.append(cur)
            return us
        return list(t)

    for mode in ("line", "char"):
        units = units_of(text, mode)
        size = max(len(units) // 2, 1)
        rounds = 0
        while size >= 1 and rounds < max_rounds and len(units) > 1:
            cands = []
            for i in range(0, len(units), size):
                cands.append(units[:i] + units[i + size:])
            oks = pred_batch(["".join(c) for c in cands])
            rounds += 1
            hit = [c for c, ok in zip(cands, oks) if ok]
            if hit:
                units = min(hit, key=len)
                size = max(min(size, len(units) // 2), 1)
                if len(units) <= 1:
                    break
            else:
                if size == 1:
                    break
                size = max(size // 2, 1)
        text = "".join(units)
    return text


def same_issue_pred(sig, timeout_ms=700):
    def pred(texts):
        outs = parse_many(texts, timeout_ms=timeout_ms)
        return [any(s == sig for s, _ in judge(t, o)) for t, o in zip(texts, outs)]
    return pred


# ------------------------------------------------------------------ corpus

def load_corpus(pid):
    d = os.path.join(core.VERIF, "corpus", pid)
    out = []
    if os.path.isdir(d):
        for fn in sorted(os.listdir(d)):
            if fn.endswith(".json"):
                obj = json.load(open(os.path.join(d, fn), encoding="utf8"))
                for c in (obj if isinstance(obj, list) else [obj]):
                    out.append(c)
    return out
