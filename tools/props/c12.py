# C12 — Lists are 1-indexed sequences, dictionaries insertion-ordered maps.
# Tie (T3): the executable model coq/model/Collections.v (proved to refine SeqSpec / OMapSpec in
# coq/props/C12.v) is evaluated inside Coq on generated operation histories; the same histories are applied
# to the real value.Array / value.HashMap / value.IV through their public API (harness/cmd/c12), and a smaller
# number is rendered as programs (display after every operation).
import json
import math
import os
import struct
from vlib import core

HARNESS = "c12"

TB = ("hand-written Gallina model tied to /repo by the per-run correspondence check (Go harness built -tags verif from "
      "the working tree, model evaluated inside Coq by vm_compute on the same histories); generators and comparison code in tools/; ")
CLAIM = dict(
    text=("Theorems (coq/props/C12.v, closed under the global context) about an executable model of pkg/value/array.go, "
          "hashmap.go, iv.go and the iteration order of evalIterateStmt, for ALL finite operation histories: the dictionary "
          "invariant (keyOrder duplicate-free and equal to the key set of the Go map) is preserved by every operation, "
          "hmExecDelete's edit-while-ranging loop removes exactly the key and cannot panic under it; the dictionary refines an "
          "insertion-ordered association list (overwrite keeps place, insert appends, re-insert appends) and the list a "
          "1-indexed sequence, with equal results and equal collections after every step and no Go panic; read = last write, "
          "长度 = number of stored elements, iteration / 所有索引 / 所有值 / display / JSON key order are all the one abstract order; "
          "laws of 后增 前增 左移 右移 (also on the empty list) 交换 逆序 合并 包含 寻找 拼接 首项 末项; out-of-range # and missing keys give the index errors and leave "
          "the collection unchanged, writing a new key inserts. The model is tied to the code on every run: all short histories over a "
          "small alphabet and long random ones (indices 0, negative, > length, fractional, huge, NaN, Inf; duplicate keys; "
          "nested values) applied to the real objects, results and full dumps compared after every operation, plus programs; every "
          "collection a 'copy' operation duplicated is kept, and any later operation on the copy that changes it (contents or display) is reported."),
    note=TB + ("insertArrayValue is modelled as repaired by fixes/C12-1.patch (negative position beyond the front clamps to the front; the "
               "pinned code panics). Go facts restated, validated by the run: float64->int conversion as on amd64, %v of the "
               "generated numbers, strings.Join. Lists are modelled as element sequences (slice aliasing is C07's). Dictionary `为` "
               "inside 包含/寻找 is modelled comparing all keys (C01/C11's repair) and generators avoid dictionaries of two or more keys "
               "there. JSON key order is stated over the model's view (C19 repairs and checks the code); 寻找's base and fractional "
               "positions are not judged (DESIGN.md section 10)."),
    technique="Coq proof (induction over operation histories, refinement to abstract sequence / ordered-map specifications) + model/implementation correspondence by vm_compute",
    design="5/C12")

IMPORTS = ("From Coq Require Import List ZArith Bool. Import ListNotations.\n"
           "From Zn.model Require Import CollectionsTypes Collections.")

# ------------------------------------------------------------------ values
def N(z):
    return {"t": "num", "k": "int", "z": int(z)}


def H(fl):
    return {"t": "num", "k": "half", "z": int(fl)}


NAN = {"t": "num", "k": "nan"}


def INF(neg):
    return {"t": "num", "k": "inf", "neg": bool(neg)}


def BIG(neg):
    return {"t": "num", "k": "big", "neg": bool(neg)}


def S(s):
    return {"t": "str", "v": [ord(c) for c in s]}


NULL = {"t": "null"}


def B(b):
    return {"t": "bool", "v": bool(b)}


def L(items):
    return {"t": "list", "v": list(items)}


def D(pairs):
    return {"t": "dict", "v": [[[ord(c) for c in k] if isinstance(k, str) else k, v] for k, v in pairs]}


def coq_text(cps):
    return core.zlist(cps)


def coq_num(v):
    k = v["k"]
    if k == "int":
        return "NInt (%d)" % v["z"]
    if k == "half":
        return "NHalf (%d)" % v["z"]
    if k == "nan":
        return "NNaN"
    if k == "inf":
        return "NInf %s" % core.coq_bool(v["neg"])
    return "NBig %s" % core.coq_bool(v["neg"])


def coq_val(v):
    t = v["t"]
    if t == "null":
        return "VNull"
    if t == "bool":
        return "VBool %s" % core.coq_bool(v["v"])
    if t == "num":
        return "VNum (%s)" % coq_num(v)
    if t == "str":
        return "VStr %s" % coq_text(v["v"])
    if t == "list":
        return "VList [%s]" % ";".join(coq_val(x) for x in v["v"])
    return "VDict [%s]" % ";".join("(%s,%s)" % (coq_text(k), coq_val(x)) for k, x in v["v"])


def coq_vals(vs):
    return "[" + ";".join(coq_val(x) for x in vs) + "]"


def src_text(cps):
    return "“" + "".join(chr(c) for c in cps) + "”"


def src_val(v):
    t = v["t"]
    if t == "null":
        return "空"
    if t == "bool":
        return "真" if v["v"] else "假"
    if t == "num":
        if v["k"] == "int":
            return "%d" % v["z"]
        if v["k"] == "half":
            fl = v["z"]
            return ("%d.5" % fl) if fl >= 0 else ("-%d.5" % (-fl - 1))
        raise ValueError("number not expressible in a program")
    if t == "str":
        return src_text(v["v"])
    if t == "list":
        return "【" + "，".join(src_val(x) for x in v["v"]) + "】"
    if not v["v"]:
        return "【=】"
    return "【" + "，".join("%s=%s" % (src_text(k), src_val(x)) for k, x in v["v"]) + "】"


# flat encoding of a harness DumpValue tree, identical to CollectionsTypes.enc_val
def enc_num_bits(bits):
    f = struct.unpack(">d", bytes.fromhex(bits))[0]
    if f != f:
        return [2, 0]
    if math.isinf(f):
        return [3, 1 if f < 0 else 0]
    if f == 1e300:
        return [4, 0]
    if f == -1e300:
        return [4, 1]
    if abs(f) < 2 ** 62:
        if f == math.floor(f):
            return [0, int(f)]
        if f - math.floor(f) == 0.5:
            return [1, int(math.floor(f))]
    return [99, int(bits, 16)]


def enc_dump(d):
    t = d["t"]
    if t == "null":
        return [0]
    if t == "bool":
        return [1, 1 if d["v"] else 0]
    if t == "num":
        return [2] + enc_num_bits(d["bits"])
    if t == "str":
        return [3, len(d["v"])] + list(d["v"])
    if t == "list":
        out = [4, len(d["v"])]
        for x in d["v"]:
            out += enc_dump(x)
        return out
    if t == "dict":
        out = [5, len(d["v"])]
        for k, x in d["v"]:
            out += [len(k)] + list(k) + enc_dump(x)
        return out
    if t == "nil":
        return [9]
    return [98]


def enc_hm_dump(d):
    if d.get("t") != "dict":
        return [97]
    out = [len(d["v"])]
    for k, x in d["v"]:
        out += [len(k)] + list(k) + enc_dump(x)
    return out + [d["maplen"]]


def enc_text(t):
    if t is None:
        return [-1]
    return [len(t)] + list(t)


def enc_result(r):
    if r["kind"] == "ok":
        return [0] + enc_dump(r["v"])
    if r["kind"] == "err":
        c = r.get("code")
        return [1, c if isinstance(c, int) else -5]
    return [2]


# ------------------------------------------------------------------ operations
LPROPS = {"文本": "PText", "首项": "PFirst", "末项": "PLast", "数目": "PCount", "长度": "PLength", "逆序": "PReverse", "不存在": "PUnknown"}
LMETHS = {"新增": "MInsert", "添加": "MAdd", "前增": "MPrepend", "后增": "MAppend", "左移": "MShift", "右移": "MPop", "拼接": "MJoin",
          "合并": "MMerge", "包含": "MContains", "寻找": "MFind", "交换": "MSwap", "不存在": "MUnknown"}
DPROPS = {"数目": "DPCount", "长度": "DPLength", "所有索引": "DPKeys", "所有值": "DPValues", "不存在": "DPUnknown"}
DMETHS = {"读取": "DMGet", "写入": "DMSet", "移除": "DMDelete", "不存在": "DMUnknown"}


def coq_lop(o):
    k = o["op"]
    if k == "iget":
        return "LIndexGet (%s)" % coq_val(o["i"])
    if k == "iset":
        return "LIndexSet (%s) (%s)" % (coq_val(o["i"]), coq_val(o["v"]))
    if k == "getp":
        return "LGetProp %s" % LPROPS[o["p"]]
    if k == "setp":
        return "LSetProp %s (%s)" % (LPROPS[o["p"]], coq_val(o["v"]))
    if k == "meth":
        return "LMethod %s %s" % (LMETHS[o["m"]], coq_vals(o.get("args", [])))
    return {"rev": "LAssignReverse", "copy": "LCopy", "iter": "LIterate"}[k]


def coq_dop(o):
    k = o["op"]
    if k == "iget":
        return "DIndexGet (%s)" % coq_val(o["i"])
    if k == "iset":
        return "DIndexSet (%s) (%s)" % (coq_val(o["i"]), coq_val(o["v"]))
    if k == "getp":
        return "DGetProp %s" % DPROPS[o["p"]]
    if k == "setp":
        return "DSetProp (%s)" % coq_val(o["v"])
    if k == "meth":
        return "DMethod %s %s" % (DMETHS[o["m"]], coq_vals(o.get("args", [])))
    return {"copy": "DCopy", "iter": "DIterate"}[k]


class Pool:
    """Coq parses ~3000 tokens a second, so every distinct operation / start collection of a batch is defined once
    (Definition o<k> ...) and the case terms only name them."""

    def __init__(self, kind):
        self.kind = kind
        self.names = {}
        self.defs = []

    def name(self, prefix, obj, render, ty):
        key = prefix + json.dumps(obj, sort_keys=True)
        if key not in self.names:
            nm = "%s%d" % (prefix, len(self.names))
            self.names[key] = nm
            self.defs.append("Definition %s : %s := %s." % (nm, ty, render(obj)))
        return self.names[key]

    def case(self, c):
        if self.kind == "list":
            i = self.name("i", c["init"], coq_vals, "list val")
            ops = [self.name("o", o, coq_lop, "lop") for o in c["ops"]]
        else:
            i = self.name("i", c["init"], lambda kv: "[%s]" % ";".join("(%s,%s)" % (coq_text(k), coq_val(v)) for k, v in kv),
                          "list (text * val)")
            ops = [self.name("o", o, coq_dop, "dop") for o in c["ops"]]
        return "(%s, [%s])" % (i, ";".join(ops)) if ops else "(%s, @nil %s)" % (i, "lop" if self.kind == "list" else "dop")

    def imports(self):
        return IMPORTS + "\n" + "\n".join(self.defs)


def coq_eval_cases(kind, cases, fn, name):
    pool = Pool(kind)
    terms = [pool.case(c) for c in cases]
    return core.coq_run_cases(name, pool.imports(), fn, terms, shard=400)


def op_name(o):
    return o.get("p") or o.get("m") or {"iget": "#读", "iset": "#写", "rev": "逆序赋值", "copy": "复制", "iter": "遍历"}.get(o["op"], o["op"])


# ------------------------------------------------------------------ generators
KEYS = ["甲", "乙", "丙", "丁", "a", "b", "12", "3"]
STRS = ["", "a", "甲", "ab", "你好", "x y"]


def gen_scalar(rng, api=True):
    r = rng.random()
    if r < 0.45:
        # stored (hence displayed) numbers stay below 10^6 in magnitude: from there on fmt's %v switches to the
        # exponent form, which the model does not render; huge numbers are used as positions only
        return N(rng.choice([0, 1, 2, 3, 5, 7, -1, -4, 10, 12, 100, 99999, -99999, 999999]))
    if r < 0.65:
        return S(rng.choice(STRS) if api else rng.choice(["a", "甲", "ab", "你好"]))
    if r < 0.75:
        return NULL
    if r < 0.85:
        return B(rng.random() < 0.5)
    if r < 0.93:
        return H(rng.choice([0, 1, 2, -1, -3, 7]))
    if not api:
        return N(rng.randrange(-5, 50))
    return rng.choice([NAN, INF(False), INF(True), BIG(False), BIG(True)])


def gen_val(rng, depth=2, api=True, nodict2=False):
    r = rng.random()
    if depth <= 0 or r < 0.7:
        return gen_scalar(rng, api)
    if r < 0.87:
        return L([gen_val(rng, depth - 1, api, nodict2) for _ in range(rng.randrange(0, 4))])
    n = rng.randrange(0, 2 if nodict2 else 4)
    ks = rng.sample(KEYS, n)
    return D([(k, gen_val(rng, depth - 1, api, nodict2)) for k in ks])


def gen_index(rng, n, api=True):
    """a list index: in range, the edges, 0, negative, > length, fractional, huge, NaN/Inf"""
    r = rng.random()
    if r < 0.45 and n > 0:
        return N(rng.randrange(1, n + 1))
    if r < 0.62:
        return N(rng.choice([0, -1, -2, -n, -n - 1, n + 1, n + 2, 2 * n + 3, n]))
    if r < 0.78:
        return H(rng.choice([0, 1, -1, -2, n, n - 1, n + 1, max(0, n // 2)]))
    if r < 0.86:
        return N(rng.choice([4503599627370495, -4503599627370495, 2 ** 31, -2 ** 31, 2 ** 32 + 1]))
    if not api:
        return N(rng.randrange(-3, n + 4))
    return rng.choice([NAN, INF(False), INF(True), BIG(False), BIG(True)])


def gen_lop(rng, n, api=True):
    """one list operation given the current length n (used only to aim indices)"""
    r = rng.random()
    if r < 0.10:
        return {"op": "iget", "i": gen_index(rng, n, api)}
    if r < 0.20:
        return {"op": "iset", "i": gen_index(rng, n, api), "v": gen_val(rng, 2, api)}
    if r < 0.30:
        return {"op": "getp", "p": rng.choice(["文本", "首项", "末项", "数目", "长度", "逆序", "逆序", "首项", "末项"] + (["不存在"] if api else []))}
    if r < 0.36:
        return {"op": "setp", "p": rng.choice(["首项", "末项"] + (["长度", "不存在"] if api and rng.random() < 0.2 else [])), "v": gen_val(rng, 2, api)}
    if r < 0.42:
        return {"op": "rev"}
    if r < 0.46:
        return {"op": "copy"}
    if r < 0.50:
        return {"op": "iter"}
    m = rng.choice(["新增", "新增", "添加", "前增", "前增", "后增", "后增", "后增", "左移", "右移", "拼接", "合并", "合并", "包含", "寻找", "寻找", "交换", "交换", "交换"]
                   + (["不存在"] if api else []))
    if m in ("新增", "添加"):
        pos = gen_index(rng, n, api)
        if rng.random() < 0.5:
            pos = N(rng.choice([0, 1, n - 1, n, n + 1, -1, -2, -n, -n - 1, -n - 7, n // 2]))
        args = [gen_val(rng, 2, api), pos]
    elif m in ("前增", "后增"):
        args = [gen_val(rng, 2, api)]
    elif m in ("左移", "右移"):
        args = [] if rng.random() < 0.8 or not api else [gen_val(rng, 1, api)]
    elif m == "拼接":
        args = [S(rng.choice(["", "-", "，"]))]
    elif m == "合并":
        args = [L([gen_val(rng, 1, api) for _ in range(rng.randrange(0, 3))]) for _ in range(rng.randrange(0, 3))]
        if api and rng.random() < 0.4:
            # the receiver itself among the arguments: 以A（合并：B、A） is A ++ B ++ A with the A of before the call
            for _ in range(rng.choice([1, 1, 2])):
                args.insert(rng.randrange(0, len(args) + 1), {"t": "self"})
    elif m in ("包含", "寻找"):
        args = [gen_val(rng, 2, api, nodict2=True)]
    elif m == "交换":
        args = [gen_index(rng, n, api), gen_index(rng, n, api)]
        if rng.random() < 0.25:
            # a fractional position between 0 and 1 (no item there) beside a valid one
            args[rng.randrange(2)] = H(0)
            if n > 0 and rng.random() < 0.7:
                args[1 - args.index(H(0))] = N(rng.randrange(1, n + 1))
    else:
        args = [gen_val(rng, 1, api)]
    # occasionally break the arity / the types (parameter validation)
    if api and rng.random() < 0.05:
        k = rng.random()
        if k < 0.4 and args:
            args = args[:-1]
        elif k < 0.7:
            args = args + [gen_val(rng, 1, api)]
        elif args:
            args[rng.randrange(len(args))] = gen_val(rng, 1, api)
    return {"op": "meth", "m": m, "args": args}


def est_len(n, o):
    if o["op"] == "meth":
        m = o["m"]
        if m in ("新增", "添加", "前增", "后增"):
            return n + 1
        if m in ("左移", "右移"):
            return max(0, n - 1)
        if m == "合并":
            return n + sum(len(a["v"]) for a in o["args"] if a["t"] == "list") + n * sum(1 for a in o["args"] if a["t"] == "self")
    return n


def gen_list_init(rng, api=True):
    init = [gen_val(rng, 2, api) for _ in range(rng.choice([0, 0, 1, 2, 3, 5]))]
    if rng.random() < 0.15:
        init = [S(rng.choice(["a", "甲", "bc"])) for _ in range(rng.randrange(0, 4))]   # 拼接 succeeds
    return init


class Pools:
    """a per-run pool of operations and start collections; histories draw from it (keeps the Coq terms small)"""

    def __init__(self, rng, api, nops):
        ok = (lambda kind, o: True) if api else (lambda kind, o: prog_ok_case(kind, {"init": [], "ops": [o]}))
        self.lops, self.dops = [], []
        while len(self.lops) < nops:
            o = gen_lop(rng, rng.randrange(0, 7), api)
            if ok("list", o):
                self.lops.append(o)
        while len(self.dops) < nops:
            o = gen_dop(rng, api)
            if ok("dict", o):
                self.dops.append(o)
        self.linits, self.dinits = [], []
        while len(self.linits) < 14:
            i = gen_list_init(rng, api)
            if api or prog_ok_case("list", {"init": i, "ops": []}):
                self.linits.append(i)
        while len(self.dinits) < 14:
            i = gen_dict_init(rng, api)
            if api or prog_ok_case("dict", {"init": i, "ops": []}):
                self.dinits.append(i)

    def list_case(self, rng, length):
        return {"init": rng.choice(self.linits), "ops": [rng.choice(self.lops) for _ in range(length)]}

    def dict_case(self, rng, length):
        return {"init": rng.choice(self.dinits), "ops": [rng.choice(self.dops) for _ in range(length)]}


def search_case(rng):
    """包含 / 寻找 for a dictionary that is an item of the list (directly or inside an item): the same pairs in another key order
    is the same value; one value changed, a key missing or an extra key is not"""
    ks = rng.sample(KEYS, rng.randrange(2, 5))
    d = [(k, gen_val(rng, 1, True)) for k in ks]
    item = D(d)
    wrap = (lambda x: x) if rng.random() < 0.7 else (lambda x: L([N(7), x]))
    init = [gen_scalar(rng) for _ in range(rng.randrange(0, 3))] + [wrap(item)] + [gen_scalar(rng) for _ in range(rng.randrange(0, 2))]
    if rng.random() < 0.3:
        init.append(wrap(D(list(reversed(d)))))
    ops = []
    for _ in range(rng.randrange(2, 5)):
        perm = d[:]
        rng.shuffle(perm)
        r = rng.random()
        if r < 0.15:
            perm[rng.randrange(len(perm))] = (perm[0][0], N(4242))
        elif r < 0.25:
            perm = perm[1:]
        elif r < 0.35:
            perm.append(("zz", N(1)))
        ops.append({"op": "meth", "m": rng.choice(["包含", "寻找"]), "args": [wrap(D(perm))]})
    return {"init": init, "ops": ops, "src": "search"}


def grow_shrink_case(rng):
    """a list that grows well beyond a handful of items (from its literal or item by item) and is then taken apart from either
    end: lengths 17..100, every removal observed (result, length, full contents)"""
    n = rng.choice([17, 20, 24, 33, 40, 65, 100])
    if rng.random() < 0.5:
        init = [N(i + 1) for i in range(n)]
        ops = []
    else:
        init = [N(0)] if rng.random() < 0.5 else []
        ops = [{"op": "meth", "m": rng.choice(["后增", "后增", "后增", "前增"]), "args": [N(i + 1)]} for i in range(n)]
    total = len(init) + len(ops)
    for k in range(total + 2):
        r = rng.random()
        if r < 0.8:
            ops.append({"op": "meth", "m": "右移", "args": []})
        elif r < 0.9:
            ops.append({"op": "meth", "m": "左移", "args": []})
        elif r < 0.95:
            ops.append({"op": "getp", "p": rng.choice(["长度", "末项", "首项"])})
        else:
            ops.append({"op": "meth", "m": "后增", "args": [N(500 + k)]})
    return {"init": init, "ops": ops, "src": "grow-shrink"}


def gen_key(rng):
    return rng.choice(KEYS[:5]) if rng.random() < 0.85 else rng.choice(KEYS)


def gen_dop(rng, api=True):
    r = rng.random()
    key = gen_key(rng)
    if r < 0.14:
        i = S(key) if rng.random() < 0.8 else N(rng.choice([12, 3, 0, -1]))
        return {"op": "iget", "i": i}
    if r < 0.36:
        i = S(key) if rng.random() < 0.8 else rng.choice([N(12), N(3), N(-1), H(1)])
        return {"op": "iset", "i": i, "v": gen_val(rng, 2, api)}
    if r < 0.46:
        return {"op": "getp", "p": rng.choice(["数目", "长度", "所有索引", "所有值"] + (["不存在"] if api else []))}
    if r < 0.48 and api:
        return {"op": "setp", "p": rng.choice(["长度", "不存在"]), "v": gen_val(rng, 1, api)}
    if r < 0.53:
        return {"op": "copy"}
    if r < 0.58:
        return {"op": "iter"}
    m = rng.choice(["读取", "写入", "写入", "移除", "移除", "移除"] + (["不存在"] if api and rng.random() < 0.2 else []))
    if m == "读取":
        args = [S(gen_key(rng)) for _ in range(rng.choice([1, 1, 1, 2, 2, 3, 0] if api else [1, 1, 2]))]
    elif m == "写入":
        args = [S(key), gen_val(rng, 2, api)]
    else:
        args = [S(key)]
    if api and rng.random() < 0.05:
        k = rng.random()
        if k < 0.4 and args:
            args = args[:-1]
        elif k < 0.7:
            args = args + [gen_val(rng, 1, api)]
        elif args:
            args[0] = gen_val(rng, 1, api)
    return {"op": "meth", "m": m, "args": args}


def gen_dict_init(rng, api=True):
    init = []
    for _ in range(rng.choice([0, 0, 1, 2, 4, 6, 9])):
        init.append([[ord(c) for c in gen_key(rng)], gen_val(rng, 2, api)])     # duplicate keys on purpose
    return init


# exhaustive short histories over a small alphabet
def list_alphabet():
    return [
        {"op": "meth", "m": "后增", "args": [N(7)]},
        {"op": "meth", "m": "前增", "args": [N(8)]},
        {"op": "meth", "m": "左移", "args": []},
        {"op": "meth", "m": "右移", "args": []},
        {"op": "meth", "m": "新增", "args": [N(9), N(1)]},
        {"op": "meth", "m": "新增", "args": [N(9), N(-1)]},
        {"op": "meth", "m": "新增", "args": [N(9), N(-3)]},
        {"op": "meth", "m": "交换", "args": [N(1), N(2)]},
        {"op": "meth", "m": "交换", "args": [H(0), N(2)]},      # position 0.5 lies before the first item: index error, nothing moves
        {"op": "meth", "m": "交换", "args": [N(2), H(1)]},      # position 1.5 is position 1
        {"op": "meth", "m": "合并", "args": [L([N(4), N(5)])]},
        {"op": "rev"},
        {"op": "iset", "i": N(1), "v": N(5)},
        {"op": "iset", "i": N(2), "v": N(6)},
        {"op": "iset", "i": N(0), "v": N(6)},
        {"op": "setp", "p": "末项", "v": N(3)},
        {"op": "iget", "i": N(2)},
    ]


def dict_alphabet():
    return [
        {"op": "iset", "i": S("甲"), "v": N(1)},
        {"op": "iset", "i": S("乙"), "v": N(2)},
        {"op": "meth", "m": "写入", "args": [S("丙"), N(3)]},
        {"op": "meth", "m": "写入", "args": [S("甲"), N(9)]},
        {"op": "meth", "m": "移除", "args": [S("甲")]},
        {"op": "meth", "m": "移除", "args": [S("乙")]},
        {"op": "meth", "m": "移除", "args": [S("丙")]},
        {"op": "copy"},
        {"op": "iget", "i": S("甲")},
    ]


def product_cases(alphabet, length, inits, key):
    import itertools
    out = []
    for init in inits:
        for k in range(1, length + 1):
            for combo in itertools.product(alphabet, repeat=k):
                out.append({"init": init, "ops": list(combo), "src": "exhaustive-" + key})
    return out


# ------------------------------------------------------------------ comparison
def hash_row(row):
    """Collections.hash_row: length, sum and position-weighted sum packed into one integer"""
    a = b = 0
    for i, x in enumerate(row):
        y = x + 9007199254740992
        a += y
        b += (i + 1) * y
    return (len(row) & 65535) + ((a & 4294967295) << 16) + ((b & 4294967295) << 48)


def val_of_dump(d):
    """harness dump -> generator value (None when the number has no spelling in the model's number type)"""
    import struct
    t = d.get("t")
    if t == "null":
        return NULL
    if t == "bool":
        return B(d["v"])
    if t == "str":
        return {"t": "str", "v": list(d["v"])}
    if t == "num":
        x = struct.unpack(">d", bytes.fromhex(d["bits"]))[0]
        if x != x:
            return NAN
        if x in (float("inf"), float("-inf")):
            return INF(x < 0)
        if abs(x) >= 2.0 ** 62:
            return BIG(x < 0)
        if x == int(x):
            return N(int(x))
        if x * 2 == int(x * 2):
            import math
            return H(math.floor(x))
        return None
    if t == "list":
        items = [val_of_dump(x) for x in d["v"]]
        return None if any(i is None for i in items) else L(items)
    if t == "dict":
        items = [(k, val_of_dump(x)) for k, x in d["v"]]
        return None if any(v is None for _, v in items) else {"t": "dict", "v": [[list(k), v] for k, v in items]}
    return None


def resolve_self(kind, cases, outs):
    """the receiver passed as an argument ({"t":"self"}) is spelled out for the model as the collection the implementation held
    before that step: up to the first disagreement (which is what gets reported) that is the model's own collection"""
    if kind != "list":
        return cases
    res = []
    for c, o in zip(cases, outs):
        if not any(a.get("t") == "self" for op in c["ops"] for a in op.get("args", [])):
            res.append(c)
            continue
        steps = o.get("steps") if isinstance(o, dict) else None
        ops = []
        for j, op in enumerate(c["ops"]):
            if any(a.get("t") == "self" for a in op.get("args", [])):
                prev = L(c["init"])
                if j > 0:
                    prev = val_of_dump(steps[j - 1]["state"]) if steps and j - 1 < len(steps) else L([])
                if prev is None:
                    prev = L([])
                op = dict(op, args=[prev if a.get("t") == "self" else a for a in op["args"]])
            ops.append(op)
        res.append(dict(c, ops=ops))
    return res


def impl_rows(kind, out):
    """per step: (result encoding, state encoding, display encoding, raw result); dictionaries start with the
    freshly constructed collection"""
    if not isinstance(out, dict) or "steps" not in out:
        return None
    res = []
    if kind == "dict":
        res.append(([], enc_hm_dump(out["init"]["state"]), enc_text(out["init"]["text"]), None))
    for s in out["steps"]:
        r = enc_result(s["r"])
        if r[0] == 1 and r[1] not in (40, 41):
            r = [1, 0]       # an error other than the index errors: only "is an error" is compared
        st = enc_dump(s["state"]) if kind == "list" else enc_hm_dump(s["state"])
        res.append((r, st, enc_text(s["text"]), s["r"]))
    return res


def first_mismatch(model_hashes, rows):
    if rows is None:
        return 0
    for i, (h, (r, st, tx, raw)) in enumerate(zip(model_hashes, rows)):
        if h != hash_row(r + st + tx):
            return i
    if len(model_hashes) != len(rows):
        return min(len(model_hashes), len(rows))
    return None


def aspect_of(full_row, row):
    r, st, tx, raw = row
    if raw is not None and raw["kind"] == "crash":
        return "crash"
    if full_row[:len(r)] != r:
        return "result"
    if full_row[len(r):len(r) + len(st)] != st:
        return "state"
    return "display"


def signature_of(kind, case, idx, aspect):
    off = 1 if kind == "dict" else 0
    if idx - off < 0 or idx - off >= len(case["ops"]):
        return "%s.构造:%s" % (kind, aspect)
    o = case["ops"][idx - off]
    name = op_name(o)
    if kind == "list" and aspect == "crash" and o["op"] == "meth" and o["m"] in ("新增", "添加"):
        return "list.新增:position<-length"
    return "%s.%s:%s" % (kind, name, aspect)


def eval_both(kind, cases, name, detail=True):
    """-> per case: (None | (step index, aspect), harness output, full model rows or None).
    One checksum per case is compared first; the first `detail` mismatching cases are re-evaluated with the full
    per-step encodings to locate the step (the others get step -1, aspect "unlocated")."""
    outs = core.harness(HARNESS, kind, [{"init": c["init"], "ops": c["ops"]} for c in cases])
    mcases = resolve_self(kind, cases, outs)
    hashes = coq_eval_cases(kind, mcases, "(fun c => [run_%s_case_hh c])" % kind, name)
    res = []
    bad = []
    for n, (c, o, mh) in enumerate(zip(cases, outs, hashes)):
        rows = impl_rows(kind, o)
        ok = rows is not None and hash_row([hash_row(r + st + tx) for r, st, tx, _ in rows]) == mh[0]
        res.append([None if ok else (-1, "abnormal" if rows is None else "unlocated"), o, None, rows])
        if not ok:
            bad.append(n)
    if detail and bad:
        sel = bad[:8 if detail is True else detail]
        full = coq_eval_cases(kind, [mcases[n] for n in sel], "run_%s_case" % kind, name + "f")
        for n, m in zip(sel, full):
            rows = res[n][3]
            res[n][2] = m
            if rows is None:
                res[n][0] = (0, "abnormal")
                continue
            i = 0
            while i < len(rows) and i < len(m) and m[i] == rows[i][0] + rows[i][1] + rows[i][2]:
                i += 1
            if i < len(rows) and i < len(m):
                res[n][0] = (i, aspect_of(m[i], rows[i]))
            else:
                res[n][0] = (i, "length")
    return [(a, o, m) for a, o, m, _ in res]


def shrink(kind, case, idx):
    """cut the history after the failing step, then greedily drop earlier operations and start elements"""
    off = 1 if kind == "dict" else 0
    cur = {"init": case["init"], "ops": case["ops"][:max(0, idx - off) + 1]}
    for _ in range(10):
        cands = []
        for j in range(len(cur["ops"])):
            cands.append({"init": cur["init"], "ops": cur["ops"][:j] + cur["ops"][j + 1:]})
        for j in range(len(cur["init"])):
            cands.append({"init": cur["init"][:j] + cur["init"][j + 1:], "ops": cur["ops"]})
        if not cands:
            break
        try:
            res = eval_both(kind, cands, "c12s", detail=False)
        except RuntimeError:
            break
        nxt = None
        for c, (mm, o, m) in zip(cands, res):
            if mm is not None:
                nxt = c
                break
        if nxt is None:
            break
        cur = nxt
    return cur


def describe(kind, case, mm, o, m):
    idx, aspect = mm
    off = 1 if kind == "dict" else 0
    opj = case["ops"][idx - off] if 0 <= idx - off < len(case["ops"]) else None
    st = None
    if isinstance(o, dict) and "steps" in o and 0 <= idx - off < len(o["steps"]):
        st = o["steps"][idx - off]["r"]
    return "%s history, step %d (%s): %s differs between implementation and specification; op=%s observed=%s" % (
        kind, idx, op_name(opj) if opj else "construction", aspect,
        json.dumps(opj, ensure_ascii=False)[:160], json.dumps(st, ensure_ascii=False)[:160])


# ------------------------------------------------------------------ programs
def src_index(i):
    if i["t"] == "str":
        return src_text(i["v"])
    if i["t"] == "num" and i["k"] == "int" and i["z"] >= 0:
        return "%d" % i["z"]
    return "{" + src_val(i) + "}"


def prog_of(kind, case):
    V = "A" if kind == "list" else "D"
    lines = []
    if kind == "list":
        lines.append("令A = " + src_val(L(case["init"])))
        state = "（显示：A、A之长度）"
    else:
        lines.append("令D = " + src_val({"t": "dict", "v": case["init"]}))
        state = "（显示：D、D之长度、D之所有索引、D之所有值）"
        lines.append(state)
    for n, o in enumerate(case["ops"]):
        k = o["op"]
        if k == "iget":
            lines.append("（显示：%s#%s）" % (V, src_index(o["i"])))
        elif k == "iset":
            lines.append("%s#%s = %s" % (V, src_index(o["i"]), src_val(o["v"])))
        elif k == "getp":
            lines.append("（显示：%s之%s）" % (V, o["p"]))
        elif k == "setp":
            lines.append("%s之%s = %s" % (V, o["p"], src_val(o["v"])))
        elif k == "meth":
            args = "、".join(src_val(a) for a in o.get("args", []))
            lines.append("令结果%d = 以%s（%s%s）" % (n, V, o["m"], ("：" + args) if args else ""))
            lines.append("（显示：结果%d）" % n)
        elif k == "rev":
            lines.append("A = A之逆序")
        elif k == "copy":
            lines.append("令副本%d = %s" % (n, V))
            lines.append("%s = 副本%d" % (V, n))
        elif k == "iter":
            lines.append("以K、V遍历%s：" % V)
            lines.append("    （显示：K、V）")
        lines.append(state)
    return "\n".join(lines) + "\n"


def prog_ok_case(kind, case):
    """only values and operations a program can spell unambiguously"""
    def ok_val(v):
        if v["t"] == "num":
            return v["k"] in ("int", "half")
        if v["t"] == "str":
            return all(c not in (0x0A, 0x20) for c in v["v"]) and len(v["v"]) > 0
        if v["t"] == "list":
            return all(ok_val(x) for x in v["v"])
        if v["t"] == "dict":
            return all(ok_val(x) and len(k) > 0 for k, x in v["v"])
        return True
    vals = list(case["init"]) if kind == "list" else [v for _, v in case["init"]]
    if any(a.get("t") == "self" for o in case["ops"] for a in o.get("args", [])):
        return False
    for o in case["ops"]:
        vals += [o[x] for x in ("i", "v") if x in o] + list(o.get("args", []))
    return all(ok_val(v) for v in vals)


def prog_obs(o):
    if "display" not in o:
        return None, "abnormal"
    fin = 0 if o["kind"] == "value" else (o.get("code") if o.get("class") == "runtime" else "other-error")
    return o["display"], fin


def run_programs(chk, kind, cases):
    if not cases:
        return
    hashed = coq_eval_cases(kind, cases, "run_%s_prog_h" % kind, "c12p")
    outs = core.harness(HARNESS, "prog", [{"src": [ord(ch) for ch in prog_of(kind, c)]} for c in cases])
    bad = []
    for c, mh, o in zip(cases, hashed, outs):
        chk.count(["prog", kind, c["init"], c["ops"]])
        chk.dist("program:" + kind)
        obs_lines, obs_fin = prog_obs(o)
        fin_h = mh[-1]
        # the last row is [0] (finished), [code] or [-1]: recover it from its checksum
        fin = next((f for f in (0, -1, 40, 41, 45, 46, 53, 80, 82) if hash_row([f]) == fin_h), None)
        okfin = (obs_fin == fin) or (fin not in (0, 40, 41, -1, None) and isinstance(obs_fin, int) and obs_fin != 0)
        if obs_lines is None or [hash_row(l) for l in obs_lines] != mh[:-1] or not okfin:
            bad.append((c, o))
    if not bad:
        return
    bad = bad[:6]
    model = coq_eval_cases(kind, [c for c, _ in bad], "run_%s_prog" % kind, "c12pf")
    for (c, o), m in zip(bad, model):
        exp_lines, fin = m[:-1], m[-1][0]
        obs_lines, obs_fin = prog_obs(o)
        k = 0
        while obs_lines is not None and k < len(exp_lines) and k < len(obs_lines) and exp_lines[k] == obs_lines[k]:
            k += 1
        exp_l = "".join(chr(x) for x in exp_lines[k]) if k < len(exp_lines) else "<end: %s>" % fin
        obs_l = "".join(chr(x) for x in obs_lines[k]) if obs_lines is not None and k < len(obs_lines) else "<end: %s>" % obs_fin
        chk.violation("program over a %s: displayed line %d differs: expected %s observed %s\n%s" % (
            kind, k + 1, exp_l[:80], obs_l[:80], prog_of(kind, c)[:200]),
            "%s.program:%s" % (kind, "crash" if obs_lines is None or "panic" in o or "crash" in o else "display"),
            {"kind": "program", "coll": kind, "case": c, "program": prog_of(kind, c),
             "expected_lines": ["".join(chr(x) for x in l) for l in exp_lines], "expected_end": fin,
             "observed": o if obs_lines is None else {"display": ["".join(chr(x) for x in l) for l in obs_lines], "end": obs_fin},
             "replay_cmd": "./check C12 --replay <this file>"})


# ------------------------------------------------------------------ driver
def load_corpus():
    d = os.path.join(core.VERIF, "corpus", "C12")
    out = []
    if os.path.isdir(d):
        for fn in sorted(os.listdir(d)):
            if fn.endswith(".json"):
                c = json.load(open(os.path.join(d, fn), encoding="utf8"))
                out.extend(c if isinstance(c, list) else [c])
    return out


def run_histories(chk, kind, cases, do_shrink=True):
    if not cases:
        return
    res = eval_both(kind, cases, "c12" + kind[0])
    reported = {}
    for c, (mm, o, m) in zip(cases, res):
        chk.count([kind, c["init"], c["ops"]], nontrivial=len(c["ops"]) > 0)
        chk.dist("%s:%s" % (kind, c.get("src", "random")))
        chk.dist("%s:ops" % kind, len(c["ops"]))
        for op in c["ops"]:
            chk.dist("%s.op:%s" % (kind, op_name(op)))
        if isinstance(o, dict):
            for st in o.get("steps", []):
                chk.dist("%s:observed-%s" % (kind, st["r"]["kind"] + (("-%s" % st["r"].get("code")) if st["r"]["kind"] == "err" else "")))
        if mm is None:
            continue
        if mm[0] < 0:
            chk.dist("%s:further-mismatching-histories-not-located" % kind)
            continue
        sig = signature_of(kind, c, mm[0], mm[1])
        if sig in reported and reported[sig] >= 2:
            continue
        reported[sig] = reported.get(sig, 0) + 1
        small = c
        if do_shrink:
            small = shrink(kind, c, mm[0])
            r2 = eval_both(kind, [small], "c12s")[0]
            if r2[0] is not None and r2[0][0] >= 0:
                mm, o, m = r2
                off = 1 if kind == "dict" else 0
                small = {"init": small["init"], "ops": small["ops"][:max(0, mm[0] - off) + 1]}
                sig = signature_of(kind, small, mm[0], mm[1])
            else:
                small = c
        off = 1 if kind == "dict" else 0
        exp_row = m[mm[0]] if m is not None and mm[0] < len(m) else None
        chk.violation(describe(kind, small, mm, o, m), sig,
                      {"kind": "history", "coll": kind, "case": {"init": small["init"], "ops": small["ops"]},
                       "failing_step": mm[0] - off, "aspect": mm[1], "expected_encoding": exp_row,
                       "observed": (o.get("steps", [None] * (mm[0] - off + 1))[mm[0] - off] if isinstance(o, dict) and "steps" in o and 0 <= mm[0] - off < len(o.get("steps", [])) else o),
                       "replay_cmd": "./check C12 --replay <this file>"})


def run(chk, replay=None):
    rng = chk.rng
    quick = chk.tier == "quick"
    if replay is not None:
        if replay.get("kind") == "program":
            run_programs(chk, replay["coll"], [replay["case"]])
        elif replay.get("kind") == "history":
            run_histories(chk, replay["coll"], [dict(replay["case"], src="replay")], do_shrink=False)
        return
    corpus = load_corpus()
    lists = [dict(c["case"], src="corpus") for c in corpus if c.get("coll") == "list" and c.get("kind") == "history"]
    dicts = [dict(c["case"], src="corpus") for c in corpus if c.get("coll") == "dict" and c.get("kind") == "history"]
    # exhaustive short histories
    linits = [[], [N(1)], [N(1), N(2), N(3)]]
    dinits = [[], [[[ord("甲")], N(1)], [[ord("乙")], N(2)], [[ord("甲")], N(3)], [[ord("丙")], N(4)]]]
    lists += product_cases(list_alphabet(), 2 if quick else 3, linits, "len2" if quick else "len3")
    dicts += product_cases(dict_alphabet(), 3 if quick else 4, dinits, "len3" if quick else "len4")
    # long random histories
    nl, nd = (160, 160) if quick else (2500, 2500)
    pools = Pools(rng, True, 260 if quick else 900)
    for _ in range(nl):
        lists.append(pools.list_case(rng, rng.choice([3, 8, 15, 30, 60])))
    for _ in range(nd):
        dicts.append(pools.dict_case(rng, rng.choice([3, 8, 15, 30, 60])))
    for _ in range(25 if quick else 300):
        lists.append(search_case(rng))
    for _ in range(8 if quick else 80):
        lists.append(grow_shrink_case(rng))
    run_histories(chk, "list", lists)
    run_histories(chk, "dict", dicts)
    # programs
    npg = 60 if quick else 600
    pl, pd = [], []
    pl += [c["case"] for c in corpus if c.get("coll") == "list" and c.get("kind") == "program"]
    pd += [c["case"] for c in corpus if c.get("coll") == "dict" and c.get("kind") == "program"]
    ppools = Pools(rng, False, 120 if quick else 400)
    while len(pl) < npg:
        pl.append(ppools.list_case(rng, rng.choice([2, 4, 8, 14])))
    while len(pd) < npg:
        pd.append(ppools.dict_case(rng, rng.choice([2, 4, 8, 14])))
    run_programs(chk, "list", pl)
    run_programs(chk, "dict", pd)
    if os.environ.get("C12_JSON") == "1":
        run_json_order(chk, rng)
    chk.coverage["rule"] = (
        "operation histories applied to the real value.Array / value.HashMap / value.IV through GetProperty / SetProperty / "
        "ExecMethod / NewArrayIV / NewHashMapIV / NewMemberIV / DuplicateValue (iteration through the real evalIterateStmt), "
        "result + full dump + String() compared with the Coq model after EVERY operation: all histories up to length %s over a "
        "%d-operation list alphabet from 3 start lists and up to length %s over a %d-operation dictionary alphabet from 2 "
        "start dictionaries (one built with a duplicate key), plus seeded random histories of length 3..60 (indices in range, 0, "
        "negative, > length, x.5, +-(2^52-1), NaN, +-Inf, +-1e300; nested lists/dictionaries; duplicate keys at construction; "
        "5%% broken arities/types), plus generated programs with a display after every operation; distinct = distinct "
        "(kind, start, history); non-trivial = at least one operation" % (
            "2" if quick else "3", len(list_alphabet()), "3" if quick else "4", len(dict_alphabet())))


def run_json_order(chk, rng):
    """generated JSON key order (C19's repair); only with C12_JSON=1"""
    cases = []
    for _ in range(20):
        ks = rng.sample(["乙", "甲", "B", "A", "丙", "c"], rng.randrange(2, 6))
        cases.append(ks)
    progs = []
    for ks in cases:
        lit = "【" + "，".join("%s=%d" % (src_text([ord(c) for c in k]), i) for i, k in enumerate(ks)) + "】"
        progs.append("导入《@JSON》\n令D = %s\n（显示：（生成JSON：D））\n" % lit)
    outs = core.harness(HARNESS, "prog", [{"src": [ord(ch) for ch in p]} for p in progs])
    for ks, p, o in zip(cases, progs, outs):
        chk.count(["json", ks])
        line = "".join(chr(x) for x in (o.get("display") or [[]])[0]) if o.get("display") else ""
        pos = [line.find('"%s"' % k) for k in ks]
        if o.get("kind") != "value" or pos != sorted(pos) or -1 in pos:
            chk.violation("generated JSON does not follow the dictionary's key order: %s -> %s" % (ks, line[:100]),
                          "dict.生成JSON:key-order", {"kind": "json", "program": p, "observed": o})
