# C02 — Branches, loops and 输出 follow the documented control flow.
from vlib import core, semprop, proggen
from vlib.semgen import *

HARNESS = "sem"
CLAIM = dict(
    text=("Theorems (coq/props/C02.v): the return-slot/signal mechanism of the evaluator model refines an independent "
          "structured-outcome semantics (Normal/Return/Break/Continue/Raise) for every fuel, state, block and nesting depth, with "
          "arbitrary expressions incl. calls (induction over the fuel of the mutually recursive evaluator, on top of the control-state "
          "balance theorem eval_expr_balanced); in the outcome semantics 输出 ends block and loops at once, loops consume "
          "结束循环/继续循环 (never leave a loop, never leave a body), 每当 re-tests, first true branch, non-boolean conditions rejected, "
          "遍历 order 1..n / key order. Tie: generated nests of branches x 每当 x 遍历 with break/continue/输出 at every depth, inside and "
          "outside methods, numbered display markers around every statement, executed by the interpreter and by the model in Coq."),
    note=semprop.TB + ("non-terminating programs are outside the quantifier (model out-of-fuel runs are skipped and counted); what 遍历 "
                       "visits when the collection it runs over is changed inside the loop is not specified by the property: the model "
                       "iterates over the pairs present when the loop starts and the generator does not change a collection inside its own loop."),
    technique="Coq proof (refinement of the slot/signal mechanism to outcome semantics, induction on fuel) + model/implementation correspondence",
    design="5/C02")

PROFILES = [
    (3, proggen.Profile(control=2.5, markers=0.8, exceptions=0.3, collections=0.6, classes=0.4, type_errors=0.01, max_depth=4)),
    (1, proggen.Profile(control=2.0, markers=0.6, exceptions=1.0, funcs=1.5)),
]


def witnesses():
    w = []
    # 输出 inside 每当 (catalogue witness), inside 遍历 over list and dict, nested in branch inside loop inside method
    w.append((([], [Decl([(False, ["A"], Num(1))]),
                    While(Logic("lt", Var("A"), Num(5)), [ExprS(AssignVar("A", Arith("+", Var("A"), Num(1)))), Return(Var("A"))]),
                    Display(Str("after"))], []), None, "witness"))
    w.append((([], [Decl([(False, ["S"], Num(0))]),
                    Iter(Arr([Num(1), Num(2), Num(3)]), ["V"], [ExprS(AssignVar("S", Arith("+", Var("S"), Var("V")))), Display(Var("S")),
                                                              Branch(Logic("gt", Var("S"), Num(2)), [Return(Var("S"))])]),
                    Display(Str("after")), Return(Num(-1))], []), None, "witness"))
    w.append((([], [Func("F", ["N"], [Decl([(False, ["I"], Num(0))]),
                                      While(Var("真"), [ExprS(AssignVar("I", Arith("+", Var("I"), Num(1)))),
                                                       Iter(Map([("a", Num(1)), ("b", Num(2))]), ["K", "V"],
                                                            [Branch(Logic("eq", Var("I"), Var("N")), [Return(Var("K"))]), Display(Var("K"), Var("I"))])]),
                                      Display(Str("unreachable"))]),
                    Return(Call("F", [Num(2)]))], []), None, "witness"))
    # stray break in a method called from a loop
    w.append((([], [Func("F", [], [Break()]), Decl([(False, ["I"], Num(0))]),
                    While(Logic("lt", Var("I"), Num(3)), [ExprS(AssignVar("I", Arith("+", Var("I"), Num(1)))), ExprS(Call("F", [])), Display(Var("I"))]),
                    Display(Str("done")), Return(Var("I"))], []), None, "witness"))
    return w


def run(chk, replay=None):
    semprop.run_property(chk, "C02", "c02", PROFILES, 140, 1500, replay=replay, extra_programs=witnesses(),
                         what="control flow differs from the documented semantics")
