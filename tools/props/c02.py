# C02 — Branches, loops and 输出 follow the documented control flow.
from vlib import core, semprop, proggen
from vlib.semgen import *

HARNESS = "sem"
CLAIM = dict(
    text=("Theorems (coq/props/C02.v): the return-slot/signal mechanism of the evaluator model refines an independent "
          "structured-outcome semantics (Normal/Return/Break/Continue/Raise) for every fuel, state, block and nesting depth, with "
          "arbitrary expressions incl. calls (induction over the fuel of the mutually recursive evaluator, on top of the control-state "
          "balance theorem eval_expr_balanced); in the outcome semantics 输出 ends block and loops at once, loops consume "
          "结束循环/继续循环 (never leave a loop, never leave a body), 每当 re-tests, first true branch, non-boolean conditions rejected, "
          "遍历 order 1..n / key order. Tie: generated nests of branches x 每当 x 遍历 with break/continue/输出 at every depth, inside and "
          "outside methods, numbered display markers around every statement, conditions and iteration targets observed through a "
          "displaying identity method, signals taken on some passes only, and iteration histories (a collection copied, one of the two "
          "changed, both iterated with both loop variables displayed), executed by the interpreter and by the model in Coq."),
    note=semprop.TB + ("non-terminating programs are outside the quantifier (model out-of-fuel runs are skipped and counted); what 遍历 "
                       "visits when the collection it runs over is changed inside the loop is not specified by the property: the model "
                       "iterates over the pairs present when the loop starts and the generator does not change a collection inside its own loop."),
    technique="Coq proof (refinement of the slot/signal mechanism to outcome semantics, induction on fuel) + model/implementation correspondence",
    design="5/C02")

PROFILES = [
    (3, proggen.Profile(control=2.5, markers=0.8, exceptions=0.3, collections=0.6, classes=0.4, type_errors=0.01, max_depth=4)),
    (1, proggen.Profile(control=2.0, markers=0.6, exceptions=1.0, funcs=1.5)),
]


def witnesses():
    w = []
    # 输出 inside 每当 (catalogue witness), inside 遍历 over list and dict, nested in branch inside loop inside method
    w.append((([], [Decl([(False, ["A"], Num(1))]),
                    While(Logic("lt", Var("A"), Num(5)), [ExprS(AssignVar("A", Arith("+", Var("A"), Num(1)))), Return(Var("A"))]),
                    Display(Str("after"))], []), None, "witness"))
    w.append((([], [Decl([(False, ["S"], Num(0))]),
                    Iter(Arr([Num(1), Num(2), Num(3)]), ["V"], [ExprS(AssignVar("S", Arith("+", Var("S"), Var("V")))), Display(Var("S")),
                                                              Branch(Logic("gt", Var("S"), Num(2)), [Return(Var("S"))])]),
                    Display(Str("after")), Return(Num(-1))], []), None, "witness"))
    w.append((([], [Func("F", ["N"], [Decl([(False, ["I"], Num(0))]),
                                      While(Var("真"), [ExprS(AssignVar("I", Arith("+", Var("I"), Num(1)))),
                                                       Iter(Map([("a", Num(1)), ("b", Num(2))]), ["K", "V"],
                                                            [Branch(Logic("eq", Var("I"), Var("N")), [Return(Var("K"))]), Display(Var("K"), Var("I"))])]),
                                      Display(Str("unreachable"))]),
                    Return(Call("F", [Num(2)]))], []), None, "witness"))
    # stray break in a method called from a loop
    w.append((([], [Func("F", [], [Break()]), Decl([(False, ["I"], Num(0))]),
                    While(Logic("lt", Var("I"), Num(3)), [ExprS(AssignVar("I", Arith("+", Var("I"), Num(1)))), ExprS(Call("F", [])), Display(Var("I"))]),
                    Display(Str("done")), Return(Var("I"))], []), None, "witness"))
    # a loop signal raised inside a handler of a called method (no loop in that handler) never reaches the caller's loop
    for sig in (Break(), Continue()):
        w.append((([], [Func("F", [], [Throw("异常", [Str("x")]), Return(Num(1))], [("异常", [Display(Str("h")), sig, Display(Str("no"))])]),
                        Decl([(False, ["I"], Num(0))]),
                        While(Logic("lt", Var("I"), Num(3)), [ExprS(AssignVar("I", Arith("+", Var("I"), Num(1)))), Display(Str("a"), Var("I")),
                                                              ExprS(Call("F", [])), Display(Str("b"), Var("I"))]),
                        Display(Str("done")), Return(Var("I"))], []), None, "witness"))
        w.append((([], [Func("F", [], [Throw("异常", [Str("x")]), Return(Num(1))], [("异常", [sig])]),
                        Iter(Arr([Num(1), Num(2)]), ["V"], [Display(Var("V")), ExprS(Call("F", [])), Display(Str("after"))]),
                        Return(Num(0))], []), None, "witness"))
    return w


def iter_history(rng):
    """遍历 after a history: the collection was copied, one of the two was changed (keys removed / added, items shifted or
    replaced), then each is iterated with both loop variables displayed; some passes take 继续循环 / 结束循环"""
    keys = rng.sample(["a", "b", "c", "d", "e", "甲", "乙"], rng.randrange(2, 6))
    is_dict = rng.random() < 0.6
    if is_dict:
        body = [Decl([(False, ["A"], Map([(k, Num(i + 1)) for i, k in enumerate(keys)]))])]
    else:
        body = [Decl([(False, ["A"], Arr([Num(10 * (i + 1)) for i in range(len(keys))]))])]
    body.append(Decl([(False, ["B"], Var("A"))]) if rng.random() < 0.7 else Decl([(False, ["B", "C"], Var("A"))]))
    for _ in range(rng.randrange(1, 4)):
        tgt = Var(rng.choice(["A", "B"]))
        if is_dict:
            k = rng.randrange(3)
            if k == 0:
                body.append(ExprS(Method(tgt, [("移除", [Str(rng.choice(keys))])])))
            elif k == 1:
                body.append(ExprS(Method(tgt, [("写入", [Str(rng.choice(keys + ["新"])), Num(rng.randrange(50, 99))])])))
            else:
                body.append(ExprS(AssignIndex(tgt, Str(rng.choice(keys + ["z"])), Num(rng.randrange(50, 99)))))
        else:
            k = rng.randrange(4)
            if k == 0:
                body.append(ExprS(Method(tgt, [(rng.choice(["左移", "右移"]), [])])))
            elif k == 1:
                body.append(ExprS(Method(tgt, [(rng.choice(["后增", "前增"]), [Num(rng.randrange(50, 99))])])))
            elif k == 2:
                body.append(ExprS(AssignIndex(tgt, Num(1), Num(rng.randrange(50, 99)))))
            else:
                body.append(ExprS(Method(tgt, [("交换", [Num(1), Num(2)])])))
    for name in ["A", "B"]:
        loop = [Display(Var("K"), Var("V"))]
        if rng.random() < 0.5:
            which = Str(rng.choice(keys)) if is_dict else Num(rng.randrange(1, 4))
            loop.append(Branch(Logic("eq", Var("K"), which), [rng.choice([Continue(), Break()])]))
            loop.append(Display(Str("rest"), Var("K")))
        body.append(Display(Str(name)))
        body.append(Iter(Var(name), ["K", "V"], loop))
    body.append(Return(Arr([Var("A"), Var("B")])))
    return ([], body, [])


def run(chk, replay=None):
    extra = witnesses()
    if replay is None:
        extra += [(iter_history(chk.rng), None, "iteration-history") for _ in range(30 if chk.tier == "quick" else 400)]
    semprop.run_property(chk, "C02", "c02", PROFILES, 120, 1500, replay=replay, extra_programs=extra,
                         what="control flow differs from the documented semantics")
