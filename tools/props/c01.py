# C01 — Expressions evaluate to the values the manual defines.
import math
from decimal import Decimal
from vlib import core, semprop, proggen, semcheck
from vlib import semgen as G
from vlib.semgen import *

HARNESS = "sem"
CLAIM = dict(
    text=("Theorems (coq/props/C01.v): for every operator tree (any depth/shape, all arithmetic, comparison and logical operators, "
          "literals, variables holding numbers/booleans/texts/空) the evaluator model returns, with fuel above the tree depth, exactly "
          "the value or error of a fuel-free state-free denotation transcribing the manual's rules, and leaves the state unchanged "
          "(induction on the tree); 且/或 never look at the right operand when the left decides, for every right operand; errors never "
          "values (non-boolean, non-number, zero divisor); + - * / are the round-to-nearest-even images of the real results, | is the real "
          "floor of the rounded quotient, the zero test is the real zero test (Flocq's binary64 correctness theorems instantiated); "
          "dictionary equality is a function of the contents. Tie: generated trees (depth up to 9, every operator, literals in every "
          "documented numeric spelling, inputs bound to boundary doubles incl. NaN/±Inf/-0/5e-324/1.8e308, booleans, texts), rendered with "
          "minimal and redundant braces and synonym spellings, display markers planted in operands (evaluation order, short circuit), "
          "parsed and evaluated by the interpreter and evaluated by the model in Coq; results compared as bit patterns."),
    note=semprop.TB + ("precedence and associativity are tied by rendering with minimal braces and comparing values (the parser model of C03 is "
                       "separate); literal values rest on strconv.ParseFloat being correctly rounding (validated per run against Python's float)."),
    technique="Coq proof (denotational characterisation by induction on expressions + Flocq IEEE-754 theorems) + model/implementation correspondence",
    design="5/C01")

POOL_NUM = [0.0, -0.0, 1.0, -1.0, 2.0, 3.0, 0.5, -0.5, 1.5, 7.0, -7.0, 10.0, 0.1, 0.2, 0.3, 1e308, -1e308, 1.7976931348623157e308,
            5e-324, 2.2250738585072014e-308, 2.0 ** 53, 2.0 ** 53 + 2, 1e-7, 123456789.0, 1e21, 1e22, 9007199254740993.0,
            float("inf"), float("-inf"), float("nan"), 3.14159, -2.5, 100.0, 255.0, 1e15, 4.35, 0.07]
POOL_STR = ["", "a", "ab", "甲", "你好", "0", "1"]


def spelling(rng, x):
    """a documented spelling that denotes exactly the same decimal as repr(x) (finite x)"""
    if x != x or x in (float("inf"), float("-inf")):
        return None
    d = Decimal(repr(x))
    sign, digits, exp = d.as_tuple()
    ds = "".join(map(str, digits)).lstrip("0") or "0"
    k = rng.randrange(6)
    sg = "-" if sign else ""
    if k == 0 or ds == "0":
        return None
    if k == 1:
        return "%s%s*10^%d" % (sg, ds, exp)
    if k == 2:
        return "%s%sE%s%d" % (sg, ds, "+" if exp >= 0 else "-", abs(exp))
    if k == 3:
        return "%s%se%s%d" % (sg, ds, "+" if exp >= 0 else "-", abs(exp))
    if k == 4:
        return "%s%s*^%d" % (sg, ds, exp)
    if len(ds) > 1:
        return "%s%s.%s*10^%s%d" % (sg, ds[0], ds[1:], "+" if exp + len(ds) - 1 >= 0 else "", exp + len(ds) - 1)
    return None


class ExprGen:
    def __init__(self, rng, env):
        self.rng = rng
        self.env = env          # name -> ("num"|"bool"|"str"|"null")
        self.marker = 0

    def lit(self, t):
        rng = self.rng
        if t == "num":
            x = rng.choice(POOL_NUM) if rng.random() < 0.5 else float(rng.randrange(-5, 12)) / rng.choice([1, 1, 2, 4])
            if x != x or abs(x) == float("inf"):
                x = float(rng.randrange(0, 9))
            return Num(x, spelling(rng, x))
        if t == "bool":
            return Var(rng.choice(["真", "假"]))
        if t == "str":
            return Str(rng.choice(POOL_STR))
        return Var("空")

    def leaf(self, t):
        vs = [n for n, ty in self.env.items() if ty == t]
        if vs and self.rng.random() < 0.5:
            return Var(self.rng.choice(vs))
        return self.lit(t)

    def gen(self, t, d):
        rng = self.rng
        if rng.random() < 0.06:
            t = rng.choice(["num", "bool", "str", "null"])         # deliberate type error
        if d <= 0 or rng.random() < 0.15:
            e = self.leaf(t)
        elif t == "num" and rng.random() < 0.08:
            # 自增 / 自减 on a value of its own (a literal, an operator result) gives the sum / difference, and the literal
            # keeps denoting its number wherever else it is written
            x = float(rng.randrange(0, 9))
            recv = Num(x) if rng.random() < 0.7 else Arith("+", Num(x), Num(0.0))
            e = Arith(rng.choice(["+", "*", "-"]), Method(recv, [(rng.choice(["自增", "自减"]), [Num(float(rng.randrange(1, 5)))])]),
                      Num(x) if rng.random() < 0.7 else self.gen("num", d - 1))
        elif t == "num":
            op = rng.choice(["+", "-", "*", "/", "|", "%", "+", "-", "*"])
            e = Arith(op, self.gen("num", d - 1), self.gen("num", d - 1 if rng.random() < 0.7 else 0))
        elif t == "bool" and self.env and rng.random() < 0.12:
            # one and the same element on both sides (directly, or handed through the identity method): equality is decided
            # by the values — a NaN input is not equal to itself — never by the identity of the element
            v = rng.choice(sorted(self.env))
            other = Var(v)
            if rng.random() < 0.3:
                self.marker += 1
                other = Call("Mk", [Num(self.marker), Var(v)])
            e = Logic(rng.choice(["xeq", "xneq", "eq", "neq", "gte", "lte"]), Var(v), other)
        elif t == "bool":
            k = rng.random()
            if k < 0.4:
                ops = [self.gen("bool", d - 1), self.gen("bool", d - 1)]
                if rng.random() < 0.15:
                    # an operand that fails (or is no truth value) directly under 且 / 或: the error of an evaluated operand is
                    # the error of the whole expression, a short-circuited one is never evaluated
                    tt = rng.choice(["str", "bool", "null", "str"])
                    bad = rng.choice([
                        Logic(rng.choice(["gt", "gte", "lt", "lte"]), self.gen(tt, 0), self.gen("num", min(1, d - 1))),
                        Logic(rng.choice(["gt", "gte", "lt", "lte"]), self.gen("num", min(1, d - 1)), self.gen(tt, 0)),
                        Logic(rng.choice(["eq", "gt"]), Arith("/", self.gen("num", 0), Num(0.0)), self.gen("num", 0)),
                        self.gen(rng.choice(["num", "str", "null"]), 0)])
                    ops[rng.randrange(2)] = bad
                e = Logic(rng.choice(["and", "or"]), ops[0], ops[1])
            elif k < 0.7:
                e = Logic(rng.choice(["gt", "gte", "lt", "lte", "eq", "neq"]), self.gen("num", d - 1), self.gen("num", d - 1))
            else:
                tt = rng.choice(["num", "str", "bool", "null"])
                e = Logic(rng.choice(["xeq", "xneq", "eq", "neq"]), self.gen(tt, d - 1), self.gen(tt if rng.random() < 0.7 else rng.choice(["num", "str", "bool", "null"]), d - 1))
        else:
            e = self.leaf(t)
        if rng.random() < 0.12:
            self.marker += 1
            e = Call("Mk", [Num(self.marker), e])
        return e


def gen_case(rng):
    env = {}
    inputs = {}
    names = ["Xa", "Xb", "Xc", "Xd"]
    for n in names[:rng.randrange(0, 5)]:
        t = rng.choice(["num", "num", "num", "bool", "str", "null"])
        env[n] = t
        if t == "num":
            x = rng.choice(POOL_NUM) if rng.random() < 0.85 else float("nan")
            inputs[n] = {"t": "num", "bits": "%016x" % G.f2bits(x)}
        elif t == "bool":
            inputs[n] = {"t": "bool", "v": rng.random() < 0.5}
        elif t == "str":
            inputs[n] = {"t": "str", "v": [ord(c) for c in rng.choice(POOL_STR)]}
        else:
            inputs[n] = {"t": "null"}
    g = ExprGen(rng, env)
    e = g.gen(rng.choice(["num", "num", "bool"]), rng.choice([1, 2, 3, 4, 5, 6, 7, 9]))
    body = [Func("Mk", ["Kk", "Vv"], [Display(Var("Kk")), Return(Var("Vv"))])]
    if env and rng.random() < 0.25:
        # the expression stands in a block of its own, after another block (or a called method) used the same names for other
        # values: an operand denotes the value its variable holds where the expression stands
        shadow = [Decl([(False, [n], Num(float(rng.randrange(100, 200))))]) for n in env if rng.random() < 0.8]
        if shadow and rng.random() < 0.5:
            body.append(Func("Sh", list(env.keys())[:2], [Return(Num(1.0))]))
            body.append(ExprS(Call("Sh", [Num(7.0) for _ in list(env.keys())[:2]])))
        if shadow:
            body.append(Branch(Logic("eq", Num(1.0), Num(1.0)), shadow + [Display(Var(list(env.keys())[0]))]))
        body.append(Branch(Logic("eq", Num(1.0), Num(1.0)), [Return(e)]))
    else:
        body.append(Return(e))
    return (list(env.keys()), body, []), inputs


def literal_cases(rng, n):
    """number literals alone: value = correctly rounded decimal (checked against Python's float of the same spelling)"""
    out = []
    for _ in range(n):
        x = rng.choice(POOL_NUM)
        if x != x or abs(x) == float("inf"):
            continue
        sp = spelling(rng, x)
        out.append((([], [Return(Num(x, sp))], []), None))
    return out


def type_matrix():
    """every comparison operator on every pair of operand types (number, text, truth value, 空, list), written as literals, alone
    and as the evaluated operand of 且 / 或: which pairs give a truth value and which an error (and which error) is fixed"""
    lits = {"num": Num(1.0), "str": Str("a"), "bool": Var("真"), "null": Var("空"), "list": Arr([Num(1.0)])}
    out = []
    for op in ["gt", "gte", "lt", "lte", "eq", "neq", "xeq", "xneq"]:
        for lt in lits:
            for rt in lits:
                e = Logic(op, lits[lt], lits[rt])
                out.append((([], [Return(e)], []), None))
                if op in ("gt", "lte") or lt == "null":
                    out.append((([], [Return(Logic("or", e, Var("真")))], []), None))
                    out.append((([], [Return(Logic("and", Var("真"), e))], []), None))
    return out


def nan_self_cases():
    """an input holding NaN (and, for contrast, 1) compared with itself under every equality operator, directly, through the
    identity method, and as the left operand of 且 / 或: equality is decided by the values"""
    out = []
    mk = Func("Mk", ["Kk", "Vv"], [Display(Var("Kk")), Return(Var("Vv"))])
    for val in (float("nan"), 1.0, float("inf")):
        inputs = {"Xa": {"t": "num", "bits": "%016x" % G.f2bits(val)}}
        for op in ["xeq", "xneq", "eq", "neq", "gte", "lte", "gt"]:
            e = Logic(op, Var("Xa"), Var("Xa"))
            out.append(((["Xa"], [mk, Return(e)], []), inputs))
            out.append(((["Xa"], [mk, Return(Logic(op, Var("Xa"), Call("Mk", [Num(1.0), Var("Xa")])))], []), inputs))
            out.append(((["Xa"], [mk, Return(Logic("or", e, Call("Mk", [Num(2.0), Var("真")])))], []), inputs))
            out.append(((["Xa"], [mk, Return(Logic("and", e, Call("Mk", [Num(3.0), Var("真")])))], []), inputs))
    return out


def run(chk, replay=None):
    rng = chk.rng
    if replay is not None:
        semprop.run_property(chk, "C01", "c01", [], 0, 0, replay=replay, what="expression value differs from the documented value")
        return
    n = 260 if chk.tier == "quick" else 4000
    cases = [gen_case(rng) for _ in range(n)] + literal_cases(rng, 40 if chk.tier == "quick" else 400) + type_matrix() + nan_self_cases()
    # the catalogue's witness
    cases.append((([], [Return(Logic("xeq", Map([("A", Num(1)), ("B", Num(2)), ("C", Num(3))]), Map([("A", Num(1)), ("B", Num(9)), ("C", Num(8))])))], []), None))
    cases.append((([], [Return(Logic("xeq", Map([("B", Num(2)), ("A", Num(1))]), Map([("A", Num(1)), ("B", Num(2))])))], []), None))
    extra = [(p, i, "expression") for p, i in cases]
    semprop.run_property(chk, "C01", "c01", [(1, proggen.Profile())], 0, 0, extra_programs=extra, layouts=True, mode="exec",
                         what="expression value differs from the documented value")
    chk.coverage["rule"] = ("seeded operator trees (depth 1-9, all operators, 6% deliberate type errors, literals in the documented numeric "
                            "spellings, 0-4 inputs bound to boundary doubles/booleans/texts/空, display markers in 12% of operands), rendered with "
                            "random synonyms and redundant braces, evaluated as 输出‹expr›; distinct = distinct (program text, inputs)")
