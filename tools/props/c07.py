# C07 — Lists and dictionaries are copied on assignment; objects are shared.
from vlib import core, semprop, proggen
from vlib.semgen import *

HARNESS = "sem"
CLAIM = dict(
    text=("Theorems (coq/props/C07.v) about value.DuplicateValue in a heap model where every list, dictionary and object is a cell and "
          "aliasing is explicit: for every closed heap, every value (any nesting, any size) and every fuel, the copy lives entirely in "
          "fresh cells, the original cells are untouched, the copy's snapshot equals the original's, the original's snapshot only reads "
          "old cells and the copy's only reads fresh cells — hence no sequence of writes through one name can change what the other "
          "name denotes (dup_spec + locality lemmas, induction on fuel and on the element lists); objects are not copied (shared). "
          "Tie: generated histories copy / mutate through one name (element and key assignment, every mutating method, nested) / read "
          "through the other, with display after the steps, executed by the interpreter and by the model in Coq."),
    note=semprop.TB + ("Go slice capacity is not modelled (the array returned by 合并 shares storage with its receiver; the generator does not "
                       "mutate that temporary); loop variables and parameters alias their source (not judged, DESIGN.md section 10)."),
    technique="Coq proof (heap separation of DuplicateValue: freshness, equality, locality) + model/implementation correspondence",
    design="5/C07")

PROFILES = [
    (3, proggen.Profile(collections=4.0, control=0.5, funcs=0.4, classes=0.8, exceptions=0.1, markers=0.2, type_errors=0.0, stmts=(5, 12))),
    (1, proggen.Profile(collections=3.0, control=1.0, classes=1.5, funcs=1.0, exceptions=0.2, markers=0.3)),
]


def history(rng):
    """copy, mutate through one name, read through the other, at random nesting"""
    def nest(d):
        if d == 0 or rng.random() < 0.3:
            return Arr([Num(rng.randrange(0, 9)) for _ in range(rng.randrange(0, 4))])
        if rng.random() < 0.5:
            return Arr([nest(d - 1) for _ in range(rng.randrange(1, 3))] + [Num(rng.randrange(0, 9))])
        return Map([(k, nest(d - 1)) for k in rng.sample(["k", "m", "z"], rng.randrange(1, 3))])
    a = nest(2)
    body = [Decl([(False, ["A"], a)])]
    how = rng.randrange(10)
    path = None          # how the copy is reached through B when it is embedded in a larger value
    if how == 4:
        # a literal that embeds the variable: the declared value is a deep copy of the whole literal
        body.append(Decl([(False, ["B"], Arr([Var("A"), Num(3)]))]))
        path = Index(Var("B"), Num(1))
    elif how == 5:
        body.append(Decl([(False, ["B"], Map([("in", Var("A")), ("n", Num(1))]))]))
        path = Index(Var("B"), Str("in"))
    elif how == 6:
        body.append(Decl([(False, ["B"], Arr([Arr([Var("A")]), Var("A")]))]))
        path = Index(Index(Var("B"), Num(1)), Num(1)) if rng.random() < 0.5 else Index(Var("B"), Num(2))
    elif how == 7:
        body += [Decl([(False, ["B"], Num(0))]), ExprS(AssignVar("B", Arr([Var("A")])))]
        path = Index(Var("B"), Num(1))
    elif how >= 8:
        # stored through a member-style target (the 首项 / 末项 setter of a list): a copy, like every other store
        m = rng.choice(["首项", "末项"])
        body += [Decl([(False, ["B"], Arr([Num(0), Num(0)]))]), ExprS(AssignMember(Var("B"), m, Var("A")))]
        path = Member(Var("B"), m)
    elif how == 0:
        body.append(Decl([(False, ["B"], Var("A"))]))
    elif how == 1:
        body += [Decl([(False, ["B"], Num(0))]), ExprS(AssignVar("B", Var("A")))]
    elif how == 2:
        body.append(Decl([(False, ["B", "C"], Var("A"))]))
    else:
        body += [Decl([(False, ["B"], Arr([Num(0), Num(0)]))]), ExprS(AssignIndex(Var("B"), Num(1), Var("A")))]
    names = ["A", "B"] + (["C"] if how == 2 else [])
    for _ in range(rng.randrange(2, 6)):
        n = rng.choice(names)
        tgt = Var(n)
        if how == 3 and n == "B":
            tgt = Index(Var("B"), Num(1))
        if path is not None and n == "B":
            tgt = path
        if a[0] == "EArr":
            k = rng.randrange(5)
            if k == 0:
                body.append(ExprS(Method(tgt, [(rng.choice(["后增", "前增"]), [Num(rng.randrange(10, 99))])])))
            elif k == 1:
                body.append(ExprS(Method(tgt, [(rng.choice(["左移", "右移"]), [])])))
            elif k == 2:
                body.append(ExprS(AssignIndex(tgt, Num(1), Num(rng.randrange(10, 99)))))
            elif k == 3:
                body.append(ExprS(Method(Index(tgt, Num(1)), [("后增", [Num(rng.randrange(10, 99))])])))
            else:
                body.append(ExprS(AssignMember(tgt, rng.choice(["首项", "末项"]), Num(rng.randrange(10, 99)))))
        else:
            k = rng.randrange(3)
            if k == 0:
                body.append(ExprS(AssignIndex(tgt, Str(rng.choice(["k", "m", "new"])), Num(rng.randrange(10, 99)))))
            elif k == 1:
                body.append(ExprS(Method(tgt, [("移除", [Str(rng.choice(["k", "m", "z"]))])])))
            else:
                body.append(ExprS(Method(tgt, [("写入", [Str("w"), Arr([Num(1)])])])))
        body.append(Display(*[Var(x) for x in names]))
    body.append(Return(Arr([Var(x) for x in names])))
    return ([], body, [])


def derived_history(rng):
    """a list computed from another one (逆序, 合并) is a new list whatever the length of the original: it is stored by reference
    in a container, changed there, and the original is read again (and the other way round)"""
    a = Arr([Num(rng.randrange(0, 9)) for _ in range(rng.choice([0, 0, 1, 1, 1, 2, 3]))])
    body = [Decl([(False, ["A"], a)]), Decl([(False, ["B"], Arr([]))])]
    for _ in range(rng.randrange(1, 3)):
        x = rng.choice([Member(Var("A"), "逆序"), Member(Var("A"), "逆序"), Method(Var("A"), [("合并", [])]),
                        Method(Var("A"), [("合并", [Arr([])])]), Member(Member(Var("A"), "逆序"), "逆序")])
        body.append(ExprS(Method(Var("B"), [("后增", [x])])))
    for _ in range(rng.randrange(2, 5)):
        tgt = rng.choice([Var("A"), Index(Var("B"), Num(1)), Index(Var("B"), Num(1))])
        k = rng.randrange(4)
        if k == 0:
            body.append(ExprS(Method(tgt, [(rng.choice(["后增", "前增"]), [Num(rng.randrange(10, 99))])])))
        elif k == 1:
            body.append(ExprS(Method(tgt, [(rng.choice(["左移", "右移"]), [])])))
        elif k == 2:
            body.append(ExprS(AssignIndex(tgt, Num(1), Num(rng.randrange(10, 99)))))
        else:
            body.append(ExprS(AssignMember(tgt, rng.choice(["首项", "末项"]), Num(rng.randrange(10, 99)))))
        body.append(Display(Var("A"), Var("B")))
    body.append(Return(Arr([Var("A"), Var("B")])))
    return ([], body, [])


def literal_history(rng):
    """a literal evaluates to a fresh value each time it is executed: the same literal of constants in a loop body or in a method
    called several times, each result held by reference (item of a list, 得到 name, argument) and changed in place"""
    lit = lambda: Arr([Num(rng.randrange(0, 9)) for _ in range(rng.randrange(1, 4))]) if rng.random() < 0.8 else Arr([Str("a"), Str("b")])
    body = [Decl([(False, ["B"], Arr([]))])]
    if rng.random() < 0.5:
        L = lit()
        loop = [ExprS(Method(Var("B"), [("后增", [L])])),
                ExprS(AssignIndex(Index(Var("B"), Var("K")), Num(1), Arith("+", Var("K"), Num(10))))]
        if rng.random() < 0.5:
            loop.append(ExprS(Method(Index(Var("B"), Var("K")), [("后增", [Var("K")])])))
        loop.append(Display(Var("B")))
        body.append(Iter(Arr([Num(1), Num(2), Num(3)]), ["K", "V"], loop))
    else:
        L = lit()
        body.insert(0, Func("Mk", [], [Return(L)]))
        for i in range(rng.randrange(2, 4)):
            r = "R%d" % i
            body.append(ExprS(Call("Mk", [], r)))
            body.append(ExprS(Method(Var(r), [rng.choice([("后增", [Num(90 + i)]), ("左移", []), ("前增", [Num(70 + i)])])])))
            body.append(ExprS(Method(Var("B"), [("后增", [Var(r)])])))
            body.append(Display(Var(r), Var("B")))
        body.append(Display(Call("Mk", [])))
    body.append(Return(Var("B")))
    return ([], body, [])


def deep_history(rng):
    """a value nested d levels deep (built by wrapping it d times), copied, changed at the deepest level through one name and read
    through the other: at ANY nesting level"""
    d = rng.choice([3, 20, 47, 48, 49, 50, 60, 100])
    body = [Decl([(False, ["A"], Arr([Num(1), Num(2), Num(3)]))]), Decl([(False, ["I"], Num(0))]),
            While(Logic("lt", Var("I"), Num(d)), [ExprS(AssignVar("A", Arr([Var("A")]) if rng.random() < 0.7 else Map([("k", Var("A"))]))),
                                                   ExprS(AssignVar("I", Arith("+", Var("I"), Num(1))))])]
    wrap_list = body[2][2][0][1][2][0] == "EArr"
    body.append(Decl([(False, ["B"], Var("A"))]))

    def path(root):
        e = Var(root)
        for _ in range(d):
            e = Index(e, Num(1) if wrap_list else Str("k"))
        return e
    who, other = rng.choice([("A", "B"), ("B", "A")])
    body.append(ExprS(Method(path(who), [("后增", [Num(9)])])))
    body.append(ExprS(AssignIndex(path(who), Num(1), Num(77))))
    body.append(Display(path("A"), path("B")))
    body.append(Return(path(other)))
    return ([], body, [])


def run(chk, replay=None):
    n = 60 if chk.tier == "quick" else 600
    extra = [(history(chk.rng), None, "history") for _ in range(n)] if replay is None else []
    if replay is None:
        # every object starts from its own copy of the type's defaults (numbers included) and is shared, never copied, afterwards
        extra += [(derived_history(chk.rng), None, "derived-list-history") for _ in range(30 if chk.tier == "quick" else 300)]
        extra += [(literal_history(chk.rng), None, "literal-history") for _ in range(20 if chk.tier == "quick" else 200)]
        extra += [(deep_history(chk.rng), None, "deep-history") for _ in range(12 if chk.tier == "quick" else 60)]
        from props import c08
        extra += [(c08.object_history(chk.rng), None, "object-history") for _ in range(25 if chk.tier == "quick" else 300)]
    semprop.run_property(chk, "C07", "c07", PROFILES, 80, 900, replay=replay, extra_programs=extra,
                         what="copy / sharing semantics differ from the documented behaviour")
