# C06 — Names obey block scoping; constants and inputs cannot be reassigned.
#
# Symbol-table part.  Tie (T3) at two levels:
#   1. operation histories (random + exhaustive-short) on a real runtime.NewScope() and on a real
#      runtime.InitVM(exec.GlobalValues) with a pushed script call frame, against model/Scope.v evaluated
#      inside Coq (proved to refine the block-stack specification spec/ScopeSpec.v for all well-formed histories);
#   2. probe programs through the interpreter against a small reference that follows the PROPERTY TEXT
#      (block scoping); where the text leaves a choice (listed in READINGS) a program is judged only if every
#      reading gives the same outcome.
import itertools
import json
import os
import struct

from vlib import core, semprop, proggen

HARNESS = ["c06", "sem"]

TB = ("Coq 8.16.1 kernel and vm_compute; hand-written Gallina model of pkg/runtime/scope.go and the vm.go wrappers tied "
      "to /repo by the per-run correspondence check (Go harness built -tags verif from the working tree, model evaluated "
      "inside Coq on the same histories); generators, the Python block-scoping reference for probe programs and the "
      "comparison code in tools/props/c06.py; ")
CLAIM = dict(
    text=("Symbol table (coq/props/C06.v, section 'symbol table', closed under the global context): for EVERY well-formed "
          "history of begin/end-scope, declare, declare-const, declare-external, assign and lookup operations, at any depth, "
          "the executable model of runtime.Scope + the VM wrappers does not panic and answers exactly like a stack of blocks "
          "(lookup = innermost binding, redeclaration in the same block = error 43, assignment to a constant = 44, to an "
          "unknown or predefined name = 42 and nothing changes, end-block drops the top block, predefined names never "
          "declarable, a fresh symbol never inherits a popped import's module); the abstraction function commutes with every "
          "step. The model is tied to the code on every run by differential execution of the real Scope and VM (random and "
          "exhaustive-short histories, answers + depth + live-symbol count via VerifScopeInfo). Program level: generated "
          "probe programs (nested 如果/每当/遍历, methods with 输入, recursion, shadowing, use before declaration / after block "
          "end, redeclaration, assignment to 恒为 / 输入 / 得到 / method / import / predefined names, handled exceptions within "
          "and across modules) must give the result or error code 42/43/44 that block scoping prescribes, and every "
          "module's scope depth must be back to 0 after a failed run. Evaluator level (section 'program level' of "
          "coq/props/C06.v, about the evaluator model Sem): for every program, fuel and nesting a finished block — ended normally, by "
          "输出, by a loop signal or by an error — leaves every name resolving to the symbol it resolved to before (inner declarations "
          "gone, shadowed names back), every constant keeps its value across any block and any call, a call only adds 得到 bindings "
          "of the caller's own block, assignment to a constant is refused with 44 and changes nothing; Sem is tied to the interpreter "
          "in this check by generated scoping-probe programs (dead names read / assigned / redeclared, shadowing of variables and "
          "constants in 如果 / 每当 / 遍历 blocks, assignment to constants, 得到 results and definitions) run through both."),
    note=TB + ("well-formedness of histories (EndScope never outnumbers BeginScope, no nil element stored, module ids >= 0) "
               "is a hypothesis of the theorems, discharged for Begin/defer-End disciplines by C06_paired_histories_balanced; "
               "the evaluator-level theorems are about Sem (one module; they rest, through Flocq, on the four standard-library "
               "axioms named in the evidence). Probe-program expectations come from the Python reference, "
               "not from a verified model; constructs on which the property text is silent (callee sees caller's names, "
               "parameter block vs body block, loop variables, what a handler sees, whether runtime errors are catchable) are "
               "not judged. No axioms."),
    technique="Coq proof (refinement by induction over operation histories with an abstraction function; control-state balance invariant of the evaluator by induction on fuel) + model/implementation correspondence by vm_compute + reference-based probe differential",
    design="5/C06")

IMPORTS = ("From Coq Require Import List ZArith Bool Uint63. Import ListNotations.\n"
           "From Zn.spec Require Import ScopeSpec.\nFrom Zn.model Require Import Scope.")

PRE = ["真", "假", "空", "异常", "显示", "取随机数", "数值"]
OPN = ["begin", "end", "declare", "declare-const", "declare-external", "assign", "lookup", "lookup-module"]
COMP = ["code", "value", "module", "depth", "count"]

# ======================================================================================
# Part 1: operation histories
# ======================================================================================


def is_wf(ops):
    d = 0
    for o in ops:
        if o[0] == 0:
            d += 1
        elif o[0] == 1:
            if d == 0:
                return False
            d -= 1
        elif o[0] in (2, 3, 5) and o[2] == 0:
            return False
        elif o[0] == 4 and (o[2] == 0 or o[3] < 0):
            return False
    return True


def py_spec_trace(ops, level):
    """Python port of spec/ScopeSpec.v (spec_trace), used for shrinking and as a cross-check of the Coq evaluation.
    level 'vm': predefined names, rows [code, value, module, depth, count]; level 'scope': the bare Scope
    (no predefined names, lookups never fail), rows [code, value, module]."""
    env = [[]]   # outermost first here; each block a list of [name, value, const, ext]
    rows = []

    def find(n):
        for b in reversed(env):
            for e in b:
                if e[0] == n:
                    return e
        return None

    for o in ops:
        k, n, v, m = o
        pre = (level == "vm" and 0 <= n < 7)
        ans = [0, 0, -1]
        if k == 0:
            env.append([])
        elif k == 1:
            env.pop()
        elif k in (2, 3, 4):
            if pre:
                ans[0] = 43
            elif any(e[0] == n for e in env[-1]):
                ans[0] = 43
            else:
                env[-1].insert(0, [n, v, k != 2, m if k == 4 else None])
        elif k == 5:
            e = find(n)
            if e is None:
                ans[0] = 42
            elif e[2]:
                ans[0] = 44
            else:
                e[1] = v
        elif k in (6, 7):
            if pre:
                ans = [0, -(n + 1), -1]
            else:
                e = find(n)
                if e is None:
                    ans = [42 if level == "vm" else 0, 0, -1]
                else:
                    ans = [0, e[1], -1]
                    if k == 7:
                        if level == "vm":
                            ans[2] = e[3] if e[3] is not None else 0
                        else:
                            ans[2] = e[3] if e[3] is not None else -1
        if level == "vm":
            rows.append(ans + [len(env) - 1, sum(len(b) for b in env)])
        else:
            rows.append(ans)
    return rows


def gen_history(rng, n, level, balanced=True):
    ops = []
    depth = 0
    k = 0
    pool = rng.choice([[7, 8], [7, 8, 9], [7, 8, 9, 10, 11]])
    for _ in range(n):
        r = rng.random()
        nm = rng.choice(pool) if rng.random() < 0.92 else rng.randrange(0, 7)
        if r < 0.14:
            ops.append([0, 0, 0, 0])
            depth += 1
        elif r < 0.27:
            if depth > 0:
                ops.append([1, 0, 0, 0])
                depth -= 1
            elif not balanced and rng.random() < 0.5:
                ops.append([1, 0, 0, 0])
        elif r < 0.42:
            k += 1
            ops.append([2, nm, k, 0])
        elif r < 0.50:
            k += 1
            ops.append([3, nm, k, 0])
        elif r < 0.59:
            k += 1
            ops.append([4, nm, k, rng.choice([1, 2, 2, 0]) if level == "vm" else rng.randrange(0, 4)])
        elif r < 0.72:
            k += 1
            ops.append([5, nm, k, 0])
        elif r < 0.85:
            ops.append([6, nm, 0, 0])
        else:
            ops.append([7, nm, 0, 0])
    if not ops:
        ops.append([7, pool[0], 0, 0])
    return ops


ALPHA = [[0, 0, 0, 0], [1, 0, 0, 0], [2, 7, 0, 0], [3, 7, 0, 0], [4, 7, 0, 2], [5, 7, 0, 0], [2, 8, 0, 0],
         [7, 7, 0, 0], [7, 8, 0, 0]]
PROBES = [[7, 7, 0, 0], [5, 8, 99, 0], [7, 8, 0, 0]]


def exhaustive_short(maxlen):
    """every well-formed history of length <= maxlen over a 9-letter alphabet (two names, one import), each followed by probes"""
    out = []
    for ln in range(1, maxlen + 1):
        for combo in itertools.product(range(len(ALPHA)), repeat=ln):
            ops = []
            for i, a in enumerate(combo):
                o = list(ALPHA[a])
                if o[0] in (2, 3, 4, 5):
                    o[2] = i + 1
                ops.append(o)
            if is_wf(ops):
                out.append(ops + [list(p) for p in PROBES])
    return out


def ops_term(ops):
    return core.zlistlist(ops)


def impl_rows(out, level):
    if "steps" not in out:
        return None
    return out["steps"]


def model_rows(rows, level):
    if level == "scope":
        return [r[:3] for r in rows]
    return rows


def first_diff(a, b):
    """(step, component) of the first difference between two row lists"""
    for i in range(max(len(a), len(b))):
        if i >= len(a) or i >= len(b):
            return i, "length"
        if a[i] != b[i]:
            for c in range(max(len(a[i]), len(b[i]))):
                if c >= len(a[i]) or c >= len(b[i]) or a[i][c] != b[i][c]:
                    return i, COMP[c] if c < len(COMP) else "?"
    return None


def hist_signature(ops, obs, exp):
    i, comp = first_diff(obs, exp)
    opn = OPN[ops[i][0]] if i < len(ops) else "?"
    if comp == "module" and opn == "lookup-module":
        return "symtab:stale-external-ref"
    return "symtab:%s:%s" % (opn, comp)


def pack_op(o):
    k, n, v, m = o
    assert 0 <= k < 8 and 0 <= n < 16 and 0 <= v < 4096 and 0 <= m < 8
    return k + 8 * n + 128 * v + 524288 * m


def pack_row(r):
    if len(r) == 3:
        r = r + [0, 0]
    c, v, m, d, n = r
    if not (0 <= c < 4096 and -16 <= v < 4080 and -2 <= m < 6 and -64 <= d < 192 and 0 <= n < 256):
        return -1
    return ((((c * 4096 + (v + 16)) * 8 + (m + 2)) * 256 + (d + 64)) * 256 + n)


def ilist(ds):
    """a list of primitive 63-bit integer literals; an unencodable row (-1) becomes 2^62"""
    return "[" + ";".join(str(d if d >= 0 else 1 << 62) for d in ds) + "]%uint63"


def run_hist_batch(level, hists, verbose_all=False):
    """-> (impl rows per history | None, model rows per history (None where the model agrees), raw harness outputs).
    The comparison is done inside Coq on a packed encoding (vm_case_differs / scope_case_differs); the model's verbose
    trace is fetched only for the histories on which it differs from the implementation."""
    outs = core.harness("c06", level, [{"ops": h} for h in hists], batch_timeout=900)
    impl = [o.get("steps") if isinstance(o, dict) else None for o in outs]
    fn = "vm_case_differs" if level == "vm" else "scope_case_differs"
    terms = ["(%s, %s)" % (ilist([pack_op(o) for o in h]), ilist([pack_row(r) for r in (ir or [])]))
             for h, ir in zip(hists, impl)]
    flags = core.coq_run_cases("c06" + level[0], IMPORTS, fn, terms, shard=1500)
    model = [None] * len(hists)
    idx = [i for i, f in enumerate(flags) if f != [0] or verbose_all]
    if idx:
        vfn = "run_vm_case" if level == "vm" else "run_scope_case"
        rows = core.coq_run_cases("c06" + level[0] + "x", IMPORTS, vfn, [ops_term(hists[i]) for i in idx], shard=300)
        for i, r in zip(idx, rows):
            model[i] = model_rows(r, level)
    return impl, model, outs


def shrink_history(level, ops, sig):
    """greedy one-op removal; a candidate must stay well-formed and keep the same kind of disagreement with the
    (Python port of the) specification; the result is confirmed against the Coq model by the caller"""
    cur = ops
    changed = True
    while changed and len(cur) > 1:
        changed = False
        cands = [cur[:i] + cur[i + 1:] for i in range(len(cur))]
        cands = [c for c in cands if c and is_wf(c)]
        if not cands:
            break
        outs = core.harness("c06", level, [{"ops": c} for c in cands])
        for c, o in zip(cands, outs):
            rows = o.get("steps") if isinstance(o, dict) else None
            exp = py_spec_trace(c, level)
            if rows is None or rows == exp:
                continue
            if hist_signature(c, rows, exp) == sig:
                cur = c
                changed = True
                break
    return cur


def check_histories(chk, level, hists, labels):
    if not hists:
        return
    impl, model, raw = run_hist_batch(level, hists)
    nviol = 0
    for h, ir, mr, o, label in zip(hists, impl, model, raw, labels):
        wf = is_wf(h)
        chk.count([level, h], nontrivial=any(x[0] in (2, 3, 4) for x in h))
        chk.dist("hist:%s:%s" % (level, label))
        chk.dist("hist-len:%s" % ("<=5" if len(h) <= 5 else "<=10" if len(h) <= 10 else "<=20" if len(h) <= 20 else ">20"))
        if ir is None:
            chk.violation("symbol-table operations crashed the harness (%s) on %s history %s" % (json.dumps(o)[:120], level, json.dumps(h)[:200]),
                          "symtab:crash", {"kind": "ops", "case": {"kind": "ops", "level": level, "ops": h}, "observed": o})
            continue
        if wf:
            # cross-check of the Coq evaluation with the Python port of the specification
            ps = py_spec_trace(h, level)
            if (mr is None and ps != ir) or (mr is not None and ps != mr):
                chk.violation("Coq model and the Python port of the block-stack specification disagree on %s history %s" % (level, json.dumps(h)),
                              "oracle-disagree", {"kind": "oracle", "level": level, "ops": h, "coq": mr, "python": ps, "observed": ir}, no_input=True)
                continue
        if mr is None:
            continue                      # the model evaluated in Coq agrees with the implementation
        if not wf:
            # outside the theorems' hypothesis: only the tie (model = code) is looked at, without the module answer
            a = [r[:2] + r[3:] for r in ir]
            b = [r[:2] + r[3:] for r in mr]
            if a != b:
                chk.violation("model/Scope.v no longer mirrors scope.go on the unbalanced %s history %s: code %s model %s" % (level, json.dumps(h), a, b),
                              "tie:scope-model", {"kind": "tie", "level": level, "ops": h, "observed": ir, "model": mr}, no_input=True)
            continue
        nviol += 1
        sig = hist_signature(h, ir, mr)
        if nviol <= 1:
            small = shrink_history(level, h, sig)
            if small != h:
                im2, mo2, _ = run_hist_batch(level, [small], verbose_all=True)
                if im2[0] is not None and im2[0] != mo2[0] and hist_signature(small, im2[0], mo2[0]) == sig:
                    h, ir, mr = small, im2[0], mo2[0]
        i, comp = first_diff(ir, mr)
        chk.violation("%s history %s: step %d (%s) answers %s=%s, the block-stack specification (model evaluated in Coq) says %s"
                      % (level, json.dumps(h), i, OPN[h[i][0]] if i < len(h) else "?", comp,
                         ir[i] if i < len(ir) else None, mr[i] if i < len(mr) else None),
                      sig, {"kind": "ops", "case": {"kind": "ops", "level": level, "ops": h}, "expected": mr, "observed": ir,
                            "encoding": "op = [opcode,name,value,module]; opcodes " + ",".join("%d=%s" % (i, n) for i, n in enumerate(OPN)) +
                                        "; names 0..6 predefined; row = [code,value,module,depth,count]",
                            "replay_cmd": "./check C06 --replay <this file>"})


# ======================================================================================
# Part 2: probe programs
# ======================================================================================
# program = {"imports": bool, "inputs": [[name, value]], "methods": [method], "foreign": [method], "body": [stmt],
#            "handler": [stmt] | None}
# method  = {"name", "params": [name], "body": [stmt], "handler": [stmt] | None}
# stmt    = ["decl", name, expr, const] | ["assign", name, expr] | ["show", expr] | ["if", cond, [stmt], [stmt]|None]
#         | ["while", counter, n, [stmt]] | ["iter", [names], [ints], [stmt]] | ["call", fname, [expr], yield|None]
#         | ["mcall", yield] | ["ret", expr] | ["throw"]
# expr    = int | name | ["dec", name]          cond = true | false | ["gt0", name]

READINGS = {
    "callee_scope": ["lexical", "dynamic"],    # does a method body see the names of its caller's open blocks?
    "param_block": ["separate", "same"],       # are 输入 names / method names in the same block as the body's declarations?
    "loopvar_const": [False, True],            # may a 遍历 variable be assigned?
    "loopvar_block": ["separate", "same"],     # are the loop variables in the same block as the loop body's declarations?
    "handler_sees_body": [False, True],        # does a 拦截 block see the declarations of the body that raised?
}
ENV_READINGS = {"catchable": [False, True]}    # can 拦截异常 intercept runtime errors? (C09's subject, not judged here)


class ZErr(Exception):
    def __init__(self, codes, why):
        Exception.__init__(self, why)
        self.codes = frozenset(codes)
        self.why = why


class ZThrow(Exception):
    pass


class ZReturn(Exception):
    def __init__(self, v):
        Exception.__init__(self)
        self.v = v


class Budget(Exception):
    pass


class Ref:
    """reference interpreter: block scoping as the property states it"""

    def __init__(self, prog, rd):
        self.p = prog
        self.rd = rd
        self.display = []
        self.steps = 0
        self.why = None
        self.methods = {m["name"]: m for m in prog["methods"]}
        self.foreign = {m["name"]: m for m in prog.get("foreign", [])}

    # -- environment: list of dict name -> [value, const, kind]
    @staticmethod
    def lookup(env, n):
        for b in reversed(env):
            if n in b:
                return b[n]
        return None

    def declare(self, env, n, v, const, kind):
        if n in PRE:
            raise ZErr([43], "redeclare:predefined")
        if n in env[-1]:
            raise ZErr([43], "redeclare:" + env[-1][n][2])
        env[-1][n] = [v, const, kind]

    def assign(self, env, n, v):
        if n in PRE:
            raise ZErr([42, 44], "assign:predefined")
        b = self.lookup(env, n)
        if b is None:
            raise ZErr([42], "assign:undefined")
        if b[1]:
            raise ZErr([44], "assign:" + b[2])
        b[0] = v

    def ev(self, env, e):
        if isinstance(e, bool):
            return e
        if isinstance(e, int):
            return e
        if isinstance(e, list):
            v = self.ev(env, e[1])
            return v - 1
        if e in PRE:
            return {"真": True, "假": False}.get(e, None)
        b = self.lookup(env, e)
        if b is None:
            raise ZErr([42], "use:undefined")
        return b[0]

    def cond(self, env, c):
        if isinstance(c, list):
            return self.ev(env, c[1]) > 0
        return bool(c)

    def tick(self):
        self.steps += 1
        if self.steps > 4000:
            raise Budget()

    def block(self, env, stmts):
        env2 = env + [{}]
        for s in stmts:
            self.stmt(env2, s)

    def seq(self, env, stmts):
        for s in stmts:
            self.stmt(env, s)

    def stmt(self, env, s):
        self.tick()
        k = s[0]
        if k == "decl":
            v = self.ev(env, s[2])
            self.declare(env, s[1], v, s[3], "const" if s[3] else "var")
        elif k == "assign":
            v = self.ev(env, s[2])
            self.assign(env, s[1], v)
        elif k == "show":
            v = self.ev(env, s[1])
            self.display.append(fmt(v))
        elif k == "if":
            if self.cond(env, s[1]):
                self.block(env, s[2])
            elif s[3] is not None:
                self.block(env, s[3])
        elif k == "while":
            self.declare(env, s[1], 0, False, "var")
            while self.lookup(env, s[1])[0] < s[2]:
                self.tick()
                env2 = env + [{}]
                self.assign(env2, s[1], self.ev(env2, s[1]) + 1)
                self.seq(env2, s[3])
        elif k == "iter":
            names, items, body = s[1], s[2], s[3]
            const = self.rd["loopvar_const"]
            lv = {}
            envl = env + [lv]
            for n in names:
                self.declare(envl, n, None, const, "loopvar")
            for idx, it in enumerate(items):
                self.tick()
                vals = [it] if len(names) == 1 else [idx + 1, it]
                if self.rd["loopvar_block"] == "same":
                    blk = {}
                    for n, v in zip(names, vals):
                        blk[n] = [v, const, "loopvar"]
                    self.seq(env + [blk], body)
                else:
                    for n, v in zip(names, vals):
                        lv[n][0] = v
                    self.seq(envl + [{}], body)
        elif k == "call":
            args = [self.ev(env, a) for a in s[2]]
            f = self.lookup(env, s[1])
            if f is None:
                raise ZErr([42], "use:undefined")
            rv = self.call(env, f[0], args)
            if s[3] is not None:
                self.declare(env, s[3], rv, True, "yield")
        elif k == "mcall":
            self.declare(env, s[1], True, True, "yield")
        elif k == "ret":
            raise ZReturn(self.ev(env, s[1]))
        elif k == "throw":
            raise ZThrow()

    def call(self, env, fref, args):
        kind, name = fref
        if kind == "foreign":
            m = self.foreign[name]
            base = [{}]
        else:
            m = self.methods[name]
            base = env if self.rd["callee_scope"] == "dynamic" else self.prog_base
        return self.run_exec_block(base, m["params"], args, m["body"], m.get("handler"))

    def run_exec_block(self, base, params, args, body, handler, extra=None):
        pb = {}
        if extra:
            pb.update(extra)
        for p, a in zip(params, args):
            pb[p] = [a, True, "input"]
        envp = base + [pb]
        if self.rd["param_block"] == "same":
            bodyenv = envp
        else:
            bodyenv = envp + [{}]
        if extra is not None:
            self.prog_base = list(bodyenv)
        try:
            try:
                self.seq(bodyenv, body)
            except ZThrow:
                if handler is None:
                    raise
                self.run_handler(envp, bodyenv, handler)
            except ZErr:
                if handler is None or not self.rd["catchable"]:
                    raise
                self.run_handler(envp, bodyenv, handler)
        except ZReturn as r:
            return r.v
        return None

    def run_handler(self, envp, bodyenv, handler):
        henv = bodyenv if self.rd["handler_sees_body"] else envp
        self.block(henv, handler)

    def run(self):
        p = self.p
        b0 = {}
        if p.get("imports"):
            for n in ("解析JSON", "生成JSON"):
                b0[n] = [None, True, "import"]
        for m in p.get("foreign", []):
            b0[m["name"]] = [("foreign", m["name"]), True, "import"]
        extra = {}
        for m in p["methods"]:
            extra[m["name"]] = [("method", m["name"]), True, "method"]
        self.prog_base = [b0]
        try:
            v = self.run_exec_block([b0], [x[0] for x in p["inputs"]], [x[1] for x in p["inputs"]], p["body"],
                                    p.get("handler"), extra=extra)
            return (tuple(self.display), "value", v)
        except ZErr as e:
            self.why = e.why
            return (tuple(self.display), "error", e.codes)
        except ZThrow:
            return (tuple(self.display), "error", "exception")


def fmt(v):
    if v is True:
        return "真"
    if v is False:
        return "假"
    if v is None:
        return "空"
    return str(v)


def judge(prog):
    """-> (set of acceptable outcomes, why) or (None, reason) when the property text does not decide the program"""
    acceptable = set()
    why = None
    for cat in ENV_READINGS["catchable"]:
        outs = set()
        for combo in itertools.product(*[READINGS[k] for k in sorted(READINGS)]):
            rd = dict(zip(sorted(READINGS), combo))
            rd["catchable"] = cat
            r = Ref(prog, rd)
            try:
                o = r.run()
            except Budget:
                return None, "budget"
            except RecursionError:
                return None, "budget"
            outs.add(o)
            if r.why and why is None:
                why = r.why
            if len(outs) > 1:
                return None, "readings-differ"
        acceptable |= outs
    return acceptable, why


# ---- rendering

def rexpr(e):
    if isinstance(e, list):
        return "%s - 1" % e[1]
    return str(e)


def rcond(c):
    if isinstance(c, list):
        return "%s > 0" % c[1]
    return "真" if c else "假"


def rstmts(stmts, ind, out):
    pad = "    " * ind
    for s in stmts:
        k = s[0]
        if k == "decl":
            out.append("%s令%s%s%s" % (pad, s[1], "恒为" if s[3] else " = ", rexpr(s[2])))
        elif k == "assign":
            out.append("%s%s = %s" % (pad, s[1], rexpr(s[2])))
        elif k == "show":
            out.append("%s（显示：%s）" % (pad, rexpr(s[1])))
        elif k == "if":
            out.append("%s如果%s：" % (pad, rcond(s[1])))
            rstmts(s[2], ind + 1, out)
            if s[3] is not None:
                out.append("%s否则：" % pad)
                rstmts(s[3], ind + 1, out)
        elif k == "while":
            out.append("%s令%s = 0" % (pad, s[1]))
            out.append("%s每当%s < %d：" % (pad, s[1], s[2]))
            out.append("%s    %s = %s + 1" % (pad, s[1], s[1]))
            rstmts(s[3], ind + 1, out)
        elif k == "iter":
            out.append("%s以%s遍历【%s】：" % (pad, "、".join(s[1]), "，".join(str(i) for i in s[2])))
            rstmts(s[3], ind + 1, out)
        elif k == "call":
            t = "（%s%s）" % (s[1], ("：" + "、".join(rexpr(a) for a in s[2])) if s[2] else "")
            if s[3] is not None:
                t += "得到" + s[3]
            out.append(pad + t)
        elif k == "mcall":
            out.append("%s以【1，2】（包含：1）得到%s" % (pad, s[1]))
        elif k == "ret":
            out.append("%s输出%s" % (pad, rexpr(s[1])))
        elif k == "throw":
            out.append("%s抛出异常：“x”！" % pad)


def rmethod(m, out):
    out.append("如何%s？" % m["name"])
    if m["params"]:
        out.append("    输入" + "、".join(m["params"]))
    rstmts(m["body"], 1, out)
    if m.get("handler") is not None:
        out.append("    拦截异常：")
        rstmts(m["handler"], 2, out)


def render(prog):
    """-> harness case {src, files?, inputs?, names}"""
    out = []
    if prog.get("imports"):
        out.append("导入《@JSON》")
    if prog.get("foreign"):
        out.append("导入《乙》")
    if prog["inputs"]:
        out.append("输入" + "、".join(x[0] for x in prog["inputs"]))
    for m in prog["methods"]:
        rmethod(m, out)
    rstmts(prog["body"], 0, out)
    if prog.get("handler") is not None:
        out.append("拦截异常：")
        rstmts(prog["handler"], 1, out)
    case = {"src": "\n".join(out) + "\n", "names": sorted(all_names(prog))}
    if prog["inputs"]:
        case["inputs"] = {x[0]: x[1] for x in prog["inputs"]}
    if prog.get("foreign"):
        fo = []
        for m in prog["foreign"]:
            rmethod(m, fo)
        case["files"] = {"乙.zn": "\n".join(fo) + "\n"}
    return case


def all_names(prog):
    ns = set(PRE) | {"解析JSON", "生成JSON"}

    def walk(stmts):
        for s in stmts:
            for x in s[1:]:
                col(x)

    def col(x):
        if isinstance(x, str):
            ns.add(x)
        elif isinstance(x, list):
            for y in x:
                col(y)

    for m in prog["methods"] + prog.get("foreign", []):
        ns.add(m["name"])
        ns.update(m["params"])
        walk(m["body"])
        walk(m.get("handler") or [])
    for x in prog["inputs"]:
        ns.add(x[0])
    walk(prog["body"])
    walk(prog.get("handler") or [])
    return ns


def observe(o):
    """harness output -> outcome triple (display, kind, payload)"""
    if not isinstance(o, dict) or "kind" not in o:
        return ("abnormal", json.dumps(o, ensure_ascii=False)[:200], None)
    disp = tuple(o.get("display", []))
    if o["kind"] == "value":
        v = o["value"]
        if v["t"] == "num":
            f = struct.unpack(">d", bytes.fromhex(v["bits"]))[0]
            pv = int(f) if f == int(f) else f
        elif v["t"] == "bool":
            pv = v["v"]
        elif v["t"] in ("null", "nil"):
            pv = None
        else:
            pv = "?" + v["t"]
        return (disp, "value", pv)
    e = o["err"]
    ec = o.get("ecode", -1)
    if ec in (42, 43, 44):
        return (disp, "error", ec)
    if e.get("class") in ("signal", "goexception"):
        return (disp, "error", "exception")
    return (disp, "error", "other:%s:%s" % (e.get("class"), e.get("code")))


def outcome_ok(obs, acceptable):
    for a in acceptable:
        if a[0] != obs[0] or a[1] != obs[1]:
            continue
        if a[1] == "value":
            if a[2] == obs[2] and type(a[2]) == type(obs[2]):
                return True
        elif isinstance(a[2], frozenset):
            if obs[2] in a[2]:
                return True
        elif a[2] == obs[2]:
            return True
    return False


def show_outcome(o):
    d, k, p = o
    if isinstance(p, frozenset):
        p = "/".join(str(c) for c in sorted(p))
    return "%s %s, displayed %s" % (k, p, list(d))


def pick_expected(acceptable):
    """the representative acceptable outcome: the scoping error if there is one"""
    errs = [a for a in acceptable if a[1] == "error" and isinstance(a[2], frozenset)]
    return sorted(errs or acceptable, key=lambda a: str(a))[0]


def prog_signature(obs, acceptable, why):
    """classification by what block scoping REQUIRED at the first point of divergence (what happens after a missed
    error is incidental)"""
    exp = pick_expected(acceptable)
    if obs[0] == "abnormal":
        return "prog:abnormal"
    if exp[1] == "error" and isinstance(exp[2], frozenset):
        w = why or "?"
        if w.startswith("redeclare"):
            w = "redeclare"
        return "prog:%d:%s" % (min(exp[2]), w)
    return "prog:unexpected-%s" % obs[1]


# ---- generation

VARS = ["A", "B", "C", "D"]
FRESH = ["Y", "Z"]
METHODS = ["F", "G", "H"]
CJK = "甲乙丙丁戊己庚辛壬癸"


class Gen:
    def __init__(self, rng):
        self.rng = rng
        self.k = 10          # value counter (values are distinct)
        self.nctr = 0
        self.ended = []      # names declared in blocks that have ended (candidates for use-after-end)
        self.methods = []
        self.budget = 0

    def val(self):
        self.k += 1
        return self.k

    def counter(self):
        self.nctr += 1
        return "计" + CJK[(self.nctr - 1) % 10] + (CJK[(self.nctr - 1) // 10 % 10] if self.nctr > 10 else "")

    def visible(self, scopes):
        vis = {}
        for b in scopes:
            vis.update(b)
        return vis

    def pick_show(self, scopes, p_err):
        rng = self.rng
        vis = [n for n, k in self.visible(scopes).items() if k in ("var", "const", "input", "yield", "loopvar")]
        r = rng.random()
        if r < p_err and self.ended:
            return rng.choice(self.ended)
        if r < 1.6 * p_err:
            return rng.choice(FRESH)
        if vis:
            return rng.choice(vis)
        return self.val()

    def stmts(self, scopes, n, depth, in_loop, p_err, in_method):
        """scopes: static approximation of the visible blocks (list of dict name -> kind), innermost last"""
        rng = self.rng
        out = []
        scopes = scopes + [{}]
        top = scopes[-1]
        for _ in range(n):
            if self.budget <= 0:
                break
            self.budget -= 1
            r = rng.random()
            vis = self.visible(scopes)
            if r < 0.27:
                e = rng.random()
                if e < p_err and top:
                    name = rng.choice(list(top))                # redeclare in the same block
                elif e < 1.5 * p_err:
                    name = rng.choice(PRE)
                elif e < 0.35 and vis:
                    name = rng.choice([x for x in vis if vis[x] in ("var", "const")] or VARS)   # shadow / (maybe) redeclare
                else:
                    name = rng.choice(VARS)
                if name in top and rng.random() > p_err * 4:
                    free = [v for v in VARS if v not in top]
                    if not free:
                        continue
                    name = rng.choice(free)
                const = rng.random() < 0.3
                src = self.val() if rng.random() < 0.7 else self.pick_show(scopes, p_err / 2)
                out.append(["decl", name, src, const])
                if name not in PRE and name not in top:
                    top[name] = "const" if const else "var"
            elif r < 0.42:
                e = rng.random()
                mut = [x for x in vis if vis[x] == "var"]
                cst = [x for x in vis if vis[x] in ("const", "input", "yield", "method", "import")]
                if e < p_err and cst:
                    name = rng.choice(cst)
                elif e < 1.5 * p_err and self.ended:
                    name = rng.choice(self.ended)
                elif e < 1.8 * p_err:
                    name = rng.choice(PRE[:3] + FRESH)
                elif mut:
                    name = rng.choice(mut)
                else:
                    continue
                out.append(["assign", name, self.val()])
            elif r < 0.66:
                out.append(["show", self.pick_show(scopes, p_err)])
            elif r < 0.76 and depth < 4:
                c = rng.random() < 0.7
                th = self.stmts(scopes, rng.randrange(1, 4), depth + 1, in_loop, p_err, in_method)
                el = self.stmts(scopes, rng.randrange(1, 3), depth + 1, in_loop, p_err, in_method) if rng.random() < 0.4 else None
                out.append(["if", c, th, el])
            elif r < 0.80 and depth < 3:
                body = self.stmts(scopes, rng.randrange(1, 3), depth + 1, True, p_err, in_method)
                out.append(["while", self.counter(), rng.randrange(1, 3), body])
            elif r < 0.85 and depth < 3:
                names = rng.choice([["K"], ["V"], ["K", "V"]])
                names = [x for x in names]
                lv = dict((x, "loopvar") for x in names)
                body = self.stmts(scopes + [lv], rng.randrange(1, 3), depth + 1, True, p_err, in_method)
                out.append(["iter", names, [self.val() for _ in range(rng.randrange(1, 3))], body])
            elif r < 0.94 and self.methods:
                m = rng.choice(self.methods)
                args = [self.val() if rng.random() < 0.6 else self.pick_show(scopes, p_err / 2) for _ in m["params"]]
                y = None
                if rng.random() < 0.5:
                    y = rng.choice(["R", "S"])
                    if y in top:
                        y = None
                    else:
                        top[y] = "yield"
                out.append(["call", m["name"], args, y])
            elif r < 0.97:
                y = rng.choice(["R", "S"])
                if y not in top:
                    top[y] = "yield"
                    out.append(["mcall", y])
        if not out:
            out.append(["show", self.val()])
        self.ended.extend(x for x in top if x not in self.visible(scopes[:-1]))
        return out

    def method(self, name, base, p_err):
        rng = self.rng
        params = rng.choice([[], ["P"], ["P", "Q"]])
        sc = [dict(base), dict((p, "input") for p in params)]
        self.budget = rng.randrange(2, 8)
        saved = self.ended
        self.ended = []
        body = self.stmts(sc, rng.randrange(1, 5), 1, False, p_err, True)
        handler = None
        if rng.random() < 0.25:
            body.append(["throw"]) if rng.random() < 0.7 else None
            handler = [["show", self.val()], ["ret", self.val()]]
        body.append(["ret", self.val() if rng.random() < 0.5 else self.pick_show(sc + [{}], 0)]) if not (body and body[-1][0] == "throw") else None
        mine = self.ended
        self.ended = saved + mine
        return {"name": name, "params": params, "body": body, "handler": handler}

    def program(self):
        rng = self.rng
        p_err = rng.choice([0.0, 0.04, 0.08, 0.15])
        prog = {"imports": rng.random() < 0.15, "inputs": [], "methods": [], "foreign": [], "body": [], "handler": None}
        if rng.random() < 0.3:
            prog["inputs"] = [[n, self.val()] for n in rng.choice([["甲"], ["甲", "乙"]])]
        base = dict((x[0], "input") for x in prog["inputs"])
        if prog["imports"]:
            base["解析JSON"] = "import"
        nm = rng.choice([0, 1, 1, 2, 3])
        names = METHODS[:nm]
        for n in names:
            base[n] = "method"
        for n in names:
            m = self.method(n, base, p_err)
            prog["methods"].append(m)
            self.methods.append(m)
        self.budget = rng.randrange(4, 22)
        body = self.stmts([base], rng.randrange(2, 9), 0, False, p_err, False)
        body.append(["ret", self.pick_show([base, {}], 0.3) if rng.random() < 0.5 else self.val()])
        prog["body"] = body
        return prog


def wrap(rng, g, stmts, probe_after=None):
    """put stmts inside 0..2 random enclosing blocks"""
    for _ in range(rng.randrange(0, 3)):
        k = rng.random()
        if k < 0.5:
            stmts = [["if", True, stmts, None]]
        elif k < 0.75:
            stmts = [["while", g.counter(), 1, stmts]]
        else:
            stmts = [["iter", ["K"], [g.val()], stmts]]
    return stmts


def template(rng):
    """targeted families (names, values and nesting randomised)"""
    g = Gen(rng)
    a, b = rng.sample(VARS, 2)
    v1, v2, v3 = g.val(), g.val(), g.val()
    prog = {"imports": False, "inputs": [], "methods": [], "foreign": [], "body": [], "handler": None}
    fam = rng.choice(["redeclare", "redeclare-const", "redeclare-nested", "param-assign", "input-assign", "yield-call-assign",
                      "yield-member-assign", "const-assign", "method-assign", "import-assign", "predef-assign", "predef-redeclare",
                      "use-after-if", "use-after-loop", "use-after-iter", "loopvar-after", "use-before", "shadow-restore",
                      "method-local-after-return", "method-local-after-handled", "cross-module-handled", "cross-module-plain",
                      "recursion", "rejected-then-handler", "inner-const-outer-var", "assign-outer-from-inner",
                      "handler-block-scope", "param-not-visible-after"])
    body = []
    if fam == "redeclare":
        body = wrap(rng, g, [["decl", a, v1, False], ["decl", a, v2, rng.random() < 0.5], ["show", a]]) + [["ret", v3]]
    elif fam == "redeclare-const":
        body = wrap(rng, g, [["decl", a, v1, True], ["decl", a, v2, False], ["show", a]]) + [["ret", v3]]
    elif fam == "redeclare-nested":
        body = [["decl", a, v1, False], ["if", True, [["decl", a, v2, False], ["show", a], ["decl", a, v3, False]], None], ["ret", a]]
    elif fam == "param-assign":
        prog["methods"] = [{"name": "F", "params": ["P"], "body": wrap(rng, g, [["assign", "P", v2]]) + [["ret", "P"]], "handler": None}]
        body = [["call", "F", [v1], "R"], ["ret", "R"]]
    elif fam == "input-assign":
        prog["inputs"] = [["甲", v1]]
        body = wrap(rng, g, [["assign", "甲", v2]]) + [["ret", "甲"]]
    elif fam == "yield-call-assign":
        prog["methods"] = [{"name": "F", "params": [], "body": [["ret", v1]], "handler": None}]
        body = wrap(rng, g, [["call", "F", [], "R"], ["assign", "R", v2], ["show", "R"]]) + [["ret", v3]]
    elif fam == "yield-member-assign":
        body = wrap(rng, g, [["mcall", "R"], ["assign", "R", v2], ["show", "R"]]) + [["ret", v3]]
    elif fam == "const-assign":
        body = [["decl", a, v1, True]] + wrap(rng, g, [["assign", a, v2]]) + [["ret", a]]
    elif fam == "method-assign":
        prog["methods"] = [{"name": "F", "params": [], "body": [["ret", v1]], "handler": None}]
        body = wrap(rng, g, [["assign", "F", v2]]) + [["ret", v3]]
    elif fam == "import-assign":
        prog["imports"] = True
        body = wrap(rng, g, [["assign", "解析JSON", v2]]) + [["ret", v3]]
    elif fam == "predef-assign":
        body = wrap(rng, g, [["assign", rng.choice(PRE), v2]]) + [["ret", v3]]
    elif fam == "predef-redeclare":
        body = wrap(rng, g, [["decl", rng.choice(PRE), v2, rng.random() < 0.5]]) + [["ret", v3]]
    elif fam == "use-after-if":
        body = [["if", True, [["decl", a, v1, False], ["show", a]], None], rng.choice([["show", a], ["assign", a, v2], ["ret", a]]), ["ret", v3]]
    elif fam == "use-after-loop":
        body = [["while", g.counter(), 2, [["decl", a, v1, False], ["show", a]]], ["show", a], ["ret", v3]]
    elif fam == "use-after-iter":
        body = [["iter", ["K"], [v1, v2], [["decl", a, "K", False], ["show", a]]], ["show", a], ["ret", v3]]
    elif fam == "loopvar-after":
        body = [["iter", ["K", "V"], [v1, v2], [["show", "V"]]], ["show", rng.choice(["K", "V"])], ["ret", v3]]
    elif fam == "use-before":
        body = wrap(rng, g, [rng.choice([["show", a], ["assign", a, v1]]), ["decl", a, v2, False]]) + [["ret", v3]]
    elif fam == "shadow-restore":
        body = [["decl", a, v1, False], ["if", True, [["decl", a, v2, rng.random() < 0.5], ["show", a],
                                                         ["if", True, [["decl", a, v3, False], ["show", a]], None], ["show", a]], None],
                ["show", a], ["assign", a, g.val()], ["ret", a]]
    elif fam == "method-local-after-return":
        prog["methods"] = [{"name": "F", "params": ["P"], "body": [["decl", a, "P", False], ["show", a], ["ret", a]], "handler": None}]
        body = [["call", "F", [v1], "R"], ["show", "R"], rng.choice([["show", a], ["show", "P"], ["assign", a, v2]]), ["ret", v3]]
    elif fam == "method-local-after-handled":
        prog["methods"] = [{"name": "G", "params": [], "body": [["decl", b, v2, False], ["throw"]], "handler": None},
                           {"name": "F", "params": [], "body": [["decl", a, v1, False], ["if", True, [["call", "G", [], None]], None], ["ret", v1]],
                            "handler": [["show", v3], ["ret", v3]]}]
        body = [["call", "F", [], "R"], ["show", "R"], ["show", rng.choice([a, b])], ["ret", v3]]
    elif fam in ("cross-module-handled", "cross-module-plain"):
        prog["foreign"] = [{"name": "坏", "params": [], "body": [["decl", "内", v2, False], ["throw"]], "handler": None},
                           {"name": "好", "params": ["P"], "body": [["decl", "内", "P", False], ["ret", "内"]], "handler": None}]
        if fam == "cross-module-handled":
            prog["methods"] = [{"name": "F", "params": [], "body": [["decl", a, v1, False],
                                                                      ["if", True, [["decl", b, v2, False], ["call", "坏", [], None]], None], ["ret", v1]],
                                "handler": [["show", v3], ["ret", v3]]}]
            body = [["call", "F", [], "R"], ["show", "R"], rng.choice([["show", b], ["show", a], ["decl", a, v1, False], ["call", "好", [v2], "S"]]),
                    ["show", "R"], ["ret", v3]]
        else:
            body = [["decl", a, v1, False], ["call", "好", [v2], "R"], ["show", "R"], ["show", a], rng.choice([["show", "内"], ["assign", "R", v3], ["show", "P"]]), ["ret", v3]]
    elif fam == "recursion":
        prog["methods"] = [{"name": "F", "params": ["P"], "body": [["decl", a, "P", False], ["if", ["gt0", "P"], [["call", "F", [["dec", "P"]], None]], None],
                                                                    ["show", a], ["ret", a]], "handler": None}]
        body = [["call", "F", [rng.randrange(1, 4)], "R"], ["show", "R"], rng.choice([["show", a], ["ret", "R"]]), ["ret", v3]]
    elif fam == "rejected-then-handler":
        which = rng.choice(["param", "const", "input"])
        if which == "param":
            prog["methods"] = [{"name": "F", "params": ["P"], "body": [["assign", "P", v2], ["ret", v3]], "handler": [["show", "P"], ["ret", "P"]]}]
            body = [["call", "F", [v1], "R"], ["ret", "R"]]
        elif which == "input":
            prog["inputs"] = [["甲", v1]]
            body = [["assign", "甲", v2], ["ret", v3]]
            prog["handler"] = [["show", "甲"], ["ret", "甲"]]
        else:
            prog["methods"] = [{"name": "F", "params": ["P"], "body": [["decl", a, v1, True], ["assign", a, v2], ["ret", v3]],
                                "handler": [["show", "P"], ["ret", "P"]]}]
            body = [["call", "F", [v1], "R"], ["ret", "R"]]
    elif fam == "inner-const-outer-var":
        body = [["decl", a, v1, False], ["if", True, [["decl", a, v2, True], ["show", a]], None], ["assign", a, v3], ["ret", a]]
    elif fam == "assign-outer-from-inner":
        body = [["decl", a, v1, False]] + wrap(rng, g, [["assign", a, v2], ["show", a]]) + [["ret", a]]
    elif fam == "handler-block-scope":
        prog["methods"] = [{"name": "F", "params": ["P"], "body": [["throw"]], "handler": [["decl", a, "P", False], ["show", a], ["ret", a]]}]
        body = [["call", "F", [v1], "R"], ["show", "R"], ["show", a], ["ret", v3]]
    elif fam == "param-not-visible-after":
        prog["methods"] = [{"name": "F", "params": ["P", "Q"], "body": [["show", "P"], ["ret", "Q"]], "handler": None}]
        body = wrap(rng, g, [["call", "F", [v1, v2], "R"], ["show", "R"]]) + [["show", rng.choice(["P", "Q"])], ["ret", v3]]
    prog["body"] = body
    return prog, fam


# ---- shrinking of programs

def stmt_paths(stmts, prefix):
    """paths of removable statements"""
    res = []
    for i, s in enumerate(stmts):
        res.append(prefix + [i])
        if s[0] == "if":
            res += stmt_paths(s[2], prefix + [i, 2])
            if s[3] is not None:
                res += stmt_paths(s[3], prefix + [i, 3])
        elif s[0] in ("while", "iter"):
            res += stmt_paths(s[3], prefix + [i, 3])
    return res


def remove_at(stmts, path):
    stmts = json.loads(json.dumps(stmts))
    cur = stmts
    for p in path[:-1]:
        cur = cur[p]
    del cur[path[-1]]
    return stmts


def has_empty_block(stmts):
    if not stmts:
        return True
    for s in stmts:
        if s[0] == "if" and (has_empty_block(s[2]) or (s[3] is not None and has_empty_block(s[3]))):
            return True
        if s[0] in ("while", "iter") and has_empty_block(s[3]):
            return True
    return False


def prog_valid(prog):
    """no empty block; the program ends with 输出 and every method with 输出 or 抛出 (what a program that just runs off
    its end returns is C02's subject)"""
    if has_empty_block(prog["body"]) or prog["body"][-1][0] != "ret":
        return False
    for m in prog["methods"]:
        if has_empty_block(m["body"]) or m["body"][-1][0] not in ("ret", "throw"):
            return False
    return True


def prog_variants(prog):
    return [q for q in prog_variants0(prog) if prog_valid(q)]


def prog_variants0(prog):
    vs = []
    secs = [("body", None)] + [("methods", i) for i in range(len(prog["methods"]))]
    for path in stmt_paths(prog["body"], []):
        q = json.loads(json.dumps(prog))
        q["body"] = remove_at(prog["body"], path)
        vs.append(q)
    for i, m in enumerate(prog["methods"]):
        for path in stmt_paths(m["body"], []):
            q = json.loads(json.dumps(prog))
            q["methods"][i]["body"] = remove_at(m["body"], path)
            vs.append(q)
    for i in range(len(prog["methods"])):
        q = json.loads(json.dumps(prog))
        del q["methods"][i]
        vs.append(q)
    # unwrap a block: replace an if/loop by its body is not attempted (it changes the block structure under test)
    return vs


def run_progs(progs):
    cases = [render(p) for p in progs]
    outs = core.harness("c06", "prog", cases, timeout_ms=5000)
    return cases, outs


def shrink_prog(prog, sig):
    cur = prog
    for _ in range(15):
        vs = prog_variants(cur)
        keep = []
        for q in vs:
            acc, why = judge(q)
            if acc is not None:
                keep.append((q, acc, why))
        if not keep:
            break
        _, outs = run_progs([k[0] for k in keep])
        found = None
        for (q, acc, why), o in zip(keep, outs):
            obs = observe(o)
            if not outcome_ok(obs, acc) and prog_signature(obs, acc, why) == sig:
                found = q
                break
        if found is None:
            break
        cur = found
    return cur


def scopes_unbalanced(o):
    if isinstance(o, dict) and o.get("kind") == "error":
        sc = o["err"].get("scopes")
        if sc is not None:
            return [s for s in sc if s[1] != 0]
    return []


def check_programs(chk, progs):
    """progs: list of (program, family label)"""
    judged = []
    for p, fam in progs:
        acc, why = judge(p)
        if acc is None:
            chk.dist("prog-unjudged:" + why)
            continue
        judged.append((p, fam, acc, why))
    if not judged:
        return
    cases, outs = run_progs([j[0] for j in judged])
    nshr = 0
    seen = set()
    for (p, fam, acc, why), c, o in zip(judged, cases, outs):
        obs = observe(o)
        exp = pick_expected(acc)
        chk.count(["prog", c["src"], c.get("files"), c.get("inputs")], nontrivial=True)
        chk.dist("prog:" + fam)
        chk.dist("prog-expect:" + (("error-" + ("/".join(str(x) for x in sorted(exp[2])) if isinstance(exp[2], frozenset) else str(exp[2])))
                                   if exp[1] == "error" else "value"))
        if len(chk.coverage["samples"]) < 8 and chk.rng.random() < 0.02:
            chk.sample({"program": c["src"], "expected": show_outcome(exp)})
        if obs[1] == "error" and isinstance(obs[2], str) and obs[2].startswith("other:syntax"):
            chk.dist("prog-invalid-syntax")
            chk.notes.append("probe did not parse: " + c["src"][:200])
            continue
        if not outcome_ok(obs, acc):
            sig = prog_signature(obs, acc, why)
            if sig not in seen and nshr < 4:
                seen.add(sig)
                nshr += 1
                q = shrink_prog(p, sig)
                acc2, why2 = judge(q)
                c2, o2 = run_progs([q])
                if acc2 is not None and not outcome_ok(observe(o2[0]), acc2):
                    p, acc, why, c, o, obs = q, acc2, why2, c2[0], o2[0], observe(o2[0])
                    exp = pick_expected(acc)
            chk.violation("probe program (%s)\n%s-> observed %s; block scoping requires %s%s"
                          % (fam, c["src"], show_outcome(obs) if obs[0] != "abnormal" else obs[1], show_outcome(exp),
                             (" (" + why + ")") if why else ""),
                          sig, {"kind": "prog", "case": {"kind": "prog", "prog": p, "family": fam}, "source": c["src"], "files": c.get("files"),
                                "inputs": c.get("inputs"), "expected": [show_outcome(a) for a in acc], "observed": show_outcome(obs) if obs[0] != "abnormal" else obs[1],
                                "replay_cmd": "./check C06 --replay <this file>"})
            continue
        ub = scopes_unbalanced(o)
        if ub:
            sig = "scope:unbalanced-after-error"
            chk.violation("after the failed run of\n%sthe symbol stacks are left unbalanced: [module, depth, live symbols] = %s (every block that was begun has ended, so every depth must be 0)"
                          % (c["src"], ub), sig,
                          {"kind": "prog", "case": {"kind": "prog", "prog": p, "family": fam, "check": "scopes"}, "source": c["src"], "files": c.get("files"),
                           "scopes": o["err"].get("scopes"), "replay_cmd": "./check C06 --replay <this file>"})


def error_balance_programs(rng, n):
    """programs that fail inside nested blocks / calls on other modules' frames: depth must return to 0 everywhere"""
    out = []
    for _ in range(n):
        g = Gen(rng)
        a = rng.choice(VARS)
        kind = rng.choice(["native-method", "foreign", "deep"])
        prog = {"imports": False, "inputs": [], "methods": [], "foreign": [], "body": [], "handler": None}
        if kind == "native-method":
            # an assignment to a constant yield of a native method call, inside blocks
            prog["body"] = wrap(rng, g, [["decl", a, g.val(), False], ["mcall", "R"], ["show", "Y"]]) + [["ret", 1]]
        elif kind == "foreign":
            prog["foreign"] = [{"name": "坏", "params": [], "body": [["if", True, [["show", "Y"]], None], ["ret", 1]], "handler": None}]
            prog["body"] = wrap(rng, g, [["decl", a, g.val(), False], ["call", "坏", [], None]]) + [["ret", 1]]
        else:
            prog["methods"] = [{"name": "F", "params": ["P"], "body": [["if", ["gt0", "P"], [["call", "F", [["dec", "P"]], None]], [["show", "Y"]]], ["ret", 1]], "handler": None}]
            prog["body"] = wrap(rng, g, [["call", "F", [rng.randrange(0, 3)], None]]) + [["ret", 1]]
        out.append((prog, "error-balance:" + kind))
    return out


# ======================================================================================

def load_corpus():
    p = os.path.join(core.VERIF, "corpus", "C06", "cases.json")
    if os.path.exists(p):
        return json.load(open(p, encoding="utf8"))
    return []


SEM_PROFILES = [
    (3, proggen.Profile(scope_faults=5.0, funcs=1.5, classes=0.6, control=1.2, exceptions=0.4, collections=0.4, markers=0.4, type_errors=0.0)),
    (1, proggen.Profile(scope_faults=2.5, funcs=2.0, classes=1.5, exceptions=1.2, markers=0.5)),
]
SEM_WHAT = "names do not obey block scoping / constness as the evaluator model (Sem) prescribes"


def run_sem(chk, replay=None):
    """Part 3: the evaluator model Sem (about which the program-level theorems of props/C06.v speak) against the interpreter on
    generated programs that probe scoping: reads / assignments / redeclarations of names whose block has ended, shadowing of
    variables and constants inside 如果 / 每当 / 遍历 blocks, assignment to 恒为 names, parameters, 得到 results and definitions."""
    extra = []
    if replay is None:
        # a name declared in an inner block or a method body under the name of a method of the module is what a call finds there
        from vlib.semgen import Func, Return, Num, Branch, Logic, Decl, Display, Var, Call, Str, While, ExprS, AssignVar, Arith
        fa = Func("Fa", [], [Return(Num(1))], [])
        fb = Func("Fb", [], [Return(Num(2))], [])
        extra += [
            (([], [fa, fb, Branch(Logic("eq", Num(1), Num(1)), [Decl([(False, ["Fa"], Num(5))]), Display(Var("Fa")), Display(Call("Fa", []))]),
                   Display(Str("unreachable"))], []), None, "method-name-shadow"),
            (([], [fa, fb, Branch(Logic("eq", Num(1), Num(1)), [Decl([(False, ["Fa"], Num(5))]), Display(Var("Fa"))]), Display(Call("Fa", [])),
                   Return(Call("Fb", []))], []), None, "method-name-shadow"),
            (([], [fa, Func("G", [], [Func("Fa", [], [Return(Num(9))], []), Return(Call("Fa", []))], []), Display(Call("G", [])), Display(Call("Fa", [])),
                   Return(Num(0))], []), None, "method-name-shadow"),
            (([], [fa, fb, Func("H", ["Fa"], [Return(Call("Fa", []))], []), Display(Call("H", [Var("Fb")])), Display(Call("Fa", [])), Return(Num(0))], []),
             None, "method-name-shadow"),
            (([], [fa, fb, Decl([(False, ["I"], Num(0))]),
                   While(Logic("lt", Var("I"), Num(2)), [ExprS(AssignVar("I", Arith("+", Var("I"), Num(1)))), Decl([(False, ["Fb"], Var("I"))]), Display(Var("Fb"))]),
                   Display(Call("Fb", [])), Return(Num(0))], []), None, "method-name-shadow"),
        ]
        # the names a handler sees are those of the body it belongs to — its inputs, 此, the methods of its module — wherever
        # the exception came from (a built-in method, a callee at any depth, a constructor)
        from props import c09
        extra += [(c09.handler_program(chk.rng), None, "handler-sees-its-body") for _ in range(25 if chk.tier == "quick" else 300)]
    semprop.run_property(chk, "C06", "c06s", SEM_PROFILES, 90, 1200, replay=replay, extra_programs=extra, what=SEM_WHAT)


def run(chk, replay=None):
    rng = chk.rng
    quick = chk.tier == "quick"
    if replay is not None and replay.get("kind") == "program":
        run_sem(chk, replay)
        return

    vm_h, sc_h, progs = [], [], []
    for c in load_corpus():
        if c["kind"] == "ops":
            (vm_h if c["level"] == "vm" else sc_h).append(("corpus", c["ops"]))
        else:
            progs.append((c["prog"], "corpus:" + c.get("family", "")))
    if replay is not None:
        c = replay["case"]
        vm_h, sc_h, progs = [], [], []
        if c["kind"] == "ops":
            (vm_h if c["level"] == "vm" else sc_h).append(("replay", c["ops"]))
        else:
            progs.append((c["prog"], "replay:" + c.get("family", "")))
    else:
        n_vm, n_sc, n_unb = (800, 300, 100) if quick else (15000, 5000, 1000)
        lens = [4, 8, 12, 20, 30] if quick else [4, 8, 12, 20, 40, 80]
        for _ in range(n_vm):
            vm_h.append(("random", gen_history(rng, rng.choice(lens), "vm")))
        for _ in range(n_sc):
            sc_h.append(("random", gen_history(rng, rng.choice(lens), "scope")))
        for _ in range(n_unb):
            vm_h.append(("unbalanced", gen_history(rng, rng.choice([4, 8, 12]), "vm", balanced=False)))
        for h in exhaustive_short(4 if quick else 5):
            vm_h.append(("exhaustive", h))
        for h in exhaustive_short(3 if quick else 4):
            sc_h.append(("exhaustive", h))
        n_t, n_r, n_b = (450, 700, 60) if quick else (4000, 8000, 400)
        for _ in range(n_t):
            progs.append(template(rng))
        for _ in range(n_r):
            progs.append((Gen(rng).program(), "random"))
        progs += error_balance_programs(rng, n_b)

    for level, hs in (("vm", vm_h), ("scope", sc_h)):
        check_histories(chk, level, [h for _, h in hs], [lab for lab, _ in hs])
    check_programs(chk, progs)
    if replay is None:
        run_sem(chk)

    bysig = {}
    for v in chk.violations:
        bysig.setdefault(v["signature"], []).append(v)
    for sig, vs in bysig.items():
        chk.dist("violations:" + sig, len(vs))
    # at most two reports per signature, one per distinct signature first; scope:unbalanced-after-error shares its
    # root cause with the cross-module case of prog:42 and therefore comes last
    last = ["scope:unbalanced-after-error"]
    sigs = sorted(bysig, key=lambda g: (g in last, g))
    order = []
    for rank in range(2):
        for sig in sigs:
            if len(bysig[sig]) > rank:
                order.append(bysig[sig][rank])
    chk.violations[:] = order

    chk.coverage["rule"] = (
        "histories: seeded random (length 4..30, thorough ..80, over 2..5 names + predefined names, distinct values, imports from 3 modules, "
        "balanced by construction; a small unbalanced stream compared with the model only) and EVERY well-formed history of length "
        "<= 4 (vm; <= 5 thorough) over a 9-letter alphabet followed by 3 probes, on runtime.Scope and on the VM wrappers; "
        "programs: 28 targeted families with random names/values/enclosing blocks + random block-structured programs "
        "(nesting <= 4, 0..3 methods, loops, shadowing, injected redeclarations / constant assignments / uses out of scope) + "
        "failing runs for the depth-balance check; distinct = distinct op list / program text; non-trivial = contains a declaration")
    chk.assumptions.append("program-level expectations are computed by the Python reference in tools/props/c06.py (block scoping as "
                           "stated by the property; programs on which the readings listed in READINGS differ are not judged)")
