# Stage 2 tie: the Gallina model of the front end (coq/model/Lexer.v, Parser.v) evaluated inside Coq on the same
# inputs as the real parser; outcome encodings are compared in Python.
import os

from vlib import core


def model_available():
    return os.path.exists(os.path.join(core.COQ, "model", "Parser.v"))


def compare(chk, texts, outs, pid):
    if not model_available():
        chk.dist("model:not-built", len(texts))
        return []
    from props import frontmodel_impl
    return frontmodel_impl.compare(chk, texts, outs, pid)


TRANSLATOR = os.path.join(core.BUILD, "go2coq_c04")


def prebuild(chk):
    """T1: regenerate coq/gen/GenFrontTokens.v (token types, rune sets, keyword decision tree) from the working tree,
    with the translator of tools/go2coq_c04."""
    with core.Lock("go2coq_c04"):
        rc, out = core.sh(["go", "build", "-o", TRANSLATOR, "."], cwd=os.path.join(core.VERIF, "tools", "go2coq_c04"),
                          env=core.GOENV, timeout=300)
    if rc != 0:
        chk.notes.append("token table translator does not build: " + out[-300:])
        return
    R = core.REPO
    rc, out = core.sh([TRANSLATOR, "tokens", R + "/pkg/syntax/zh/tokens.go", R + "/pkg/syntax/zh/keyword.go",
                       R + "/pkg/syntax/lexer.go", R + "/pkg/syntax/id_range.go"], timeout=60)
    if rc != 0 or "Definition" not in out:
        chk.notes.append("token table translation failed: " + out[-300:])
        return
    out = out.replace("GenC04Tokens", "GenFrontTokens")
    path = os.path.join(core.COQ, "gen", "GenFrontTokens.v")
    with core.Lock("coq"):
        old = open(path, encoding="utf8").read() if os.path.exists(path) else None
        if old != out:
            with open(path, "w", encoding="utf8") as f:
                f.write(out)
    # the models evaluated by the correspondence check must be rebuilt against the regenerated table even when the
    # proofs do not build
    ok, log = core.coq_make(["model/Parser.vo", "model/ErrDisplay.vo"])
    if not ok:
        chk.notes.append("front-end model does not build: " + log[-400:])
