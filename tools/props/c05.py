# C05 — Compilation and error display terminate cleanly on every input.
# Tie: arbitrary-Unicode fuzz, every-offset truncations and token/line mutations of valid programs through the real
# front end under a watchdog (hang / panic / error shape / rendered error), exec.ExecVarInputText, and the Gallina
# model of the front end + error printer (coq/model/Parser.v, ErrDisplay.v) evaluated in Coq on the same inputs.
import random

from vlib import core
from props import frontgen as fg
from props import frontcheck as fc
from props import frontmodel as fm

HARNESS = "front"
prebuild = fm.prebuild

TB = ("Coq 8.16.1 kernel and vm_compute; hand-written Gallina model of lexer, parser and error printer tied to /repo by the "
      "per-run correspondence check (Go harness built -tags verif from the working tree, per-case watchdog); Python fuzz / "
      "mutation generators and comparison code in tools/props/front*.py; ")
CLAIM = dict(
    text=("Theorems in coq/props/C05.v (closed under the global context) about the executable model of the front end (lexer "
          "cursor arithmetic, token buffer, every Parse* production with every loop on fuel, error printer with Crash for "
          "out-of-range indexing; repaired code: fixes/C03-1..4, C05-1..3, C13-1): C05_total - compiling ANY code-point sequence "
          "with fuel 16*length+64 never runs out of fuel, via C05_progress (every production, from any parser state, either "
          "raises or does not increase the measure 'characters not yet lexed', and every consumer that parseItemListBlock "
          "iterates consumes at least one token) and C05_next_token_progress (the lexer); C05_single_error_in_range - every syntax error carries a cursor with 0 <= cursor <= length, for every "
          "source and fuel (position invariant through the line bookkeeping, the comment scanner, the C04 recognisers, the C13 string "
          "machine and all 40 productions; the bound is attained); C05_display_never_crashes and "
          "C05_quotes_existing_line - rendering an error never indexes out of range for any source / line table / cursor and "
          "quotes a break-free piece of the source that starts at a recorded line start and ends at a line break or the end "
          "of text. Tied to the code on every run: arbitrary Unicode inputs (controls, unbalanced quotes/brackets/backticks, "
          "mixed indentation, lone CR, U+0000), truncation at every offset and token/line mutations of generated programs "
          "go through syntax.Parser.Compile + exec.DisplayError under a watchdog; outcome (tree | code, cursor), rendered line, "
          "line number and mark column must equal the models'; exec.ExecVarInputText must return a map or an error."),
    note=TB + ("NOT proved, correspondence only: that line starts recorded by the lexer follow a line break (hypothesis-free "
               "form of 'quotes an existing line'); ExecVarInputText (its evaluator is the C10 model's subject). 'Promptly' is a "
               "linear fuel bound, wall-clock time is only observed by the watchdog. String scanning is the C13 model "
               "(ps_loop_shape reused), token recognisers the C04 model (vendored copy model/LexerTok.v)."),
    technique="Coq proof (progress measure / fuel bound by induction over productions, index arithmetic) + model/implementation correspondence by vm_compute + fuzzing under a watchdog",
    design="5/C05")

VARINPUT_SNIPPETS = ["A = 1", "甲 = “文本”", "A = 【1，2，3】", "A = 【K = 1】", "A = B", "A = 其B", "A = 1 + 2 * 3", "A 设为 -5", "A = （显示：1）",
                     "A = 以B（C）", "A = 1；B = 2", "A = 1\nB = A", "令A = 1", "A", "= 1", "A = ", "A = （新建 X）", "A#1 = 2", "A = 1 / 0",
                     # texts that compile to a tree without any statement
                     "注：说明", "// x", "/* x */", "注：「多\n行」", "导入《文件》", "导入《文件》\n导入《JSON》", "\u200b", " \u200b \n", "\n\n", "\t", "　",
                     "注：a\n// b\n", "/**/", "A = 1 // 尾", "注：头\nA = 1",
                     "A = “{}”", "A = {1 + 2}", "A = 真 且 假", "A = （不存在：1）", "如果", "A = 【1，2】#5", "A = “x”之长度", "A = 空之X"]


def run(chk, replay=None):
    rng = chk.rng
    quick = chk.tier == "quick"
    found = {}

    def report(sig, what, rep):
        size = len(rep.get("text", ""))
        if sig not in found or size < found[sig][0]:
            found[sig] = (size, what, rep)

    if replay is not None:
        text = replay["text"]
        if replay.get("kind") == "varinput":
            out = core.harness(HARNESS, "varinput", [{"src": fg.cps(text)}], timeout_ms=3000)[0]
            chk.count(["replay-varinput", text])
            for sig, what in judge_varinput(out):
                chk.violation(what + ": " + repr(text)[:160], sig, replay)
            return
        out = fc.parse_many([text])[0]
        chk.count(["replay", text])
        for sig, what in fc.judge(text, out):
            chk.violation(what + ": " + repr(text)[:160], sig, replay)
        if replay.get("must_reject") and out.get("ok"):
            chk.violation("input that must be rejected is accepted: " + repr(text)[:160], replay.get("signature", "accepted"), replay)
        for sig, what, t in fm.compare(chk, [text], [out], "C05"):
            chk.violation(what, sig, dict(replay, model_mismatch=True), no_input=sig.endswith(":lines"))
        return

    inputs = []     # (kind, text)
    corpus = fc.load_corpus("C05")
    for c in corpus:
        if c.get("kind") != "varinput":
            inputs.append(("corpus", c["text"]))
    # a text with backtick escapes, then a fault further along the same line: the error quotes that line as it is written
    # (these are always among the inputs compared with the model, like the corpus)
    ESC = ["`TAB`", "`LF`", "`CR`", "`CRLF`", "`SP`", "`BK`", "`U+4E59`", "`U+41`", "`“`", "`”`", "`「`", "`U+1F005`", "`XY`", "`"]
    for _ in range(40 if quick else 400):
        o, c = rng.choice([("“", "”"), ("「", "」"), ("“", "”")])
        body = "".join(rng.choice(["甲", "a", "年龄", " ", "，"] + ESC + ESC) for _ in range(rng.randrange(1, 6)))
        if o == "「":
            body = body.replace("`“`", "`「`").replace("`”`", "`」`")
        fault = rng.choice([" ）", " 】", " 令丁设为4", " + +", "；；（", "、"])
        pre = rng.choice(["", "令首 = 1\n", "如果真：\n    令内 = 2\n", "注：头\r\n"])
        post = rng.choice(["", "\n令尾 = 3", "\r\n（显示：1）\r\n"])
        line = rng.choice(["令乙设为", "（显示：", "输出", "令乙 = 1 + "]) + o + body + c + fault
        inputs.append(("escape-then-fault", pre + line + post))
    n_corpus = len(inputs)

    # ---- arbitrary Unicode
    n_fuzz = 700 if quick else 12000
    for _ in range(n_fuzz):
        inputs.append(("fuzz", fc.fuzz_text(rng, 40)))
    # ---- valid programs: truncation at every offset, token / line mutations, splices
    n_prog = 10 if quick else 120
    bases = []
    while len(bases) < n_prog:
        g = fg.Gen(rng, max_expr_depth=rng.choice([1, 2, 3]), max_block_depth=rng.choice([1, 2, 2, 3]))
        pg = g.program()
        try:
            text, pieces = fg.render(random.Random(rng.randrange(1 << 30)), pg)
        except ValueError:
            continue
        if len(text) > (220 if quick else 400):
            continue
        bases.append((text, pieces))
    for text, pieces in bases:
        inputs.append(("valid", text))
        for i in range(len(text) + 1):
            inputs.append(("truncate", text[:i]))
        for how, t in fc.corruptions(rng, pieces, 25 if quick else 60):
            inputs.append((how, t))
        other = rng.choice(bases)[0]
        for _ in range(5):
            i = rng.randrange(len(text) + 1)
            j = rng.randrange(len(other) + 1)
            inputs.append(("splice", text[:i] + other[j:]))
    # ---- hand-picked shapes around the known weak spots (EOF inside tokens, indentation, first-token errors)
    for t in ["“`", "“`C", "「`U+", "`", "`a", "注：", "注1", "/*", "//", "/", "“", "《", "‘x", "\n", "\r\n\r", " ", "\t", "  A", "\tA\n    B",
              "A\n  B", "A\n \tB", "A\n\t B", "：", "）", "=", "、", "！", "？", "；", "，", "，，", "{", "}", "【", "】", "如果", "再如", "否则", "每当",
              "遍历", "以", "如何", "如何新建", "何为", "定义", "拦截", "抛出", "输出", "输入", "导入", "令", "令：", "其", "之", "为", "#", "&", "@",
              "A\x00B", "\x00", "A\n\x00", "“a\x00”", "注：\x00\nB", "如果A：\n    B\n拦截C：\n    D\nE", "A\n拦截B：\n    C\nD\n"]:
        inputs.append(("shape", t))

    # ---- multi-line tokens whose inner line breaks are two characters long (CR LF, LF CR), unfinished at the end of the text or
    # followed by an error on their last line: the line table and the quoted line depend on where the token's lines start
    for eol in ["\r\n", "\n\r", "\n", "\r"]:
        for opener, closer in [("/*", "*/"), ("注：「", "」"), ("注：“", "”"), ("「", "」"), ("“", "”"), ("『", "』")]:
            for pre in ["", "令A设为1" + eol, "如果A：" + eol + "    B" + eol]:
                body = rng.choice(["未完", "甲" + eol + "乙丙", "x"])
                inputs.append(("multiline-eof", pre + opener + body + eol))                      # never closed
                inputs.append(("multiline-eof", pre + opener + body + eol + "丁" + closer))        # closed on a later line
                inputs.append(("multiline-error", pre + "令B设为" + opener + "甲" + eol + "乙丙" + closer + " 令"))   # error after it
                inputs.append(("multiline-error", pre + opener + "甲" + eol + eol + "乙" + closer + " ）"))

    texts = [t for _, t in inputs]
    outs = fc.parse_many(texts, timeout_ms=1000)
    for (kind, text), out in zip(inputs, outs):
        chk.count([kind, text], nontrivial=len(text) > 0)
        chk.dist("input:" + kind)
        chk.dist("outcome:" + ("accept" if out.get("ok") else ("hang" if out.get("hang") else ("panic" if "panic" in out else
                                                                                              "error:%s" % out.get("code")))))
        if out.get("tree_with_error"):
            chk.dist("note:tree-returned-together-with-error")
        for sig, what in fc.judge(text, out):
            chk.dist("issue:" + sig)
            if sig in found and found[sig][0] <= len(text):
                continue
            small = text
            if sig not in found:
                small = fc.shrink_text(text, fc.same_issue_pred(sig, timeout_ms=300))
            report(sig, what, {"kind": kind, "text": small, "signature": sig, "replay_cmd": "./check C05 --replay <this file>"})
    if len(chk.coverage["samples"]) < 6:
        for (kind, text), out in list(zip(inputs, outs))[n_corpus::max(len(inputs) // 6, 1)]:
            chk.sample({"kind": kind, "text": text[:80], "outcome": "accept" if out.get("ok") else {"code": out.get("code"), "cursor": out.get("cursor")}})

    # ---- input-variable text
    vin = [("corpus", c["text"]) for c in corpus if c.get("kind") == "varinput"]
    vin += [("snippet", s) for s in VARINPUT_SNIPPETS]
    for _ in range(150 if quick else 2000):
        k = rng.random()
        if k < 0.08:
            # no statement at all: comments, imports, blanks (also the ones only the lexer treats as blank)
            parts = [rng.choice(["注：x", "// y", "/* z */", "注：「a」", "导入《文件》", "\u200b", "", " ", "\t", "　", "/** b **/"])
                     for _ in range(rng.randrange(1, 4))]
            vin.append(("statement-less", rng.choice(["\n", "\r\n", "\n\n"]).join(parts)))
        elif k < 0.4:
            vin.append(("fuzz", fc.fuzz_text(rng, 16)))
        elif k < 0.7:
            s = rng.choice(VARINPUT_SNIPPETS)
            i = rng.randrange(len(s) + 1)
            vin.append(("mutated", s[:i] + rng.choice(fc.FUZZ_ALPHABET) + s[i:]))
        else:
            g = fg.Gen(rng, max_expr_depth=rng.choice([1, 2, 3]), max_block_depth=0)
            e = ["Assign", g.ident(), g.expr()]
            try:
                vin.append(("assign-expr", fg.render(random.Random(rng.randrange(1 << 30)),
                                                      ["Program", [], ["ExecBlock", [], ["Block", [e]], [], []]])[0]))
            except ValueError:
                pass
    vouts = core.harness(HARNESS, "varinput", [{"src": fg.cps(t)} for _, t in vin], timeout_ms=3000)
    for (kind, text), out in zip(vin, vouts):
        chk.count(["varinput", text], nontrivial=len(text) > 0)
        chk.dist("varinput:" + kind)
        chk.dist("varinput-outcome:" + ("value" if out.get("ok") else ("hang" if out.get("hang") else ("panic" if "panic" in out or "crash" in out else "error"))))
        for sig, what in judge_varinput(out):
            if sig in found and found[sig][0] <= len(text):
                continue
            report(sig, what, {"kind": "varinput", "text": text, "signature": sig})

    for sig, (size, what, rep) in sorted(found.items(), key=lambda kv: kv[1][0]):
        chk.violation(what + ": " + repr(rep.get("text", ""))[:200], sig, rep)

    # ---- Stage 2: the model on the same inputs
    pairs = list(zip(texts, outs))
    lim = 700 if quick else 8000
    sel = pairs[:n_corpus] + rng.sample(pairs[n_corpus:], min(lim, len(pairs) - n_corpus))
    seen = set()
    for sig, what, text in fm.compare(chk, [t for t, _ in sel], [o for _, o in sel], "C05"):
        if sig in seen:
            continue
        seen.add(sig)
        chk.violation(what, sig, {"kind": "model-vs-implementation", "text": text, "signature": sig,
                                  "replay_cmd": "./check %s --replay <this file>" % chk.pid}, no_input=sig.endswith(":lines"))

    from props import frontmodel_impl as fmi
    if fm.model_available():
        dsel = [(t, o) for t, o in pairs if len(t) <= 200]
        dsel = dsel[:n_corpus] + rng.sample(dsel[n_corpus:], min(500 if quick else 5000, max(len(dsel) - n_corpus, 0)))
        for sig, what, text in fmi.compare_display(chk, [t for t, _ in dsel], [o for _, o in dsel])[:3]:
            chk.violation(what, sig, {"kind": "model-vs-implementation", "text": text, "signature": sig})

    chk.coverage["rule"] = ("seeded: arbitrary Unicode strings (keyword glyphs, punctuation, quotes, backticks, CR/LF/CRLF, TAB, controls, "
                            "U+0000, astral, random scalars; length 0..40), generated valid programs with truncation at EVERY offset, "
                            "token delete/duplicate/swap, line delete/duplicate/swap/indent/dedent, character insertion, splices, "
                            "hand-picked shapes; input-variable texts (snippets, mutations, fuzz, generated assignments); "
                            "distinct = distinct (kind, text); non-trivial = non-empty text")


def judge_varinput(out):
    if out.get("not_run"):
        return []
    if out.get("hang"):
        return [("varinput:hang", "ExecVarInputText does not terminate")]
    if "panic" in out:
        p = str(out["panic"])
        cls = "nil-dereference" if "nil pointer" in p else ("index-out-of-range" if "out of range" in p else "other")
        return [("varinput:panic:" + cls, "ExecVarInputText panics: " + p[:100])]
    if "crash" in out:
        return [("varinput:crash", "ExecVarInputText kills the process: " + str(out["crash"])[:100])]
    if out.get("ok") and out.get("nilmap"):
        return [("varinput:nil-map", "ExecVarInputText returns (nil, nil)")]
    return []
