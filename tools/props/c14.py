# C14 — Text operations count characters; % formatting follows the directives.
# Tie (T3): hand-written models coq/model/TextOps.v, Format.v, FormatNum.v evaluated inside Coq versus
# pkg/value/string.go (direct API and through the interpreter) and pkg/exec/format_str.go + the % dispatch of
# eval.go (through the interpreter: `输入甲、乙` / `输出甲 % 乙`), on generated texts, index pairs, templates,
# argument lists, doubles and precisions.  Go's fmt renderings restated in FormatNum.v are validated against
# fmt.Sprintf itself on every run; %v (shortest round trip) is an opaque parameter of the model taken from the
# implementation and cross-checked against Python's repr digits.
import json
import math
import os
import struct
from decimal import Decimal
from vlib import core

HARNESS = "c14"

TB = ("Coq 8.16.1 kernel and vm_compute; hand-written Gallina models tied to /repo by the per-run correspondence check "
      "(Go harness built -tags verif from the working tree, exported API only, model evaluated inside Coq on the same inputs); "
      "generators and comparison code in tools/; ")
CLAIM = dict(
    text=("Theorems (coq/props/C14.v, closed under the global context) about executable models of pkg/value/string.go and "
          "pkg/exec/format_str.go. Text operations on the UTF-8 byte view of Go strings: for every text of Unicode scalar values "
          "and every index pair, 取样 (rune-based, repaired) returns exactly characters i..j of 字符组, never a partial character, "
          "never panics; 长度 = number of elements of 字符组 = number of characters; 分隔 on bytes equals splitting the character "
          "list, its pieces joined by the separator give back the text and no piece but the last contains the separator "
          "before the cut. Formatter: the index-triple scanner accepts exactly tpl ::= (lit | '{' directive '}')* with a unique "
          "parse (all templates); formatting replaces the k-th placeholder by the k-th argument rendered per directive and copies "
          "literals verbatim, never panics; errors are exactly malformed template, count mismatch, {} on a non-displayable value, "
          "numeric directive on a non-number, malformed directive (first failing placeholder, left to right); the directive "
          "machine accepts exactly '+'? ('.' digit*)? ('E'|'%')? with precision <= 1000 and sets the flags accordingly; the "
          "integer printed by %.Nf is the nearest to |x|*10^N with ties to even and printed digit strings denote their number. "
          "Tied to the code on every run by differential execution (texts ASCII/CJK/astral/combining x index pairs incl. negative, "
          "out of range, fractional, non-finite; templates well- and ill-formed x argument lists x boundary doubles x precisions; 字符组 is also read again after the lists "
          "that earlier reads of the same text handed back were changed in place)."),
    note=TB + ("Go library behaviour is restated, not verified: unicode/utf8.DecodeRune (from C17), strings.Split/Index/HasPrefix, "
               "fmt %.Nf/%.NE/%.6g (exact decimal rounding of the binary value with Z arithmetic, FormatNum.v), float64*100, "
               "int(float64) on amd64; each is compared with the Go function itself on every run. %v (Number.String, shortest "
               "round trip) is NOT modelled: it is the parameter rv of the formatter model, its value is taken from the "
               "implementation and cross-checked against Python's repr digits laid out by Go's %g rule. Error observables are "
               "class and code, never message text (the two fmt.Errorf texts of elementToString are one class). The directive "
               "grammar follows the code in accepting '.' with no digit as precision 0 (the manual shows only '.N'). "
               "No axioms."),
    technique="Coq proof (induction over byte strings, templates and directives; index-triple invariant) + model/implementation correspondence by vm_compute",
    design="5/C14")

IMPORTS = ("From Coq Require Import List ZArith Bool. Import ListNotations.\n"
           "From Zn.model Require Import Decode FormatNum TextOps Format.")

# ----------------------------------------------------------------------------- helpers

def bits_of(x):
    return struct.pack(">d", x).hex()


def float_of(bits):
    return struct.unpack(">d", bytes.fromhex(bits))[0]


def enc(cps):
    return "".join(chr(c) for c in cps).encode("utf-8", "surrogatepass")


def sbytes(s):
    """Go string of a case: {"cps":[..]} or {"hex":".."} -> bytes"""
    if "hex" in s:
        return bytes.fromhex(s["hex"])
    out = b""
    for c in s["cps"]:
        if 0xD800 <= c < 0xE000 or c > 0x10FFFF or c < 0:
            out += "�".encode()
        else:
            out += chr(c).encode("utf-8")
    return out


def N(x):
    return {"t": "num", "bits": bits_of(x)}


def NB(bits):
    return {"t": "num", "bits": bits}


def S(cps):
    return {"t": "str", "v": {"cps": list(cps)}}


ASCII = list(range(0x20, 0x7F))
CJK = [0x4F60, 0x597D, 0x4E16, 0x754C, 0x5343, 0x91CC, 0xFF0C, 0x3002, 0xFF08, 0xFF09, 0x771F, 0x5047, 0x7A7A]
ASTRAL = [0x1F600, 0x1F005, 0x20000, 0x10FFFF, 0x10000, 0x1F469]
COMBINING = [0x0301, 0x0308, 0x20DD, 0x200D, 0xFE0F, 0x0E31]
BOUNDARY = [0x00, 0x7F, 0x80, 0x7FF, 0x800, 0xFFFD, 0xFFFF, 0xE9, 0xDF, 0x0A, 0x09]


def rand_cp(rng, no_brace=False):
    while True:
        k = rng.random()
        if k < 0.35:
            c = rng.choice(ASCII)
        elif k < 0.6:
            c = rng.choice(CJK) if rng.random() < 0.7 else rng.randrange(0x4E00, 0x9FFF)
        elif k < 0.75:
            c = rng.choice(ASTRAL) if rng.random() < 0.7 else rng.randrange(0x10000, 0x110000)
        elif k < 0.88:
            c = rng.choice(COMBINING)
        else:
            c = rng.choice(BOUNDARY)
        if no_brace and c in (123, 125):
            continue
        return c


LATIN1 = [0xE9, 0xEF, 0xFC, 0xF1, 0xE7, 0xB0, 0xB1, 0xD7, 0x80, 0xFF, 0xA0, 0x61, 0x66, 0x20]


def rand_text(rng, n, no_brace=False):
    style = rng.random()
    if style < 0.12:
        # texts of the Latin-1 supplement and ASCII only (two-byte characters, none above U+00FF)
        return [rng.choice(LATIN1) for _ in range(n)]
    if style < 0.2:
        return [rng.choice(ASCII) for _ in range(n)]
    if style < 0.3:
        return [rng.choice(CJK) for _ in range(n)]
    if style < 0.4:
        out = []
        for _ in range(n):
            out.append(rng.choice([0x61, 0x65, 0x4F60]) if len(out) % 2 == 0 else rng.choice(COMBINING))
        return out[:n]
    return [rand_cp(rng, no_brace) for _ in range(n)]


BOUNDARY_DOUBLES = [0.0, -0.0, 1.0, -1.0, 0.5, 1.5, 2.5, -2.5, 0.125, 0.375, 1e21, 1e22, 1e23, 123456789.0, 1e-5, 1e-4, 0.00012345,
                    999999.5, 9999995.0, 99999.95, 0.1, 0.3, 1.0 / 3, 2.0 / 3, 1.7976931348623157e308, 5e-324, 2.2250738585072014e-308,
                    2.225073858507201e-308, 9007199254740992.0, 9223372036854775808.0, -9223372036854775808.0, 9.3e18,
                    float("nan"), float("inf"), float("-inf"), 0.005, 0.145, 1.005, 0.285, 0.57, 0.07, 0.876, 12345.0, 3.14159,
                    98.765, -398.77775, 13.208945, 1234.5, 100000.0, 1000000.0, 999999.0, 999999.4999, 0.0001, 0.00009999995,
                    1e15, 1e16, 1e17, 4.35, 8.345, 1e308, 1.8e306, 1.7976931348623157e306, 0.045, 1e-7, 1e-320, 4.9e-322, 2.0 ** -1022,
                    0.15, 0.25, 0.35, 0.45, 5.0, 15.0, 25.0, 1e100, 1e-100, 6.02214076e23, 2.0 ** 52 + 0.5, 2.0 ** 53 - 1]


def rand_double(rng):
    k = rng.random()
    if k < 0.35:
        return rng.choice(BOUNDARY_DOUBLES)
    if k < 0.55:   # short decimals
        return float(Decimal(rng.randrange(-10 ** 6, 10 ** 6)).scaleb(-rng.randrange(0, 6)))
    if k < 0.65:   # integers
        return float(rng.randrange(-10 ** rng.randrange(1, 19), 10 ** rng.randrange(1, 19)))
    if k < 0.8:    # halfway-ish decimals d.ddd5
        return float(Decimal(rng.randrange(0, 10 ** 4) * 10 + 5).scaleb(-rng.randrange(1, 6)))
    if k < 0.9:
        return rng.uniform(-1, 1) * 10.0 ** rng.randrange(-30, 30)
    # arbitrary bit pattern
    return float_of("%016x" % rng.getrandbits(64))


# ----------------------------------------------------------------------------- python oracle for %v

def go_v(x):
    """Go's %v for a float64 (strconv 'g', shortest): shortest round-trip digits (taken from Python's repr, an independent
    implementation), laid out by strconv's %g rule: %e form iff exp < -4 or exp >= 6 (eprec = 6 when the precision is 'shortest')."""
    if x != x:
        return "NaN"
    if x == float("inf"):
        return "+Inf"
    if x == float("-inf"):
        return "-Inf"
    sign = "-" if math.copysign(1.0, x) < 0 else ""
    if x == 0:
        return sign + "0"
    t = Decimal(repr(abs(x))).as_tuple()
    ds = "".join(str(d) for d in t.digits)
    dp = len(ds) + t.exponent
    ds = ds.rstrip("0") or "0"
    ds2 = ds.lstrip("0")
    dp -= len(ds) - len(ds2)
    ds = ds2
    nd = len(ds)
    exp = dp - 1
    if exp < -4 or exp >= 6:
        m = ds[0] + ("." + ds[1:] if nd > 1 else "")
        return sign + m + "e" + ("-" if exp < 0 else "+") + ("%02d" % abs(exp))
    if dp <= 0:
        return sign + "0." + "0" * (-dp) + ds
    if nd <= dp:
        return sign + ds + "0" * (dp - nd)
    return sign + ds[:dp] + "." + ds[dp:]


# ----------------------------------------------------------------------------- Coq terms

def zl(bs):
    return core.zlist(bs)


def elem_term(e):
    t = e["t"]
    if t == "num":
        return "(ENum %d)" % int(e["bits"], 16)
    if t == "str":
        return "(EStr %s)" % zl(e["v"]["cps"])
    if t == "bool":
        return "(EBool %s)" % core.coq_bool(e["v"])
    if t == "null":
        return "ENull"
    if t == "list":
        return "(EList [%s])" % ";".join(elem_term(x) for x in e["v"])
    if t == "dict":
        return "(EDict [%s])" % ";".join("(%s,%s)" % (zl(k["cps"]), elem_term(v)) for k, v in e["v"])
    return "EOther"


def rv_term(rv):
    return "[" + ";".join("(%d,%s)" % (int(b, 16), zl(v)) for b, v in sorted(rv.items())) + "]"


LOOKUP = "(fun rvt b => match find (fun p => fst p =? b) rvt with Some p => snd p | None => [] end)"
ENC_F = ("(fun r => match r with FOk s => 0 :: s | FErr EInvalidTemplate => [1;33] | FErr EUnmatch => [1;34] | FErr EParamType => [1;82] "
         "| FErr ENotNumber => [1;0] | FErr EBadDirective => [1;0] | FErr EExprType => [1;80] | FCrash => [2] end)")
RUN = {
    "slice": "fun c : list Z * Z * Z => let '(s, b1, b2) := c in match str_exec_slice_bits s b1 b2 with SOk r => [0 :: r] | SExc => [[1]] | SCrash => [[2]] | SOutOfFuel => [[3]] end",
    "len": "fun s => [[str_get_length s]]",
    "chars": "fun s => str_get_char_array s",
    "split": "fun c : list Z * list Z => let '(s, sep) := c in match str_exec_split s sep with SOk ps => [0] :: ps | SExc => [[1]] | SCrash => [[2]] | SOutOfFuel => [[3]] end",
    "match": "fun c : list Z * list Z => let '(s, sub) := c in [[if contains s sub then 1 else 0; if has_prefix s sub then 1 else 0; if has_suffix s sub then 1 else 0]]",
    "format": "fun c : list Z * list elem * list (Z * list Z) => let '(tpl, args, rvt) := c in [%s (format_string (%s rvt) tpl args)]" % (ENC_F, LOOKUP),
    "dispatch": "fun c : elem * elem * list (Z * list Z) => let '(l, r, rvt) := c in [%s (eval_format (%s rvt) l r)]" % (ENC_F, LOOKUP),
    "render": ("fun c : Z * bool * Z * Z * bool => let '(bits, plus, prec, kind, pct) := c in let x := decode_bits bits in let x := if pct then mul100 x else x in "
               "[ (if kind =? 0 then render_f plus prec x else if kind =? 1 then render_e plus prec x else render_g6 plus x); [encode_bits x] ]"),
    "int": "fun b => [[go_int (decode_bits b)]]",
}


RUN_SLICE_GROUP = ("fun c : list Z * list (Z * Z) => let '(s, pairs) := c in List.map (fun p : Z * Z => "
                   "match str_exec_slice_bits s (fst p) (snd p) with SOk r => [0 :: r] | SExc => [[1]] | SCrash => [[2]] | SOutOfFuel => [[3]] end) pairs")


def case_term(j):
    k = j["k"]
    if k == "slice":
        return "(%s, %d, %d)" % (zl(sbytes(j["s"])), int(j["a"], 16), int(j["b"], 16))
    if k in ("len", "chars"):
        return zl(sbytes(j["s"]))
    if k in ("split", "match"):
        return "(%s, %s)" % (zl(sbytes(j["s"])), zl(sbytes(j["sep"])))
    if k == "format":
        return "(%s, [%s], %s)" % (zl(j["tpl"]["cps"]), ";".join(elem_term(a) for a in j["args"]), rv_term(j["_rv"]))
    if k == "dispatch":
        return "(%s, %s, %s)" % (elem_term(j["left"]), elem_term(j["right"]), rv_term(j["_rv"]))
    if k == "render":
        v = j["verb"]
        return "(%d, %s, %d, %d, %s)" % (int(j["bits"], 16), core.coq_bool(v["plus"]), v["prec"], {"f": 0, "E": 1, "g": 2}[v["kind"]],
                                          core.coq_bool(j.get("mul100", False)))
    if k == "int":
        return "%d" % int(j["bits"], 16)
    raise ValueError(k)


def verb_string(v):
    s = "%" + ("+" if v["plus"] else "")
    if v["kind"] == "g":
        return s + ".6g"
    return s + ".%d" % v["prec"] + ("f" if v["kind"] == "f" else "E")


# ----------------------------------------------------------------------------- implementation side

def harness_case(j):
    k = j["k"]
    via = j.get("via", "api")
    if k == "slice":
        return "textop", {"s": j["s"], "op": "取样", "args": [NB(j["a"]), NB(j["b"])], "via": via}
    if k == "len":
        return "textop", {"s": j["s"], "op": j.get("op", "长度"), "prop": True, "via": via}
    if k == "chars":
        c = {"s": j["s"], "op": "字符组", "prop": True, "via": via}
        if j.get("history"):
            c["history"] = j["history"]
            c["via"] = "api"
        return "textop", c
    if k == "split":
        return "textop", {"s": j["s"], "op": "分隔", "args": [{"t": "str", "v": j["sep"]}], "via": via}
    if k == "match":
        return "textop3", None
    if k == "format":
        return "format", {"tpl": j["tpl"], "args": j["args"]}
    if k == "dispatch":
        return "format", {"left": j["left"], "right": j["right"]}
    if k == "render":
        return "render", {"bits": j["bits"], "verb": verb_string(j["verb"]), "mul100": j.get("mul100", False)}
    if k == "int":
        return "render", {"bits": j["bits"], "int": True}
    raise ValueError(k)


def dec_text(bs):
    """bytes of a Go string -> code points, or a marker when it is not valid UTF-8"""
    try:
        return [ord(c) for c in bytes(bs).decode("utf-8")]
    except UnicodeDecodeError:
        return ["invalid-utf8"] + list(bs)


def abnormal(o):
    return "panic" in o or "crash" in o or "hang" in o


def err_code(o):
    e = o.get("err", {})
    cls = e.get("class")
    if cls in ("semantic", "runtime"):
        return [1, e.get("code")]
    if cls == "other":
        return [1, 0]
    return [1, "?" + str(cls)]


def impl_obs(j, o):
    """implementation outcome in the encoding of the model's run function"""
    k = j["k"]
    if abnormal(o):
        return ["abnormal", {x: o[x] for x in o if x in ("panic", "crash", "hang")}]
    if k == "slice":
        if o.get("kind") == "value" and o["value"].get("t") == "str":
            return [[0] + o["value"]["b"]]
        cls = o.get("err", {}).get("class")
        if cls in ("signal", "goexception") or (cls == "other" and j.get("via") == "interp"):
            return [[1]]
        return ["unexpected", o]
    if k == "len":
        if o.get("kind") == "value" and o["value"].get("t") == "num":
            f = float_of(o["value"]["bits"])
            return [[int(f)]] if f == int(f) else ["unexpected", o]
        return ["unexpected", o]
    if k == "chars":
        if o.get("kind") == "value" and o["value"].get("t") == "list":
            return [x.get("b") for x in o["value"]["v"]]
        return ["unexpected", o]
    if k == "split":
        if o.get("kind") == "value" and o["value"].get("t") == "list":
            return [[0]] + [x.get("b") for x in o["value"]["v"]]
        return ["unexpected", o]
    if k in ("format", "dispatch"):
        if o.get("kind") == "value":
            v = o["value"]
            if v.get("t") == "str":
                return [[0] + dec_text(v["b"])]
            return ["unexpected", o]
        return [err_code(o)]
    if k == "render":
        return [o["s"], [int(o["bits"], 16) if float_of(o["bits"]) == float_of(o["bits"]) else 0x7FF8000000000000]]
    if k == "int":
        return [[int(o["int"])]]
    raise ValueError(k)


# ----------------------------------------------------------------------------- evaluation of a job list

def evaluate(chk, jobs):
    """run implementation and model on every job, compare, report"""
    # 1. implementation
    by_cmd = {}
    for i, j in enumerate(jobs):
        if j["k"] == "match":
            continue
        cmd, payload = harness_case(j)
        by_cmd.setdefault(cmd, []).append((i, payload))
    outs = {}
    for cmd, lst in by_cmd.items():
        res = core.harness(HARNESS, cmd, [p for _, p in lst])
        for (i, _), o in zip(lst, res):
            outs[i] = o
    # match: three methods, three harness calls folded into one observation
    mi = [i for i, j in enumerate(jobs) if j["k"] == "match"]
    if mi:
        cases = []
        for i in mi:
            j = jobs[i]
            for op in ("匹配", "匹配开头", "匹配结尾"):
                cases.append({"s": j["s"], "op": op, "args": [{"t": "str", "v": j["sep"]}], "via": j.get("via", "api")})
        res = core.harness(HARNESS, "textop", cases)
        for n, i in enumerate(mi):
            trip = res[3 * n:3 * n + 3]
            if any(abnormal(o) for o in trip):
                outs[i] = {"panic": str(trip)}
            else:
                outs[i] = {"match": [1 if (o.get("value", {}).get("v") is True) else (0 if o.get("value", {}).get("v") is False else "?") for o in trip]}
    # 2. the model, inside Coq (format cases need the implementation's %v renderings first)
    for i, j in enumerate(jobs):
        if j["k"] in ("format", "dispatch"):
            j["_rv"] = outs[i].get("rv", {}) if isinstance(outs[i], dict) else {}
    model = {}
    kinds = sorted(set(j["k"] for j in jobs))
    def run_kind(k):
        idx = [i for i, j in enumerate(jobs) if j["k"] == k]
        out = {}
        if k == "slice":
            # parsing the case terms dominates the cost of the Coq run: one term per text, all its index pairs inside
            groups = {}
            for i in idx:
                groups.setdefault(json.dumps(jobs[i]["s"], sort_keys=True), []).append(i)
            glist = list(groups.values())
            terms = ["(%s, [%s])" % (zl(sbytes(jobs[g[0]]["s"])),
                                      ";".join("(%d,%d)" % (int(jobs[i]["a"], 16), int(jobs[i]["b"], 16)) for i in g)) for g in glist]
            res = core.coq_run_cases("c14slice", IMPORTS, RUN_SLICE_GROUP, terms, shard=12, jobs=4)
            for g, vs in zip(glist, res):
                for i, v in zip(g, vs):
                    out[i] = v
            return out
        res = core.coq_run_cases("c14" + k, IMPORTS, RUN[k], [case_term(jobs[i]) for i in idx], shard=200, jobs=4)
        for i, v in zip(idx, res):
            out[i] = v
        return out

    from concurrent.futures import ThreadPoolExecutor
    with ThreadPoolExecutor(max_workers=3) as ex:
        for out in ex.map(run_kind, kinds):
            model.update(out)
    # 3. compare
    for i, j in enumerate(jobs):
        o = outs[i]
        exp = model[i]
        if j["k"] == "match":
            obs = [o["match"]] if "match" in o else ["abnormal", o]
        else:
            obs = impl_obs(j, o)
        jj = {x: y for x, y in j.items() if not x.startswith("_")}
        chk.count(jj, nontrivial=True)
        chk.dist("kind:" + j["k"] + (":" + j.get("via") if j.get("via") else ""))
        if j.get("tag"):
            chk.dist("gen:" + j["tag"])
        if i % 211 == 0:
            chk.sample({"case": jj, "expected": str(exp)[:160]})
        classify(chk, j, jj, o, obs, exp)


def show_text(v):
    try:
        if v and v[0] == "invalid-utf8":
            return "bytes " + bytes(v[1:]).hex()
        return repr("".join(chr(c) for c in v))
    except Exception:
        return str(v)


def classify(chk, j, jj, o, obs, exp):
    k = j["k"]
    # %v cross-check (Go library behaviour; informs about the opaque parameter only)
    if k in ("format", "dispatch"):
        for b, v in j.get("_rv", {}).items():
            want = go_v(float_of(b))
            got = "".join(chr(c) for c in v)
            chk.dist("rv-checked")
            if want != got:
                chk.violation("Number.String (%%v) of %s is %r, the shortest round-trip rendering is %r" % (b, got, want),
                              "oracle:%v", {"kind": "oracle-%v", "bits": b, "got": got, "want": want}, no_input=True)
    if obs == exp:
        if k in ("format", "dispatch"):
            chk.dist("format-outcome:" + ("ok" if exp[0][0] == 0 else "error%s" % exp[0][1:]))
        if k == "slice":
            chk.dist("slice-outcome:" + ("text" if exp[0][0] == 0 else "exception"))
        return
    replay = {"kind": k, "case": jj, "expected": exp, "observed": obs, "replay_cmd": "./check C14 --replay <this file>"}
    if k in ("render", "int"):
        # Go library restatement differs from the Go library: the model is wrong, not Zn
        chk.violation("the restatement of Go's %s in FormatNum.v disagrees with Go on bits=%s: model %s, Go %s" % (
            verb_string(j["verb"]) if k == "render" else "int(float64)", j["bits"], show_obs(exp), show_obs(obs)),
            "tie:FormatNum", replay, no_input=True)
        return
    if obs and obs[0] == "abnormal":
        chk.violation("%s makes the implementation panic/hang: %s" % (describe(j), json.dumps(obs[1], ensure_ascii=False)[:160]),
                      k + ":panic", replay)
        return
    if k == "slice":
        s = sbytes(j["s"])
        a, b = float_of(j["a"]), float_of(j["b"])
        if obs[0] != "unexpected" and obs[0][0] == 0 and exp[0][0] == 0:
            got = bytes(obs[0][1:])
            try:
                got.decode("utf-8")
                what, sig = "returns the wrong characters", "slice:wrong-characters"
            except UnicodeDecodeError:
                what, sig = "splits a character (result is not valid UTF-8)", "slice:splits-character"
        elif exp[0][0] == 0:
            what, sig = "fails although the indices are within the text", "slice:spurious-error"
        else:
            what, sig = "accepts indices outside the text", "slice:missing-error"
        chk.violation("取样 %s: 以%s（取样：%r、%r） expected %s, observed %s" % (
            what, show_text(dec_text(s)), a, b, show_obs(exp), show_obs(obs)), sig, replay)
        return
    if k in ("len", "chars", "split", "match"):
        chk.violation("%s differs from the character model: %s expected %s observed %s" % (
            {"len": "长度", "chars": "字符组", "split": "分隔", "match": "匹配/匹配开头/匹配结尾"}[k], describe(j), show_obs(exp), show_obs(obs)),
            "text:" + k, replay)
        return
    # format / dispatch
    if obs[0] == "unexpected":
        chk.violation("%s: unexpected outcome %s" % (describe(j), json.dumps(obs[1], ensure_ascii=False)[:200]), "format:unexpected", replay)
        return
    e0, o0 = exp[0], obs[0]
    if e0[0] == 1 and o0[0] == 0:
        names = {33: "malformed template", 34: "placeholder/argument count mismatch", 82: "{} on a non-displayable value",
                 0: "numeric directive on a non-number or malformed directive", 80: "operand types"}
        chk.violation("%s must be an error (%s) but returns %s" % (describe(j), names.get(e0[1], e0[1]), show_text(o0[1:])),
                      "format:missing-error:%s" % e0[1], replay)
    elif e0[0] == 0 and o0[0] == 1:
        chk.violation("%s must give %s but reports error %s" % (describe(j), show_text(e0[1:]), o0[1:]), "format:spurious-error", replay)
    elif e0[0] == 0:
        chk.violation("%s must give %s but gives %s" % (describe(j), show_text(e0[1:]), show_text(o0[1:])), "format:wrong-text", replay)
    else:
        chk.violation("%s: error class/code %s expected, %s observed" % (describe(j), e0[1:], o0[1:]), "format:wrong-error", replay)


def show_obs(v):
    try:
        if isinstance(v, list) and v and isinstance(v[0], list):
            parts = []
            for x in v:
                if x and all(isinstance(c, int) and 0 <= c < 256 for c in x[1:]) and x[0] == 0:
                    parts.append("text(" + show_text(dec_text(x[1:])) + ")")
                else:
                    parts.append(str(x))
            return "[" + ", ".join(parts) + "]"
    except Exception:
        pass
    return str(v)[:200]


def elem_show(e):
    t = e["t"]
    if t == "num":
        return repr(float_of(e["bits"]))
    if t == "str":
        return "“" + "".join(chr(c) for c in e["v"]["cps"]) + "”"
    if t == "bool":
        return "真" if e["v"] else "假"
    if t == "null":
        return "空"
    if t == "list":
        return "【" + "、".join(elem_show(x) for x in e["v"]) + "】"
    if t == "dict":
        return "【" + "，".join("".join(chr(c) for c in k["cps"]) + "=" + elem_show(v) for k, v in e["v"]) + "】"
    return "<" + t + ">"


def describe(j):
    k = j["k"]
    if k == "format":
        return "“%s” %% 【%s】" % ("".join(chr(c) for c in j["tpl"]["cps"]), "、".join(elem_show(a) for a in j["args"]))
    if k == "dispatch":
        return "%s %% %s" % (elem_show(j["left"]), elem_show(j["right"]))
    if "s" in j:
        extra = ""
        if "sep" in j:
            extra = " sep=" + show_text(dec_text(sbytes(j["sep"])))
        return "text " + show_text(dec_text(sbytes(j["s"]))) + extra
    return json.dumps(j, ensure_ascii=False)[:120]


# ----------------------------------------------------------------------------- generators

SPECIAL_IDX = [1.5, -0.5, 2.999, 0.999, -1.5, 1e300, -1e300, float("nan"), float("inf"), float("-inf"), 9.3e18, -9.3e18,
               9223372036854775808.0, 4294967296.0, -4294967297.0, 1e-300, -0.0]


def gen_textops(rng, quick):
    jobs = []
    ntexts = 45 if quick else 500
    for t in range(ntexts):
        n = rng.choice([0, 1, 2, 2, 3, 3, 4, 5, 6, 8])
        cps = rand_text(rng, n)
        s = {"cps": cps}
        if rng.random() < 0.06:     # a Go string that is not UTF-8 (can only arise from other defects); model is byte-level too
            raw = bytearray(enc([c for c in cps if not 0xD800 <= c < 0xE000]))
            if raw:
                raw[rng.randrange(len(raw))] = rng.choice([0xFF, 0x80, 0xC0, 0xE4])
            s = {"hex": bytes(raw).hex()}
            n = len(runes(bytes(raw)))
        via = "interp" if rng.random() < 0.3 else "api"
        jobs.append({"k": "len", "s": s, "via": via, "op": rng.choice(["长度", "字数"]), "tag": "len"})
        jobs.append({"k": "chars", "s": s, "via": via, "tag": "chars"})
        # the characters of a text after the lists handed back by earlier reads of its 字符组 were changed in place
        jobs.append({"k": "chars", "s": s, "via": "api", "tag": "chars-after-history",
                     "history": [rng.choice(["swap", "set-first", "set-index", "pop-add", "shift-add", "reverse-assign"])
                                 for _ in range(rng.randrange(1, 4))]})
        # all index pairs around the text for short texts, a sample otherwise
        rngidx = list(range(-n - 2, n + 3))
        pairs = [(a, b) for a in rngidx for b in rngidx]
        limit = 30 if quick else 120
        if len(pairs) > limit:
            pairs = rng.sample(pairs, limit)
        for a, b in pairs:
            jobs.append({"k": "slice", "s": s, "a": bits_of(float(a)), "b": bits_of(float(b)),
                         "via": "interp" if rng.random() < 0.15 else "api", "tag": "slice-int-pair"})
        for _ in range(4):
            a = rng.choice(SPECIAL_IDX) if rng.random() < 0.6 else rng.uniform(-n - 2, n + 2)
            b = rng.choice(SPECIAL_IDX) if rng.random() < 0.4 else float(rng.randrange(-n - 2, n + 3))
            if rng.random() < 0.5:
                a, b = b, a
            jobs.append({"k": "slice", "s": s, "a": bits_of(a), "b": bits_of(b), "via": "api", "tag": "slice-special"})
        # split / match
        for _ in range(3):
            r = rng.random()
            if r < 0.2 or n == 0:
                sep = []
            elif r < 0.7:
                i = rng.randrange(n)
                sep = cps[i:i + rng.choice([1, 1, 2])]
            else:
                sep = rand_text(rng, rng.choice([1, 2]))
            if "hex" in s and sep:
                sepd = {"hex": bytes(bytearray(sbytes(s))[:max(1, rng.randrange(1, 3))]).hex()} if rng.random() < 0.5 else {"cps": sep}
            else:
                sepd = {"cps": sep}
            jobs.append({"k": "split", "s": s, "sep": sepd, "via": "interp" if rng.random() < 0.2 else "api", "tag": "split"})
            jobs.append({"k": "match", "s": s, "sep": sepd, "via": "api", "tag": "match"})
        # repeated-separator texts: aXbXXc
        if rng.random() < 0.5:
            sep = rand_text(rng, rng.choice([1, 2]))
            parts = [rand_text(rng, rng.choice([0, 1, 2])) for _ in range(rng.randrange(1, 5))]
            txt = []
            for pi, p in enumerate(parts):
                if pi:
                    txt += sep
                txt += p
            jobs.append({"k": "split", "s": {"cps": txt}, "sep": {"cps": sep}, "via": "api", "tag": "split-joined"})
    return jobs


def runes(bs):
    return bs.decode("utf-8", "replace")


def rand_directive(rng):
    """a well-formed numeric directive (after '{', before '}') and its expected class"""
    d = "#"
    if rng.random() < 0.3:
        d += "+"
    if rng.random() < 0.6:
        p = rng.random()
        if p < 0.7:
            prec = str(rng.randrange(0, 21))
        elif p < 0.85:
            prec = str(rng.randrange(21, 80))
        elif p < 0.9:
            prec = rng.choice(["300", "999", "1000", "0007", "00000000000000000000012", "0012", "100", "0"])
        elif p < 0.95:
            prec = ""
        else:
            prec = rng.choice(["1001", "1074", "99999", "4294967296", "9223372036854775807", "9223372036854775808",
                               "18446744073709551616", "99999999999999999999", "18446744073709551617", "36893488147419103233"])
        d += "." + prec
    r = rng.random()
    if r < 0.25:
        d += "E"
    elif r < 0.5:
        d += "%"
    return d


def mutate_directive(rng, d):
    k = rng.randrange(8)
    if k == 0:
        return d[1:] if d else "x"              # no leading '#'
    if k == 1:
        i = rng.randrange(len(d) + 1)
        return d[:i] + rng.choice("+.E%#e5 f") + d[i:]
    if k == 2:
        return d + rng.choice(["E", "%", "+", ".", "f", "g", "E%", "%E"])
    if k == 3:
        return "#" + rng.choice([".2+", "++", "..", "+.+", "E.2", "%.2", ".-1", ".２", ".2e", " .2", ".2 "])
    if k == 4:
        return d.replace("#", "＃") if rng.random() < 0.5 else "#" + d
    if k == 5:
        return rng.choice(["abc", "0", "好", " ", "#x", "1#", "%", "+"])
    if k == 6 and len(d) > 1:
        i = rng.randrange(1, len(d))
        return d[:i] + d[i + 1:]
    return d + str(rng.randrange(10))


def rand_elem(rng, depth=0):
    r = rng.random()
    if depth == 0 and rng.random() < 0.12:
        # lists inside lists (and inside dictionaries inside lists) with items before and after them: the display form of a
        # value is built from the display forms of its items, to any depth
        inner = {"t": "list", "v": [N(float(rng.randrange(0, 9))) for _ in range(rng.randrange(1, 4))]}
        if rng.random() < 0.4:
            inner = {"t": "list", "v": [N(3.0), inner, S([97])]}
        if rng.random() < 0.3:
            inner = {"t": "dict", "v": [[{"cps": [107]}, inner]]}
        return {"t": "list", "v": [rand_elem(rng, 2) for _ in range(rng.randrange(1, 3))] + [inner] + [rand_elem(rng, 2) for _ in range(rng.randrange(0, 3))]}
    if r < 0.35:
        return N(rand_double(rng))
    if r < 0.6:
        return S(rand_text(rng, rng.choice([0, 1, 2, 4])))
    if r < 0.7:
        return {"t": "bool", "v": rng.random() < 0.5}
    if r < 0.77:
        return {"t": "null"}
    if r < 0.9 and depth < 2:
        return {"t": "list", "v": [rand_elem(rng, depth + 1) for _ in range(rng.randrange(0, 4))]}
    if depth < 2:
        keys = []
        for _ in range(rng.randrange(0, 3)):
            kx = rand_text(rng, rng.choice([1, 2]))
            if kx not in keys:
                keys.append(kx)
        return {"t": "dict", "v": [[{"cps": kx}, rand_elem(rng, depth + 1)] for kx in keys]}
    return {"t": "null"}


def gen_format(rng, quick):
    jobs = []
    n = 1100 if quick else 12000
    for _ in range(n):
        nseg = rng.choice([0, 1, 1, 2, 2, 3, 4, 6])
        tpl = []
        args = []
        tag = "wellformed"
        for si in range(nseg):
            if rng.random() < 0.45:
                tpl += rand_text(rng, rng.choice([1, 1, 2, 3]), no_brace=True)
                tpl = [c for c in tpl if c not in (123, 125)]
            else:
                if rng.random() < 0.4:
                    d = ""
                    a = rand_elem(rng)
                else:
                    d = rand_directive(rng)
                    a = N(rand_double(rng))
                if rng.random() < 0.07:
                    d = mutate_directive(rng, d)
                    tag = "mutated-directive"
                tpl += [123] + [ord(c) for c in d] + [125]
                args.append(a)
        m = rng.random()
        if m < 0.06 and tpl:          # brace mutations
            i = rng.randrange(len(tpl) + 1)
            how = rng.randrange(4)
            if how == 0:
                tpl = tpl[:i] + [rng.choice([123, 125])] + tpl[i:]
            elif how == 1:
                br = [x for x, c in enumerate(tpl) if c in (123, 125)]
                if br:
                    x = rng.choice(br)
                    tpl = tpl[:x] + tpl[x + 1:]
            elif how == 2:
                br = [x for x, c in enumerate(tpl) if c in (123, 125)]
                if br:
                    x = rng.choice(br)
                    tpl[x] = 123 + 125 - tpl[x]
            else:
                tpl = tpl + [123]
            tag = "mutated-braces"
        elif m < 0.12:                # argument count
            if args and rng.random() < 0.5:
                args = args[:-1]
            else:
                args = args + [rand_elem(rng)]
            tag = "count-mismatch"
        elif m < 0.18 and args:       # wrong argument kind
            i = rng.randrange(len(args))
            args[i] = rng.choice([{"t": "exc"}, {"t": "func"}, S(rand_text(rng, 2)), {"t": "null"}, {"t": "bool", "v": True},
                                  {"t": "list", "v": [N(1.0)]}])
            tag = "arg-kind"
        jobs.append({"k": "format", "tpl": {"cps": tpl}, "args": args, "tag": tag})
    # the dispatch: text % list is formatting, other operand kinds (except number % number) are a type error
    for _ in range(40 if quick else 300):
        l = rng.choice([S([123, 125]), S([97]), N(5.0), {"t": "null"}, {"t": "list", "v": []}, {"t": "bool", "v": True}, S([])])
        r = rng.choice([{"t": "list", "v": [N(1.0)]}, {"t": "list", "v": []}, S([97]), {"t": "null"}, N(2.0), {"t": "dict", "v": []}])
        if l["t"] == "num" and r["t"] == "num":
            continue
        jobs.append({"k": "dispatch", "left": l, "right": r, "tag": "dispatch"})
    return jobs


def gen_exhaustive(rng, quick):
    """bounded-exhaustive words for the two state machines: every transition of the 5-state directive machine and of the
    3-state template scanner is exercised by some word of length <= 3 (reach a state in <= 2 symbols, take the transition),
    one more symbol tells the resulting states apart"""
    import itertools
    jobs = []
    # directive machine: '{#' w '}' for all w over {+ . E % 5 x}
    alpha = "+.E%5x"
    full = 3 if quick else 5
    words = [""]
    for n in range(1, full + 1):
        words += ["".join(w) for w in itertools.product(alpha, repeat=n)]
    extra = ["".join(w) for w in itertools.product(alpha, repeat=full + 1)]
    words += rng.sample(extra, 250 if quick else 3000)
    for w in words:
        jobs.append({"k": "format", "tpl": {"cps": [123, 35] + [ord(c) for c in w] + [125]}, "args": [N(rng.choice([1.5, -2.25, 0.0]))],
                     "tag": "exhaustive-directive"})
    # template scanner: all w over { '{' '}' 'a' } with as many arguments as there are '}' (and one more / one less)
    full = 5 if quick else 8
    tw = [""]
    for n in range(1, full + 1):
        tw += ["".join(w) for w in itertools.product("{}a", repeat=n)]
    extra = ["".join(w) for w in itertools.product("{}a#", repeat=full + 1)]
    tw += rng.sample(extra, 250 if quick else 3000)
    for w in tw:
        k = w.count("}")
        for d in ((0,) if quick and len(w) > 3 else (0, 1, -1)):
            if k + d < 0:
                continue
            # a '#' or 'a' inside braces makes a directive; numbers satisfy '#', fail on 'a' alike in model and code
            jobs.append({"k": "format", "tpl": {"cps": [ord(c) for c in w]}, "args": [N(2.0)] * (k + d), "tag": "exhaustive-template"})
    return jobs


def gen_render(rng, quick):
    jobs = []
    n = 1600 if quick else 20000
    for i in range(n):
        x = BOUNDARY_DOUBLES[i % len(BOUNDARY_DOUBLES)] if i < 3 * len(BOUNDARY_DOUBLES) else rand_double(rng)
        kind = rng.choice(["f", "f", "E", "E", "g"])
        p = rng.random()
        prec = rng.randrange(0, 22) if p < 0.8 else (rng.randrange(22, 120) if p < (0.995 if quick else 0.97) else rng.choice([340, 767, 1000, 1074]))
        if kind == "g":
            prec = 6
        jobs.append({"k": "render", "bits": bits_of(x), "verb": {"plus": rng.random() < 0.3, "prec": prec, "kind": kind},
                     "mul100": rng.random() < 0.35, "tag": "render-" + kind})
    for i in range(300 if quick else 3000):
        r = rng.random()
        if r < 0.3:
            x = rng.choice(SPECIAL_IDX + BOUNDARY_DOUBLES)
        elif r < 0.6:
            x = rng.uniform(-20, 20)
        elif r < 0.8:
            x = float(rng.randrange(-2 ** 63 - 5000, 2 ** 63 + 5000))
        else:
            x = float_of("%016x" % rng.getrandbits(64))
        jobs.append({"k": "int", "bits": bits_of(x), "tag": "int"})
    return jobs


# ----------------------------------------------------------------------------- entry point

def load_corpus():
    p = os.path.join(core.VERIF, "corpus", "C14", "cases.json")
    if os.path.exists(p):
        return json.load(open(p, encoding="utf8"))
    return []


def run(chk, replay=None):
    rng = chk.rng
    quick = chk.tier == "quick"
    if replay is not None:
        evaluate(chk, [replay["case"]])
        return
    jobs = list(load_corpus())
    for j in jobs:
        j.setdefault("tag", "corpus")
    jobs += gen_textops(rng, quick)
    jobs += gen_format(rng, quick)
    jobs += gen_exhaustive(rng, quick)
    jobs += gen_render(rng, quick)
    evaluate(chk, jobs)
    chk.coverage["rule"] = (
        "corpus first; texts of 0..8 characters drawn from ASCII / CJK / astral / combining / boundary code points (6% raw non-UTF-8 "
        "byte strings) x all integer index pairs in [-n-2, n+2] (sampled above 40/120 pairs) + fractional, huge, NaN, infinite indices, "
        "through the String API and through the interpreter; 长度/字数/字符组/分隔/匹配* on the same texts with separators taken from "
        "the text or random (incl. empty); templates of 0..6 segments generated from the grammar (literals without braces, directives "
        "'' or '#' '+'? ('.' digits)? ('E'|'%')?, precisions 0..80, 300, 999, 1000, 1001 .. 2^65) with 7% mutated directives, 6% brace "
        "mutations, 6% count mismatches, 6% wrong argument kinds, all directive words over {+ . E % 5 x} up to length 3 (thorough: 5) and all templates over {'{' '}' a} up to length 5 (thorough: 8) plus samples one longer (bounded-exhaustive coverage of every transition of the two state machines); arguments = numbers (boundary doubles, short decimals, halfway "
        "decimals, random bit patterns), texts, bools, 空, nested lists and dictionaries, functions/exceptions; every restated Go "
        "rendering (%.Nf %.NE %.6g, +, x*100, int()) against fmt.Sprintf; distinct = distinct job descriptions")
