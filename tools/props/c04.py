# C04 — Unspaced text is tokenised exactly as documented (keywords, names, numbers).
# Ties: T1 source translation (tools/go2coq_c04 -> coq/gen/GenC04*.v, regenerated on every check),
#       T2 exhaustive extraction (IdInRange on every code point; MatchIDType on every short numeric string),
#       T3 differential runs of zh.NextToken / exec.MatchIDType against the Gallina models evaluated in Coq.
import json
import os
import re
import struct
from vlib import core

HARNESS = "c04"

TB = ("Coq 8.16.1 kernel and vm_compute; source translator tools/go2coq_c04 (go/ast; cross-checked by the differential runs); "
      "Go harness built -tags verif from the working tree; generators and comparison code in tools/props/c04.py; ")
CLAIM = dict(
    text=("Theorems (coq/props/C04.v, closed under the global context) about executable models regenerated from / tied to the Go "
          "source: (1) the number recogniser tryParseNumber, translated from id_match.go on every run, classifies EVERY string as "
          "number / name / rejected exactly as the documented form sign? digit+ (. digit+)? ([eE] sign digit+ | *(10)?^ sign? digit+)? "
          "prescribes (verified DFA-equivalence checker evaluated on the regenerated machine + inductive proof that the reference "
          "machine is the documented form; no length bound); 'starts like a number but is not one' is rejected, never a name; "
          "(2) IdInRange's binary search over the regenerated table equals linear membership for every code point and cannot "
          "index out of range or loop; (3) parseKeyword's regenerated decision tree returns the longest documented keyword "
          "(manual's 34 words) at every position, NextToken cuts keywords greedily left to right, backtick text is one "
          "identifier, + - * / are operators only before a space, punctuation or quote, and lexing terminates on every input; "
          "(4) as ONE statement over whole texts (C04_segmentation): for every list of code points the lexer model returns exactly the "
          "greedy left-to-right segmentation computed by a second, declaratively written scanner (longest word of a table that starts "
          "here; maximal run before the first break) — tokens, positions, literals and the way the run ends. "
          "Every run compares exec.MatchIDType (all strings to length 6-7 over the numeric alphabet, values against correctly "
          "rounded doubles), syntax.IdInRange (all 0x110000 code points) and the zh.NextToken token stream (type, literal, "
          "start, end) on generated unspaced text with the models evaluated inside Coq."),
    note=TB + ("strconv.ParseFloat is not modelled: number values are compared with Python's correctly rounded float() of the "
               "spelling produced by the Coq model of the *10^ / *^ rewriting. String literals, line breaks/indentation and the "
               "body of 注…： comments are outside the lexer model (the model stops with Unsupported there and only the token "
               "prefix is compared). 'Starts like a number' is read as: a digit, or a sign followed by a digit."),
    technique="Coq proof (induction over strings; verified DFA equivalence check on the regenerated machine; verified table search) + "
              "model/implementation correspondence by vm_compute and exhaustive extraction",
    design="5/C04")

GEN = os.path.join(core.COQ, "gen")
TRANSLATOR = os.path.join(core.BUILD, "go2coq_c04")
PRE = {"ok": True, "why": ""}


def _write_if_changed(path, txt):
    old = open(path, encoding="utf8").read() if os.path.exists(path) else None
    if old != txt:
        with open(path, "w", encoding="utf8") as f:
            f.write(txt)
        return True
    return False


def prebuild(chk):
    """T1: regenerate coq/gen/GenC04{NumDfa,IdRange,Tokens}.v from the working tree."""
    os.makedirs(GEN, exist_ok=True)
    with core.Lock("go2coq_c04"):
        rc, out = core.sh(["go", "build", "-o", TRANSLATOR, "."], cwd=os.path.join(core.VERIF, "tools", "go2coq_c04"),
                          env=core.GOENV, timeout=300)
    if rc != 0:
        PRE["ok"] = False
        PRE["why"] = "translator does not build: " + out[-300:]
        return
    R = core.REPO
    jobs = [("GenC04NumDfa.v", ["numdfa", R + "/pkg/exec/id_match.go"]),
            ("GenC04IdRange.v", ["idrange", R + "/pkg/syntax/id_range.go"]),
            ("GenC04Tokens.v", ["tokens", R + "/pkg/syntax/zh/tokens.go", R + "/pkg/syntax/zh/keyword.go",
                                R + "/pkg/syntax/lexer.go", R + "/pkg/syntax/id_range.go"])]
    with core.Lock("coq"):
        for fn, args in jobs:
            rc, out = core.sh([TRANSLATOR] + args, timeout=60)
            if rc != 0 or "Definition" not in out:
                PRE["ok"] = False
                PRE["why"] += "translator failed on %s: %s; " % (fn, out[-200:])
                continue
            m = re.search(r"TRANSLATION FAILED: ([^\n]*)", out)
            if m:
                PRE["why"] += "%s: %s; " % (fn, m.group(1)[:200])
            _write_if_changed(os.path.join(GEN, fn), out)


# ------------------------------------------------------------------------------------------------ numbers

NUM_ALPHA = "012+-.eE*^x"
NUM_RE = re.compile(r"^[+-]?[0-9]+(\.[0-9]+)?([eE][+-][0-9]+|\*(10)?\^[+-]?[0-9]+)?$")
LIKE_RE = re.compile(r"^[+-]?[0-9]")
IMP_NUM = ("From Coq Require Import List ZArith Bool. Import ListNotations.\n"
           "From Zn.model Require Import NumDfa.\n")
KIND = {0: "name", 1: "number", 2: "rejected", 3: "other"}


def py_classify(s):
    if NUM_RE.match(s):
        return 1
    if LIKE_RE.match(s):
        return 2
    return 0


def words(alpha, n):
    """same order as the harness: by length, first character most significant"""
    import itertools
    for l in range(n + 1):
        for t in itertools.product(alpha, repeat=l):
            yield "".join(t)


def cps(s):
    return [ord(c) for c in s]


def text(cs):
    return "".join(chr(c) for c in cs)


def f64bits(x):
    return "%016x" % struct.unpack(">Q", struct.pack(">d", x))[0]


def gen_number(rng):
    def digits(lo, hi):
        return "".join(rng.choice("0123456789") for _ in range(rng.randrange(lo, hi)))
    s = rng.choice(["", "", "+", "-"]) + digits(1, rng.choice([2, 4, 8, 20, 30]))
    if rng.random() < 0.5:
        s += "." + digits(1, rng.choice([2, 4, 9, 25]))
    k = rng.random()
    if k < 0.25:
        s += rng.choice("eE") + rng.choice("+-") + digits(1, rng.choice([2, 3, 4]))
    elif k < 0.5:
        s += rng.choice(["*10^", "*^"]) + rng.choice(["", "", "+", "-"]) + digits(1, rng.choice([2, 3, 4]))
    return s


HALFWAY = ["9007199254740993", "9007199254740992.5", "4503599627370496.5", "1.7976931348623157e+308", "1.7976931348623159e+308",
           "2.2250738585072011e-308", "4.9406564584124654e-324", "2.4703282292062327e-324", "2.4703282292062328e-324",
           "0.1", "1e+23", "8.41e+21", "5e-324", "1*10^400", "-1*^400", "1*^-400", "0.000000000000000000000000000001e+30",
           "123456789012345678901234567890", "1.00000000000000011102230246251565404236316680908203125",
           "1.00000000000000011102230246251565404236316680908203124", "1.00000000000000011102230246251565404236316680908203126"]


def mutate(rng, s):
    if not s:
        return rng.choice(NUM_ALPHA)
    i = rng.randrange(len(s) + 1)
    k = rng.randrange(4)
    pool = NUM_ALPHA + "10^*.eE+-" + "度kg_"
    if k == 0:
        return s[:i] + rng.choice(pool) + s[i:]
    if k == 1 and i < len(s):
        return s[:i] + s[i + 1:]
    if k == 2 and i < len(s):
        return s[:i] + rng.choice(pool) + s[i + 1:]
    return s[:i] + s[i:i + 2][::-1] + s[i + 2:]


def num_violation(chk, s, got, exp, how):
    what = "identifier %r is classified %s by exec.MatchIDType, the documented numeric form says %s (%s)" % (
        s, KIND.get(got, got), KIND.get(exp, exp), how)
    sig = "numeric:%s-as-%s" % (KIND.get(exp, exp), KIND.get(got, got))
    chk.violation(what, sig, {"kind": "num", "cps": cps(s), "text": s, "expected": KIND.get(exp), "observed": KIND.get(got),
                              "replay_cmd": "./check C04 --replay <this file>"})


def coq_classify(strings, name="c04n"):
    """[classify_doc w; rewrite_exp w...] evaluated in Coq"""
    run = "fun w => classify_doc w :: rewrite_exp w"
    return core.coq_run_cases(name, IMP_NUM, run, [core.zlist(cps(s)) for s in strings], shard=500)


def run_numbers(chk, quick, corpus, replay):
    rng = chk.rng
    if replay is not None:
        strings = [text(replay["cps"])]
    else:
        # ---- exhaustive over the numeric alphabet (T2)
        maxlen = 6 if quick else 7
        out = core.harness("c04", "numexhaust", [{"alphabet": cps(NUM_ALPHA), "maxlen": maxlen, "timeout_ms": 600000}],
                           batch_timeout=900)[0]
        if "out" not in out:
            chk.violation("exhaustive MatchIDType run failed: %s" % json.dumps(out)[:200], "numeric:harness-abnormal",
                          {"kind": "tie", "detail": out}, no_input=True)
            return
        res = out["out"]
        cands = []
        n = 0
        for i, w in enumerate(words(NUM_ALPHA, maxlen)):
            n += 1
            if int(res[i]) != py_classify(w) and len(cands) < 40:
                cands.append(w)
        chk.coverage["evaluations"] += n
        chk.dist("numeric:exhaustive<=%d" % maxlen, n)
        chk.coverage["numeric_exhaustive"] = {"alphabet": NUM_ALPHA, "max_length": maxlen, "strings": n,
                                              "oracle": "regex pre-filter; every disagreement re-evaluated by classify_doc in Coq"}
        # ---- the same enumeration evaluated by the Coq specification (all strings up to coq_len)
        coq_len = 4 if quick else 5
        total = sum(len(NUM_ALPHA) ** k for k in range(coq_len + 1))
        packed = []
        chunk = 25
        for a in range(0, total, chunk):
            v = 1
            for ch in res[a:min(a + chunk, total)]:
                v = v * 4 + int(ch)
            packed.append(v)
        txt = (IMP_NUM + "Open Scope Z_scope.\n"
               "Fixpoint words (alpha : list Z) (n : nat) : list (list Z) := match n with O => [[]] | S k => flat_map (fun c => map (cons c) (words alpha k)) alpha end.\n"
               "Fixpoint upto (alpha : list Z) (n : nat) : list (list Z) := match n with O => words alpha 0 | S k => upto alpha k ++ words alpha n end.\n"
               "Fixpoint unpack (fuel : nat) (v : Z) (acc : list Z) : list Z := match fuel with O => acc | S f => if v <=? 1 then acc else unpack f (v / 4) (v mod 4 :: acc) end.\n"
               "Definition impl : list Z := flat_map (fun v => unpack 40 v []) %s.\n"
               "Fixpoint diff (ws : list (list Z)) (os : list Z) (i : Z) (acc : list (list Z)) : list (list Z) :=\n"
               "  match ws, os with w :: ws', o :: os' => diff ws' os' (i + 1) (if classify_doc w =? o then acc else (i :: o :: w) :: acc) | _, _ => acc end.\n"
               "Definition out_0 := Eval vm_compute in ([Z.of_nat (length impl)] :: diff (upto %s %d) impl 0 []).\nPrint out_0.\n"
               % (core.zlist(packed), core.zlist(cps(NUM_ALPHA)), coq_len))
        rc, o = core.coq_eval("c04x_%d" % os.getpid(), "Set Printing Depth 1000000.\nSet Printing Width 200.\n" + txt, timeout=900)
        val = core.parse_coq_value(o, marker="out_0") if rc == 0 else None
        if val is None or val[0] != [total]:
            raise RuntimeError("exhaustive numeric comparison could not be evaluated in Coq:\n" + o[-1500:])
        chk.coverage["numeric_exhaustive"]["evaluated_in_coq_up_to_length"] = coq_len
        chk.coverage["numeric_exhaustive"]["evaluated_in_coq"] = total
        for d in val[1:]:
            if text(d[2:]) not in cands:
                cands.append(text(d[2:]))
        # ---- generated longer spellings
        strings = [c["text"] if "text" in c else text(c["cps"]) for c in corpus if c.get("kind") == "num"]
        strings += cands
        strings += HALFWAY
        N = 400 if quick else 4000
        for _ in range(N):
            s = gen_number(rng)
            r = rng.random()
            if r < 0.45:
                s = mutate(rng, s)
                if rng.random() < 0.3:
                    s = mutate(rng, s)
            strings.append(s)
    outs = core.harness("c04", "matchid", [{"cps": cps(s)} for s in strings])
    model = coq_classify(strings)
    for s, o, m in zip(strings, outs, model):
        exp = m[0]
        chk.count(["num", s], nontrivial=len(s) > 0)
        chk.dist("numeric:expect-" + KIND[exp])
        if "kind" not in o:
            chk.violation("exec.MatchIDType does not return normally on %r: %s" % (s, json.dumps(o)[:120]), "numeric:abnormal",
                          {"kind": "num", "cps": cps(s), "text": s, "observed": o})
            continue
        if py_classify(s) != exp:
            chk.violation("Coq specification and the regex pre-filter disagree on %r" % s, "oracle-disagree",
                          {"kind": "oracle", "text": s, "coq": exp, "python": py_classify(s)}, no_input=True)
            continue
        if o["kind"] != exp:
            num_violation(chk, s, o["kind"], exp, "generated spelling")
            continue
        if exp == 1:
            spelling = text(m[1:])
            want = f64bits(float(spelling))
            chk.dist("numeric:value-checked")
            if want != o["bits"]:
                chk.violation("number %r: value bits %s, the correctly rounded double of %s is %s" % (s, o["bits"], spelling, want),
                              "numeric:value", {"kind": "num", "cps": cps(s), "text": s, "expected_bits": want, "observed_bits": o["bits"]})
    # ... and the value the literal has when a program evaluates it (令数值量 = <literal>; 输出数值量)
    nums = [(s, m) for s, m in zip(strings, model) if m[0] == 1 and not any(ch in s for ch in " \t\n")]
    evs = core.harness("c04", "evalnum", [{"cps": cps(s)} for s, _ in nums])
    for (s, m), o in zip(nums, evs):
        want = f64bits(float(text(m[1:])))
        chk.dist("numeric:value-evaluated")
        if o.get("kind") != 1 or o.get("bits") != want:
            chk.violation("number %r evaluated by a program: %s; the correctly rounded double of %s is %s" % (
                s, ("value bits %s" % o.get("bits")) if o.get("kind") == 1 else ("no number: %s" % json.dumps(o)[:80]), text(m[1:]), want),
                "numeric:evaluated-value", {"kind": "num", "cps": cps(s), "text": s, "expected_bits": want, "observed": o})
    if strings:
        chk.sample({"numeric": strings[len(strings) // 2], "expected": KIND[model[len(strings) // 2][0]]})
    if replay is not None:
        return
    # ---- T1: the regenerated machine against the reference; a shortest distinguishing word is replayed on the implementation
    txt = (IMP_NUM + "From Zn.gen Require Import GenC04NumDfa.\nFrom Zn.proofs Require Import NumDfaProofs.\nOpen Scope Z_scope.\n"
           "Definition out_0 := Eval vm_compute in [ [if gen_num_ok then 1 else 0; if num_equiv_check GenT then 1 else 0];"
           " match num_distinguish GenT with Some w => 1 :: w | None => [0] end ].\nPrint out_0.\n")
    rc, o = core.coq_eval("c04d_%d" % os.getpid(), "Set Printing Depth 100000.\n" + txt, timeout=300)
    val = core.parse_coq_value(o, marker="out_0") if rc == 0 else None
    if val is None:
        # proofs/NumDfaProofs.v itself is broken; fall back to the model file only
        txt = txt.replace("From Zn.proofs Require Import NumDfaProofs.\n",
                          "Definition GenT := {| nt_init := gen_num_init; nt_end := gen_num_end; nt_cases := gen_num_cases; "
                          "nt_epilogue := gen_num_epilogue; nt_final := gen_num_final |}.\n")
        rc, o = core.coq_eval("c04d_%d" % os.getpid(), "Set Printing Depth 100000.\n" + txt, timeout=300)
        val = core.parse_coq_value(o, marker="out_0") if rc == 0 else None
    if val is None:
        chk.violation("the regenerated number machine could not be evaluated: " + o[-300:], "numeric:gen-eval",
                      {"kind": "tie", "detail": o[-2000:]}, no_input=True)
        return
    chk.coverage["numeric_machine"] = {"translated": bool(val[0][0]), "equivalent_to_reference": bool(val[0][1])}
    if not val[0][0]:
        chk.violation("tryParseNumber no longer has the shape of a switch-driven state machine; the translator gave up (%s); "
                      "the differential runs above are the only tie" % PRE["why"][:200], "numeric:untranslatable",
                      {"kind": "tie", "detail": PRE["why"]}, no_input=True)
    elif val[1][0] == 1:
        w = text(val[1][1:])
        o1 = core.harness("c04", "matchid", [{"cps": cps(w)}])[0]
        exp = coq_classify([w], name="c04w")[0][0]
        if o1.get("kind") != exp:
            num_violation(chk, w, o1.get("kind"), exp, "shortest word distinguishing the translated machine from the documented form")
        else:
            chk.violation("the machine translated from tryParseNumber differs from the documented form on %r but the "
                          "implementation agrees with the documented form there: the translator is wrong" % w,
                          "numeric:translator", {"kind": "tie", "word": w}, no_input=True)
    elif not val[0][1]:
        chk.violation("num_equiv_check is false but no distinguishing word was found (epilogue not regular?)",
                      "numeric:equiv", {"kind": "tie"}, no_input=True)


# ------------------------------------------------------------------------------------------------ IdInRange

IMP_ID = ("From Coq Require Import List ZArith Bool. Import ListNotations.\n"
          "From Zn.model Require Import IdRange.\nFrom Zn.gen Require Import GenC04IdRange.\n")


def run_idrange(chk, quick, replay):
    if replay is not None:
        pts = [replay["cp"]]
    out = core.harness("c04", "idrange", [{"timeout_ms": 20000}])[0]
    if "runs" not in out:
        # find a concrete code point on which the lookup does not return
        probes = [0x41, 0x24, 0x23, 0x2a, 0x30, 0x5f, 0x7b, 0xc0, 0x4e00, 0x4e2d, 0xffdc, 0xffdd, 0xffff, 0, 0x3b1, 0x30a1, 0xac00]
        bad = None
        for c in (probes if replay is None else [replay.get("cp", 0x41)]):
            o1 = core.harness("c04", "idin", [{"cp": c, "timeout_ms": 1500}])[0]
            if "in" not in o1:
                bad = (c, o1)
                break
        if bad:
            chk.violation("IdInRange(U+%04X) does not return normally: %s" % (bad[0], json.dumps(bad[1])[:120]), "idrange:abnormal",
                          {"kind": "idrange", "cp": bad[0], "observed": bad[1]})
        else:
            chk.violation("IdInRange does not return normally on every code point: %s" % json.dumps(out)[:200], "idrange:abnormal",
                          {"kind": "idrange-abnormal", "observed": out}, no_input=True)
        return
    runs = [tuple(r) for r in out["runs"]]
    rc, o = core.coq_eval("c04t_%d" % os.getpid(), IMP_ID + "Set Printing Depth 1000000.\nSet Printing Width 200.\n"
                          "Definition out_0 := Eval vm_compute in map (fun p => [fst p; snd p]) gen_id_range.\nPrint out_0.\n")
    table = core.parse_coq_value(o, marker="out_0") if rc == 0 else None
    if table is None:
        raise RuntimeError("cannot read gen_id_range: " + o[-500:])

    def member_impl(c):
        import bisect
        i = bisect.bisect_right(runs, (c, 0x7fffffff)) - 1
        return i >= 0 and runs[i][0] <= c <= runs[i][1]

    def member_table(c):
        return any(lo <= c <= hi for lo, hi in table)
    # the whole graph: maximal runs of the table (linear membership) against the extracted runs
    merged = []
    for lo, hi in sorted(table):
        if lo > hi:
            continue
        if merged and lo <= merged[-1][1] + 1:
            merged[-1][1] = max(merged[-1][1], hi)
        else:
            merged.append([lo, hi])
    merged = [tuple(m) for m in merged]
    npoints = out["to"] - out["from"] + 1
    chk.coverage["evaluations"] += npoints
    chk.dist("idrange:code-points", npoints)
    chk.coverage["idrange"] = {"code_points": npoints, "table_ranges": len(table), "member_runs": len(runs)}
    if replay is None and merged != runs:
        diff = sorted(set(merged) ^ set(runs))
        # a concrete code point
        cand = []
        for lo, hi in diff:
            cand += [lo, hi, lo - 1, hi + 1]
        bad = [c for c in cand if member_impl(c) != member_table(c)]
        c = bad[0] if bad else diff[0][0]
        chk.violation("IdInRange(U+%04X) = %s but the idRange table %s it (binary search and table disagree)" % (
            c, member_impl(c), "contains" if member_table(c) else "does not contain"), "idrange:lookup-differs",
            {"kind": "idrange", "cp": c, "expected": member_table(c), "observed": member_impl(c)})
    # the model of the binary search against the implementation on all range boundaries and random points
    if replay is None:
        pts = set()
        for lo, hi in table:
            pts.update([lo - 1, lo, hi, hi + 1])
        pts.update([-1, 0, 0xffff, 0x10000, 0x10ffff, 0x110000])
        for _ in range(300 if quick else 3000):
            pts.add(chk.rng.randrange(0, 0x110000) if chk.rng.random() < 0.3 else chk.rng.randrange(0, 0x10000))
        pts = sorted(pts)
    res = core.coq_run_cases("c04i", IMP_ID, "fun c => [match id_in_range gen_id_guard_max gen_id_range c with BTrue => 1 | BFalse => 0 "
                             "| BCrash => 2 | BOutOfFuel => 3 end; if linear gen_id_range c then 1 else 0]",
                             [str(c) if c >= 0 else "(%d)" % c for c in pts], shard=1000)
    for c, m in zip(pts, res):
        chk.count(["idrange", c])
        got = 1 if member_impl(c) else 0
        if m[0] != m[1]:
            chk.violation("binary search model and linear membership differ at U+%04X (model %d, table %d)" % (c, m[0], m[1]),
                          "idrange:lookup-differs", {"kind": "idrange", "cp": c, "expected": bool(m[1]), "observed": bool(got)},
                          no_input=(got == m[1]))
        elif got != m[1]:
            chk.violation("IdInRange(U+%04X) = %s but the idRange table says %s" % (c, bool(got), bool(m[1])),
                          "idrange:lookup-differs", {"kind": "idrange", "cp": c, "expected": bool(m[1]), "observed": bool(got)})


# ------------------------------------------------------------------------------------------------ the lexer's identifier alphabet

IMP_IDLEX = ("From Coq Require Import List ZArith Bool. Import ListNotations.\n"
             "From Zn.gen Require Import GenC04Tokens.\nFrom Zn.model Require Import Tokenize TokSpec TokDoc.\nOpen Scope Z_scope.\n"
             "Definition acc_plain (c : Z) : bool := match lex_impl [30002; c] with\n"
             "  | ([(ty, 0, 2, _); _], EEof) => ty =? g_TypeIdentifier | _ => false end.\n"
             "Definition acc_quoted (c : Z) : bool := match lex_impl [96; 30002; c; 96] with\n"
             "  | ([(ty, 0, 4, lit); _], EEof) => (ty =? g_TypeIdentifier) && (Z.of_nat (length lit) =? 2) | _ => false end.\n"
             "Definition run_step (acc : Z -> bool) (s : Z * list Z * Z) : Z * list Z * Z := let '(c, runs, start) := s in\n"
             "  if acc c then (c + 1, runs, if start <? 0 then c else start)\n"
             "  else (c + 1, (if start <? 0 then runs else (c - 1) :: start :: runs), -1).\n"
             "Definition runs_of (acc : Z -> bool) (lo : Z) (n : positive) : list Z :=\n"
             "  let '(c, runs, start) := Pos.iter (run_step acc) (lo, [], -1) n in rev (if start <? 0 then runs else (c - 1) :: start :: runs).\n")


def run_idlex(chk, quick, replay):
    """the identifier alphabet as the LEXER sees it (isIdentifierChar and its callers), for every code point: 甲c is one
    identifier / `甲c` is one quoted identifier — against the lexer model evaluated in Coq"""
    if replay is not None:
        spans = [(replay["cp"], replay["cp"])]
    else:
        spans = [(k * 0x4000, k * 0x4000 + 0x3fff) for k in range(0x110000 // 0x4000)]
        if quick:
            # the Basic Multilingual Plane completely (the table ends at U+FFDC), the other planes by their first block
            spans = [sp for sp in spans if sp[0] < 0x10000 or sp[0] % 0x10000 == 0]
    outs = core.harness("c04", "idlex", [{"lo": a, "hi": b, "timeout_ms": 60000} for a, b in spans], timeout_ms=60000)
    terms = ["(%d, %d%%positive)" % (a, b - a + 1) for a, b in spans]
    res = core.coq_run_cases("c04x", IMP_IDLEX, "fun p => [runs_of acc_plain (fst p) (snd p); runs_of acc_quoted (fst p) (snd p)]",
                             terms, shard=4, timeout=1200)

    def members(flat_or_runs, flat):
        if flat:
            it = list(zip(flat_or_runs[0::2], flat_or_runs[1::2]))
        else:
            it = [tuple(r) for r in flat_or_runs]
        return it
    for (a, b), o, m in zip(spans, outs, res):
        chk.count(["idlex", a, b])
        chk.dist("idlex:code-points", b - a + 1)
        if "plain" not in o:
            chk.violation("the lexer does not return normally on 甲+U+%04X..U+%04X: %s" % (a, b, json.dumps(o)[:160]), "idlex:abnormal",
                          {"kind": "idlex", "cp": a, "observed": o})
            continue
        for which, mi in (("plain", 0), ("quoted", 1)):
            got = set()
            for x, y in members(o[which], False):
                got.update(range(x, y + 1))
            want = set()
            for x, y in members(m[mi], True):
                want.update(range(x, y + 1))
            diff = sorted(got ^ want)
            if diff:
                c = diff[0]
                form = "甲%s" % chr(c) if which == "plain" else "`甲%s`" % chr(c)
                chk.violation("U+%04X %s the identifier alphabet for the lexer (%s is %sone identifier token) but the documented alphabet "
                              "(the idRange table + the documented extra characters, as the lexer model has it) says the opposite; "
                              "%d code points differ in U+%04X..U+%04X" % (c, "is in" if c in got else "is not in", form,
                                                                          "" if c in got else "not ", len(diff), a, b),
                              "idlex:%s-differs" % which, {"kind": "idlex", "cp": c, "form": which, "expected": c in want, "observed": c in got,
                                                           "replay_cmd": "./check C04 --replay <this file>"})
                break


# ------------------------------------------------------------------------------------------------ tokens

IMP_TOK = ("From Coq Require Import List ZArith Bool. Import ListNotations.\n"
           "From Zn.model Require Import Tokenize TokSpec TokDoc.\n")
KEYWORDS = ["令", "为", "以", "其", "或", "且", "之", "的", "设为", "恒为", "新建", "何为", "不为", "如果", "再如", "输出", "如何", "拦截", "导入",
            "定义", "得到", "输入", "否则", "每当", "遍历", "等于", "大于", "小于", "抛出", "不等于", "不大于", "不小于", "继续循环", "结束循环"]
GLYPHS = sorted(set("".join(KEYWORDS) + "注取对成是"))
LETTERS = ("甲乙丙丁戊己庚辛壬癸子丑寅卯价格数量手机游所温度单位" "abcxyzABCXYZ" "αβγλπΩ" "あいうえおカタカナ" "한글가나다" "éñöß")
PUNCT = "，、：；？！【】（）{},:;?!()"
QUOTES = "“”「」‘’『』《》"
SPACES = [" ", "\t", "　", " "]


def gen_text(rng):
    parts = []
    n = rng.choice([1, 2, 3, 4, 6, 9])
    for _ in range(n):
        k = rng.random()
        if k < 0.22:
            parts.append(rng.choice(KEYWORDS))
        elif k < 0.32:
            kw = rng.choice([w for w in KEYWORDS if len(w) > 1])
            parts.append(kw[:rng.randrange(1, len(kw))])           # a keyword cut short
        elif k < 0.40:
            parts.append("".join(rng.choice(GLYPHS) for _ in range(rng.randrange(1, 4))))
        elif k < 0.62:
            parts.append("".join(rng.choice(LETTERS) for _ in range(rng.randrange(1, 4))))
        elif k < 0.72:
            parts.append(gen_number(rng) if rng.random() < 0.5 else str(rng.randrange(0, 1000)))
        elif k < 0.84:
            parts.append(rng.choice("+-*/.%_") * rng.choice([1, 1, 1, 2]))
        elif k < 0.90:
            body = "".join(rng.choice(LETTERS + "".join(KEYWORDS) + "+-*/.%_12") for _ in range(rng.randrange(0, 6)))
            parts.append("`" + body + ("`" if rng.random() < 0.85 else ""))
        elif k < 0.94:
            parts.append(rng.choice(SPACES))
        elif k < 0.97:
            parts.append(rng.choice(PUNCT))
        elif k < 0.985:
            parts.append(rng.choice("=<>|&@#"))
        elif k < 0.995:
            parts.append(rng.choice(QUOTES))
        else:
            parts.append(rng.choice(["注", "注1", "注12：", "😊", "＋", "​", "$"]))
    s = "".join(parts)
    if s[:1] in (" ", "\t"):
        s = "甲" + s
    return s


def systematic_texts():
    out = []
    for a in GLYPHS:                       # every pair of keyword glyphs, embedded in a name
        for b in GLYPHS:
            out.append("甲" + a + b + "乙")
    longs = [w for w in KEYWORDS if len(w) >= 3]
    for w in longs:                        # every single-glyph deviation from the long keywords
        for i in range(len(w)):
            for g in GLYPHS + ["x"]:
                out.append(w[:i] + g + w[i + 1:] + "丙")
        for i in range(1, len(w) + 1):
            out.append("丁" + w[:i])
    for op in "+-*/%":
        for nxt in [" ", "，", "“", "A", "1", "为", "", "=", "/", "*", "`", "+"]:
            out.append("A " + op + nxt + "B")
            out.append("A" + op + nxt)
            out.append(op + nxt + "B")
    return out


def impl_obs(o):
    """same encoding as Tokenize.encode_lex"""
    if "tokens" not in o:
        return None
    if o["end"] == "eof":
        head = [0, 0]
    elif o["end"] == "error":
        head = [1, o["err"].get("cursor", -1)] if o["err"].get("code") == 25 else [9, o["err"].get("code", -1)]
    else:
        head = [8, 0]
    return [head] + [[t[0], t[1], t[2]] + t[3] for t in o["tokens"]]


def describe(s, imp, mod):
    def toks(x):
        return " ".join("%d@%d-%d%s" % (t[0], t[1], t[2], ("'" + text(t[3:]) + "'") if len(t) > 3 else "") for t in x[1:])
    return "text %r: zh.NextToken gives [%s] end=%s; documented segmentation gives [%s] end=%s" % (
        s, toks(imp), imp[0], toks(mod), mod[0])


def tok_signature(s, imp, mod):
    # first differing token
    for a, b in zip(imp[1:], mod[1:]):
        if a != b:
            if a[0] != b[0]:
                return "tokens:type-%d-for-%d" % (a[0], b[0])
            if a[1:3] != b[1:3]:
                return "tokens:span-of-type-%d" % b[0]
            return "tokens:literal-of-type-%d" % b[0]
    if imp[0] != mod[0]:
        return "tokens:end-%d-for-%d" % (imp[0][0], mod[0][0])
    return "tokens:count"


def run_tokens(chk, quick, corpus, replay):
    rng = chk.rng
    if replay is not None:
        texts = [text(replay["cps"])]
    else:
        texts = [c["text"] if "text" in c else text(c["cps"]) for c in corpus if c.get("kind") == "tokens"]
        sysm = systematic_texts()
        chk.dist("tokens:systematic", len(sysm))
        texts += sysm
        N = 1200 if quick else 20000
        for _ in range(N):
            texts.append(gen_text(rng))
        chk.dist("tokens:generated", N)
    outs = core.harness("c04", "tokens", [{"cps": cps(s)} for s in texts])
    # documented lexer (spec) and the lexer over the regenerated parseKeyword tree (implementation model), both inside Coq
    docs = core.coq_run_cases("c04k", IMP_TOK, "fun s => encode_lex (lex_doc s)", [core.zlist(cps(s)) for s in texts], shard=400)
    # the second model is only needed to explain a disagreement
    suspects = [i for i, (o, m) in enumerate(zip(outs, docs)) if impl_obs(o) != m]
    impls = {}
    if suspects:
        res = core.coq_run_cases("c04j", IMP_TOK, "fun s => encode_lex (lex_impl s)", [core.zlist(cps(texts[i])) for i in suspects], shard=400)
        impls = dict(zip(suspects, res))
    both = [(m, impls.get(i, m)) for i, m in enumerate(docs)]
    shown = 0
    expect = {}
    for c in corpus:
        if c.get("kind") == "tokens" and "expect" in c:
            expect[c["text"] if "text" in c else text(c["cps"])] = c["expect"]
    for s, o, mm in zip(texts, outs, both):
        m, mi = mm
        chk.count(["tokens", s], nontrivial=len(s) > 1)
        imp = impl_obs(o)
        if imp is None and m[0][0] == 2:
            # abnormal behaviour inside a construct the model does not cover (string literal, 注…： comment, line break):
            # not C04's subject (C05/C10), recorded but not judged here
            chk.dist("tokens:abnormal-outside-model")
            if len(chk.coverage.setdefault("not_judged", [])) < 5:
                chk.coverage["not_judged"].append({"text": s, "observed": o})
            continue
        if imp is None:
            chk.violation("zh.NextToken does not return normally on %r: %s" % (s, json.dumps(o, ensure_ascii=False)[:150]),
                          "tokens:abnormal", {"kind": "tokens", "cps": cps(s), "text": s, "observed": o})
            continue
        endk = m[0][0]
        chk.dist("tokens:end-" + {0: "eof", 1: "invalid-char", 2: "unsupported(prefix compared)", 3: "hang", 4: "out-of-fuel"}.get(endk, "?"))
        chk.dist("tokens:count", len(m) - 1)

        def agrees(mod):
            k = mod[0][0]
            if k == 2:
                ok = imp[1:1 + len(mod) - 1] == mod[1:]
                # an error raised by the unmodelled part aborts the whole stream, hiding the tokens before it
                return ok or (imp[0][0] in (1, 9) and len(imp) == 1)
            if k in (3, 4):
                return False
            return imp == mod
        if shown < 3 and len(m) > 3 and endk == 0:
            shown += 1
            chk.sample({"text": s, "tokens": m[1:]})
        if s in expect:
            want = [list(t) for t in expect[s]]
            got = [t[:3] for t in imp[1:]]
            if got != want:
                chk.violation("documented example %r: tokens (type,start,end) %s, the manual prescribes %s" % (s, got, want),
                              "tokens:documented-example", {"kind": "tokens", "cps": cps(s), "text": s, "expected": want, "observed": got})
                continue
        if agrees(m):
            continue
        if agrees(mi) and m != mi:
            what = "keywords not cut as documented; " + describe(s, imp, m)
        elif m == mi:
            what = describe(s, imp, m)
        else:
            what = "implementation, documented lexer and regenerated-tree lexer all differ; " + describe(s, imp, m)
        chk.violation(what, tok_signature(s, imp, m),
                      {"kind": "tokens", "cps": cps(s), "text": s, "expected": m, "observed": imp, "model_with_regenerated_tree": mi,
                       "replay_cmd": "./check C04 --replay <this file>"})


# ------------------------------------------------------------------------------------------------ entry

def load_corpus():
    p = os.path.join(core.VERIF, "corpus", "C04", "cases.json")
    if os.path.exists(p):
        return json.load(open(p, encoding="utf8"))
    return []


def run(chk, replay=None):
    quick = chk.tier == "quick"
    corpus = load_corpus()
    if not PRE["ok"]:
        chk.violation("source translation (T1) could not run: " + PRE["why"][:300], "translator", {"kind": "tie", "detail": PRE["why"]},
                      no_input=True)
    kind = replay.get("kind") if replay is not None else None
    if kind in (None, "num"):
        run_numbers(chk, quick, corpus, replay)
    if kind in (None, "idrange"):
        run_idrange(chk, quick, replay)
    if kind in (None, "idlex"):
        run_idlex(chk, quick, replay)
    if kind in (None, "tokens"):
        run_tokens(chk, quick, corpus, replay)
    if PRE["why"] and PRE["ok"]:
        chk.notes.append(PRE["why"])
    chk.coverage["rule"] = (
        "numeric: every string of length <= 6 (quick) / 7 (thorough) over {0,1,2,+,-,.,e,E,*,^,x} through exec.MatchIDType "
        "(classification; lengths <= 4/5 re-evaluated by classify_doc inside Coq, longer ones by a regex pre-filter whose "
        "disagreements are re-evaluated in Coq), plus seeded spellings up to ~60 characters (45% mutated) with the value compared "
        "to the correctly rounded double; idrange: IdInRange on every code point -16..0x11000F against the regenerated table, and "
        "the binary-search model on all range boundaries; idlex: for every code point c of the BMP and the first block of every other plane "
        "(thorough: all 0x110000) whether 甲c / `甲c` is one identifier token for zh.NextToken against the lexer model evaluated in Coq; tokens: corpus, all pairs of keyword glyphs, all one-glyph deviations "
        "of the 3/4-glyph keywords, operator/follower matrix, and seeded unspaced texts (keywords, cut keywords, CJK/Latin/Greek/"
        "kana/hangul letters, numbers, + - * / . % _, backtick names, occasional space/punctuation/quote); distinct = distinct inputs; "
        "non-trivial = non-empty numeric spelling / text longer than one character")
