# C16 — Executions are isolated from one another.
import json
from vlib import core

HARNESS = "c16"
CLAIM = dict(
    category="proof",
    text=("PARTIAL (no claim about the Go memory model). Theorems (coq/props/C16.v, closed under the global context) on a process-level "
          "model (coq/model/Isolation.v): for all sequences P1;...;Pn;Q the observations of Q equal those of Q alone from the pristine "
          "state — whatever the Pi do to the predefined values (自增/自减 on 数值, 如何新建异常？), declare, import or leave unfinished "
          "(induction over the sequence); for ALL interleavings of any number of request handlers over one shared interpreter object every "
          "request executes its own source (invariant over schedules); the pinned behaviour is refuted on both counts by explicit witnesses. "
          "Tie: every run executes generated polluter sequences in one process (shared and separate interpreter objects) and compares the "
          "probe's outcome with the model evaluated in Coq and with the probe run alone in a fresh process; replays the model's schedules at "
          "method granularity (LoadScript / Execute) on a shared interpreter; and drives real concurrent requests through the playground "
          "HTTP handler (thorough tier additionally under the Go race detector, as supporting evidence only)."),
    note=("Coq 8.16.1 kernel and vm_compute; hand-written abstract model of what executions share (predefined values, the interpreter's "
          "finder field), tied to /repo by the per-run correspondence; 'free of data races' in the sense of the Go memory model is not "
          "expressible in the model: the race detector run is supporting evidence, not proof; the types a library exports (the harness "
          "registers @HTTP with pkg/common's HTTP请求 / HTTP响应 the way stdlib/http does, which does not compile in this tree) are not in "
          "the model: for them the check compares a probe's outcome after generated polluters (in-place and assigning updates of every "
          "property of objects built from those types, constructors defined for them) with its outcome alone, through shared and "
          "separate interpreter objects; the same comparison is made for file-based executions whose module files are rewritten between "
          "runs and for input-variable texts (evaluated before every execution) that take the predefined values."),
    technique="Coq proof (induction over program sequences; invariant over all handler interleavings) + in-process polluter/interleaving correspondence",
    design="5/C16")

IMPORTS = "From Coq Require Import List ZArith Bool. Import ListNotations.\nFrom Zn.model Require Import Isolation."


# ---- abstract ops <-> Zn text
def render(ops):
    """-> (program text, number of observations it produces)"""
    head, body = [], []
    uses = set()
    for o in ops:
        k = o[0]
        if k == "redefine":
            head += ["如何新建异常？", "    输入M", "    空", ""]
        elif k == "add":
            body.append("（显示：{以数值（自增：%d）}）" % o[1])
        elif k == "read":
            body.append("（显示：数值）")
        elif k == "throw":
            if "试" not in uses:
                uses.add("试")
                head += ["如何试？", "    抛出异常：“m”！", "    拦截异常：", "        输出其内容", ""]
            body.append("（显示：（试））")
        elif k == "declare":
            body.append("令N%s = 1" % chr(ord("a") + o[1]))
        elif k == "use":
            nm = "N%s" % chr(ord("a") + o[1])
            fn = "用%s" % chr(ord("a") + o[1])
            if fn not in uses:
                uses.add(fn)
                head += ["如何%s？" % fn, "    输出%s" % nm, "    拦截异常：", "        输出42", ""]
            body.append("（显示：（%s））" % fn)
        elif k == "fail":
            if "败" not in uses:
                uses.add("败")
                head += ["如何败？", "    输出1 / 0", ""]
            body.append("（败）")
    return "\n".join(head + body) + "\n"


def coq_op(o):
    k = o[0]
    return {"redefine": "OExcRedefine 7", "add": "ONumSelfAdd %d" % (o[1] if len(o) > 1 else 0), "read": "ONumRead",
            "throw": "OExcThrowCatch", "declare": "ODeclare %d" % (o[1] if len(o) > 1 else 0),
            "use": "OUse %d" % (o[1] if len(o) > 1 else 0), "fail": "OFail"}[k]


def observe(ops, out):
    """implementation observations of one program, in the model's vocabulary"""
    disp = ["".join(chr(c) for c in l) for l in out.get("display", [])]
    obs = []
    di = 0
    for o in ops:
        k = o[0]
        if k in ("redefine", "declare"):
            obs.append(0)
            continue
        if k == "fail":
            e = out.get("err") or {}
            obs.append(90 if out.get("kind") == "error" else -1)
            continue
        if di >= len(disp):
            obs.append(None)
            continue
        t = disp[di]
        di += 1
        if k in ("add", "read"):
            try:
                obs.append(int(float(t)))
            except ValueError:
                obs.append(None)
        elif k == "throw":
            obs.append(1 if t == "m" else 9)
        elif k == "use":
            obs.append(1 if t == "1" else (42 if t == "42" else None))
    # a redefined constructor makes the throw probe end the program with an error: nothing more is displayed
    return obs


def norm_model(ops, mobs):
    out = []
    for o, m in zip(ops, mobs):
        if o[0] == "throw":
            out.append(1 if m == 1 else 9)
        else:
            out.append(m)
    return out


def gen_prog(rng, polluter):
    ops = []
    if polluter and rng.random() < 0.4:
        ops.append(("redefine",))
    for _ in range(rng.randrange(1, 5)):
        k = rng.random()
        if polluter:
            if k < 0.4:
                ops.append(("add", rng.randrange(1, 9)))
            elif k < 0.6:
                ops.append(("declare", rng.randrange(0, 4)))
            elif k < 0.8:
                ops.append(("read",))
            else:
                ops.append(("use", rng.randrange(0, 4)))
        else:
            ops.append(rng.choice([("read",), ("throw",), ("use", rng.randrange(0, 4)), ("add", rng.randrange(1, 5)), ("read",)]))
    if polluter and rng.random() < 0.3:
        ops.append(("fail",))
    return ops


# ---- library objects: the types a library exports are process-wide values; what one execution does to an object it
# built from them (or to what the object's properties hold) must not show in an object another execution builds
LIB_CTORS = {
    "HTTP响应": ["（新建HTTP响应：200、“你好”）", "（新建HTTP响应：404、【“a” = 1】）", "（新建HTTP响应：200、【1，2】）",
               "（新建HTTP响应：500、12）", "（新建HTTP响应：200、“x”、【“H” = “v”】）"],
    "HTTP请求": ["（新建HTTP请求：“GET”、“http://a”）", "（新建HTTP请求：“POST”、“http://a”、“b=1”）",
               "（新建HTTP请求：“POST”、“http://a”、【“k” = 【1】】）"],
}
LIB_PROPS = {"HTTP响应": ["状态码", "头部", "内容"], "HTTP请求": ["URL", "路径", "方法", "头部", "查询参数", "内容"]}
LIB_DICTS = {"HTTP响应": ["头部"], "HTTP请求": ["头部", "查询参数"]}
LIB_NUMS = {"HTTP响应": ["状态码"], "HTTP请求": []}


def lib_probe(rng):
    cls = rng.choice(sorted(LIB_CTORS))
    lines = ["导入《@HTTP》", "", "令甲 = %s" % rng.choice(LIB_CTORS[cls])]
    for pn in LIB_PROPS[cls]:
        lines.append("（显示：甲之%s）" % pn)
    lines.append("输出甲之%s" % rng.choice(LIB_PROPS[cls]))
    return "\n".join(lines) + "\n"


def lib_polluter(rng):
    cls = rng.choice(sorted(LIB_CTORS))
    lines = ["导入《@HTTP》", ""]
    r0 = rng.random()
    params = "甲、乙" if cls == "HTTP响应" else "甲、乙、丙"
    if r0 < 0.2:
        # the program gives the library's type a constructor of its own
        lines += ["如何新建%s？" % cls, "    输入%s" % params, "    其%s = %s" % (rng.choice(LIB_PROPS[cls]), rng.choice(["“占”", "999"])), ""]
    elif r0 < 0.35:
        # ... under another name: the type handed to a method as an argument
        lines += ["如何改？", "    输入型", "    如何新建型？", "        输入%s" % params,
                  "        其%s = %s" % (rng.choice(LIB_PROPS[cls]), rng.choice(["“占”", "999"])), "    输出1", "", "（改：%s）" % cls]
    lines.append("令乙 = %s" % rng.choice([c for c in LIB_CTORS[cls] if c.count("、") == (1 if cls == "HTTP响应" else 2)] or LIB_CTORS[cls]))
    for _ in range(rng.randrange(1, 5)):
        k = rng.randrange(6)
        if k == 0 and LIB_DICTS[cls]:
            lines.append("乙之%s#“%s” = “%s”" % (rng.choice(LIB_DICTS[cls]), rng.choice(["Set-Cookie", "Content-Type", "X"]), rng.choice(["s=1", "t"])))
        elif k == 1 and LIB_DICTS[cls]:
            lines.append("以乙之%s（写入：“%s”、%d）" % (rng.choice(LIB_DICTS[cls]), rng.choice(["K", "Content-Type"]), rng.randrange(9)))
        elif k == 2 and LIB_DICTS[cls]:
            lines.append("以乙之%s（移除：“Content-Type”）" % rng.choice(LIB_DICTS[cls]))
        elif k == 3 and LIB_NUMS[cls]:
            lines.append("以乙之%s（自增：%d）" % (rng.choice(LIB_NUMS[cls]), rng.randrange(1, 9)))
        elif k == 4:
            lines.append("乙之%s = %s" % (rng.choice(LIB_PROPS[cls]), rng.choice(["“改”", "7", "【“z” = 1】"])))
        else:
            lines.append("（显示：乙之%s）" % rng.choice(LIB_PROPS[cls]))
    if rng.random() < 0.2:
        lines.append("输出1 / 0")
    return "\n".join(lines) + "\n"


def run_lib_objects(chk, n, replay=None):
    rng = chk.rng
    cases = []
    if replay is not None:
        cases = [(replay["polluter_texts"], replay["probe_text"])]
    else:
        for _ in range(n):
            cases.append(([lib_polluter(rng) for _ in range(rng.randrange(1, 4))], lib_probe(rng)))
    for shared in (True, False):
        # every sequence and every lone probe in a process of its own (a leak would otherwise travel from case to case)
        seqs = [core.harness("c16", "seq", [{"progs": ps + [q], "shared": shared}])[0] for ps, q in cases]
        alone = [core.harness("c16", "seq", [{"progs": [q], "shared": shared}])[0] for ps, q in cases]
        for (ps, q), o, a in zip(cases, seqs, alone):
            chk.count(["libseq", shared, ps, q])
            chk.dist("libobj:%s" % ("shared-interpreter" if shared else "separate-interpreters"))
            if "outs" not in o or "outs" not in a:
                chk.violation("execution sequence with library objects crashed the process: %s" % json.dumps(o)[:200], "libobj:crash",
                              {"kind": "libobj", "polluter_texts": ps, "probe_text": q, "observed": o})
                continue
            got, ref = o["outs"][-1], a["outs"][0]
            if got != ref:
                def show(x):
                    return ["".join(chr(c) for c in l) for l in x.get("display", [])]
                chk.violation("the outcome of a program that builds a library object depends on the programs executed before it in the same "
                              "process: after %s the probe %s displays %s, alone %s"
                              % (json.dumps(ps, ensure_ascii=False)[:260], json.dumps(q, ensure_ascii=False)[:160], show(got), show(ref)),
                              "libobj:polluted", {"kind": "libobj", "polluter_texts": ps, "probe_text": q, "shared_interpreter": shared,
                                                  "observed": got, "alone": ref, "replay_cmd": "./check C16 --replay <this file>"})


# ---- module files: what an import yields is a function of the files as they are when the execution runs, not of what earlier
# executions in the process imported
def file_history(rng):
    """-> list of steps; the LAST step is the probe run, the steps before it write / rewrite module files and run polluters"""
    mods = rng.sample(["价目", "工具", "库/深"], rng.randrange(1, 3))

    def module_text(ver):
        lines = ["如何取值？", "    输出%d * 2" % ver, ""]
        if rng.random() < 0.5:
            lines += ["定义物：", "    其量 = %d" % (ver + 1), "", "    如何报？", "        输出其量", ""]
        return "\n".join(lines) + "\n"

    def main_text():
        lines = []
        for m in mods:
            lines.append("导入“%s”" % m.replace("/", "-"))
        lines.append("（显示：（取值））")
        lines.append("输出（取值）")
        return "\n".join(lines) + "\n"
    steps = [{"write": {m + ".zn": module_text(rng.randrange(1, 50)) for m in mods}}]
    steps[0]["write"]["主.zn"] = main_text()
    steps[0]["write"]["探.zn"] = main_text()
    for _ in range(rng.randrange(1, 4)):
        steps.append({"run": "主.zn"})
        if rng.random() < 0.8:
            steps.append({"write": {rng.choice(mods) + ".zn": module_text(rng.randrange(50, 99))}})
    steps.append({"run": "探.zn"})
    return steps


def run_file_histories(chk, n, replay=None):
    rng = chk.rng
    hists = [replay["steps"]] if replay is not None else [file_history(rng) for _ in range(n)]
    for shared in (True, False):
        full = [core.harness("c16", "fileseq", [{"steps": h, "shared": shared}])[0] for h in hists]
        # the probe alone, in a fresh process, on the files as they are at the end
        alone = []
        for h in hists:
            files = {}
            for st in h:
                files.update(st.get("write", {}))
            alone.append({"steps": [{"write": files}, h[-1]], "shared": shared})
        ref = [core.harness("c16", "fileseq", [a])[0] for a in alone]
        for h, o, a in zip(hists, full, ref):
            chk.count(["fileseq", shared, h])
            chk.dist("module-files:%s" % ("shared-interpreter" if shared else "separate-interpreters"))
            if "outs" not in o or "outs" not in a or not o["outs"] or not a["outs"]:
                chk.violation("file-based execution sequence crashed the process: %s" % json.dumps(o)[:200], "files:crash",
                              {"kind": "files", "steps": h, "observed": o})
                continue
            got, want = o["outs"][-1], a["outs"][-1]
            if got != want:
                chk.violation("what an execution imports depends on earlier executions in the process: after the history %s the probe gives %s, "
                              "alone on the same files %s" % (json.dumps(h, ensure_ascii=False)[:300], json.dumps(got, ensure_ascii=False)[:120],
                                                              json.dumps(want, ensure_ascii=False)[:120]),
                              "files:stale-import", {"kind": "files", "steps": h, "shared_interpreter": shared, "observed": got, "alone": want,
                                                     "replay_cmd": "./check C16 --replay <this file>"})


# ---- input-variable texts: evaluated before every execution (command line, playground); they see the predefined values too
def var_item(rng, polluter):
    if polluter:
        k = rng.randrange(4)
        if k == 0:
            return {"vars": "甲 = 数值", "src": "输入甲\n以甲（自增：%d）\n输出甲\n" % rng.randrange(1, 9)}
        if k == 1:
            return {"vars": "甲 = 以数值（自减：%d）" % rng.randrange(1, 9), "src": "输入甲\n输出甲\n"}
        if k == 2:
            return {"vars": "甲 = 数值\n乙 = 【数值，2】", "src": "输入甲、乙\n以乙#1（自增：7）\n输出乙\n"}
        return {"vars": "甲 = 3", "src": "输入甲\n以数值（自增：%d）\n输出数值\n" % rng.randrange(1, 9)}
    return rng.choice([{"vars": "乙 = 数值 + 1", "src": "输入乙\n输出乙\n"},
                       {"vars": "乙 = 数值", "src": "输入乙\n（显示：乙、数值）\n输出乙\n"},
                       {"vars": "乙 = 【数值】", "src": "输入乙\n输出乙\n"}])


def run_var_inputs(chk, n, replay=None):
    rng = chk.rng
    cases = [replay["items"]] if replay is not None else [[var_item(rng, True) for _ in range(rng.randrange(1, 4))] + [var_item(rng, False)] for _ in range(n)]
    for shared in (True, False):
        for items in cases:
            o = core.harness("c16", "varseq", [{"items": items, "shared": shared}])[0]
            a = core.harness("c16", "varseq", [{"items": [items[-1]], "shared": shared}])[0]
            chk.count(["varseq", shared, items])
            chk.dist("input-texts:%s" % ("shared-interpreter" if shared else "separate-interpreters"))
            if "outs" not in o or "outs" not in a:
                chk.violation("execution sequence with input-variable texts crashed the process: %s" % json.dumps(o)[:200], "vars:crash",
                              {"kind": "vars", "items": items, "observed": o})
                continue
            if o["outs"][-1] != a["outs"][-1]:
                chk.violation("what an input-variable text (and the program run with it) yields depends on earlier executions in the process: "
                              "after %s the probe %s gives %s, alone %s" % (json.dumps(items[:-1], ensure_ascii=False)[:260],
                                                                            json.dumps(items[-1], ensure_ascii=False)[:120],
                                                                            json.dumps(o["outs"][-1], ensure_ascii=False)[:100],
                                                                            json.dumps(a["outs"][-1], ensure_ascii=False)[:100]),
                              "vars:polluted", {"kind": "vars", "items": items, "shared_interpreter": shared, "observed": o["outs"][-1],
                                                "alone": a["outs"][-1], "replay_cmd": "./check C16 --replay <this file>"})


def pg_body(rng, probe):
    """one playground request body; members may be left out (the handler then works with the empty text)"""
    vi = rng.choice([None, None, "", "库存 = 7", "库存 = 3\n甲 = 2", "甲 = 1 / 0", "库存 = 【1，2】"])
    sc = rng.choice([None, "输入库存\n输出 库存 * 10", "输出 1 + 1", "输出 “p%d”" % rng.randrange(9), "输入库存、甲\n输出 库存 + 甲", "输出 1 /"])
    if probe and rng.random() < 0.7:
        # the probe leaves out what an earlier request carried
        if rng.random() < 0.5:
            vi = None
        else:
            sc = None
    d = {}
    if vi is not None:
        d["VarInput"] = vi
    if sc is not None:
        d["SourceCode"] = sc
    body = json.dumps(d, ensure_ascii=False)
    if rng.random() < 0.05:
        body = rng.choice(["", "{", "[]", "null", "{\"SourceCode\": 5}"])
    return body


def run_playground_sequences(chk, n, replay=None):
    rng = chk.rng
    cases = [replay["bodies"]] if replay is not None else [[pg_body(rng, False) for _ in range(rng.randrange(1, 4))] + [pg_body(rng, True)] for _ in range(n)]
    for shared in (True, False):
        for bodies in cases:
            o = core.harness("c16", "pgseq", [{"bodies": bodies, "shared": shared}])[0]
            a = core.harness("c16", "pgseq", [{"bodies": [bodies[-1]], "shared": shared}])[0]
            chk.count(["pgseq", shared, bodies])
            chk.dist("playground-requests:%s" % ("one-handler" if shared else "handler-per-request"))
            if "outs" not in o or "outs" not in a:
                chk.violation("a sequence of playground requests crashed the process: %s" % json.dumps(o)[:200], "playground:crash",
                              {"kind": "playground", "bodies": bodies, "observed": o})
                continue
            if o["outs"][-1] != a["outs"][-1]:
                chk.violation("the answer to a playground request depends on earlier requests of the process: after %s the request %s is "
                              "answered %s, alone %s" % (json.dumps(bodies[:-1], ensure_ascii=False)[:260], bodies[-1][:120],
                                                         json.dumps(o["outs"][-1], ensure_ascii=False)[:120],
                                                         json.dumps(a["outs"][-1], ensure_ascii=False)[:120]),
                              "playground:polluted", {"kind": "playground", "bodies": bodies, "one_handler": shared, "observed": o["outs"][-1],
                                                      "alone": a["outs"][-1], "replay_cmd": "./check C16 --replay <this file>"})


def truncate_after_error(ops, obs):
    """a program stops at its first uncaught error: later operations produce no observation"""
    return obs


def run(chk, replay=None):
    rng = chk.rng
    quick = chk.tier == "quick"
    if replay is not None and replay.get("kind") == "libobj":
        run_lib_objects(chk, 0, replay)
        return
    if replay is not None and replay.get("kind") == "files":
        run_file_histories(chk, 0, replay)
        return
    if replay is not None and replay.get("kind") == "vars":
        run_var_inputs(chk, 0, replay)
        return
    if replay is not None and replay.get("kind") == "playground":
        run_playground_sequences(chk, 0, replay)
        return
    nseq = 60 if quick else 600
    seqs = []
    # witnesses of the catalogue first
    seqs.append(([[("add", 5)]], [("read",)]))
    seqs.append(([[("redefine",), ("read",)]], [("throw",)]))
    seqs.append(([[("declare", 0), ("fail",)]], [("use", 0), ("read",)]))
    if replay is not None:
        seqs = [(replay["polluters"], replay["probe"])]
        nseq = 0
    for _ in range(nseq):
        ps = [gen_prog(rng, True) for _ in range(rng.randrange(1, 4))]
        seqs.append((ps, gen_prog(rng, False)))
    # model: probe's observations (repaired semantics) and the pinned prediction, evaluated in Coq
    terms = []
    for ps, q in seqs:
        progs = "[" + ";".join("[" + ";".join(coq_op(o) for o in p) + "]" for p in ps + [q]) + "]"
        terms.append(progs)
    run_fn = ("fun progs => [last (run_sequence execute g0 progs) []; last (run_sequence execute_pinned g0 progs) []]")
    model = core.coq_run_cases("c16s", IMPORTS, run_fn, terms, case_ty="list (list op)")
    for shared in (True, False):
        for (ps, q), m in zip(seqs, model):
            texts = [render(p) for p in ps] + [render(q)]
            # each sequence in its own process
            out = core.harness("c16", "seq", [{"progs": texts, "shared": shared}])[0]
            alone = core.harness("c16", "seq", [{"progs": [texts[-1]], "shared": shared}])[0]
            chk.count(["seq", shared, texts])
            chk.dist("seq:%s" % ("shared-interpreter" if shared else "separate-interpreters"))
            if "outs" not in out or "outs" not in alone:
                chk.violation("execution sequence crashed the process: %s" % json.dumps(out)[:200], "seq:crash",
                              {"kind": "sequence", "polluters": ps, "probe": q, "observed": out})
                continue
            got = observe(q, out["outs"][-1])
            ref = observe(q, alone["outs"][0])
            want = norm_model(q, m[0])
            n = min(len(got), len(want))
            # a probe that ends early (uncaught error) yields a prefix: compare what both define
            if got != ref or [g for g in got if g is not None][:n] != [w for w in want][:len([g for g in got if g is not None])]:
                pinned = norm_model(q, m[1])
                chk.violation("the outcome of a program depends on the programs executed before it in the same process: after %s the probe %s observes %s, alone %s (model: %s; pinned-behaviour model predicts %s)"
                              % (json.dumps([render(p) for p in ps], ensure_ascii=False)[:160], json.dumps(render(q), ensure_ascii=False)[:120], got, ref, want, pinned),
                              "seq:polluted:" + ("number" if any(o[0] in ("add",) for p in ps for o in p) and any(o[0] in ("read", "add") for o in q) else
                                                  ("constructor" if any(o[0] == "redefine" for p in ps for o in p) else "other")),
                              {"kind": "sequence", "polluters": ps, "probe": q, "shared_interpreter": shared, "texts": texts,
                               "observed": got, "alone": ref, "model": want, "replay_cmd": "./check C16 --replay <this file>"})
    if replay is not None:
        return
    run_lib_objects(chk, 60 if quick else 800)
    run_file_histories(chk, 25 if quick else 400)
    run_var_inputs(chk, 25 if quick else 400)
    run_playground_sequences(chk, 25 if quick else 300)
    chk.sample({"polluters": [render(p) for p in seqs[3][0]] if len(seqs) > 3 else [], "probe": render(seqs[-1][1])})
    # interleavings over one shared interpreter, replayed at method granularity
    nsch = 60 if quick else 600
    scheds = [[("load", 0), ("load", 1), ("exec", 0), ("exec", 1)]]
    for _ in range(nsch):
        n = rng.randrange(2, 5)
        pending = []
        for i in range(n):
            pending.append([("load", i), ("exec", i)])
        sched = []
        while any(pending):
            j = rng.choice([k for k, p in enumerate(pending) if p])
            sched.append(pending[j].pop(0))
        scheds.append(sched)
    terms = ["[" + ";".join(("HLoad %d%%nat" if a == "load" else "HExec %d%%nat") % i for a, i in s) + "]" for s in scheds]
    model = core.coq_run_cases("c16i", IMPORTS, "fun s => enc_ran (run_schedule hstep_fixed s)", terms, case_ty="list hstep")
    cases = []
    for s in scheds:
        n = 1 + max(i for _, i in s)
        cases.append({"srcs": ["输出%d" % (100 + i) for i in range(n)], "sched": [[a, i] for a, i in s]})
    outs = core.harness("c16", "interleave", cases)
    for s, m, o in zip(scheds, model, outs):
        chk.count(["sched", s])
        chk.dist("interleaving:handlers=%d" % (1 + max(i for _, i in s)))
        got = []
        for i, oc in o.get("ran", []):
            v = oc.get("value", {})
            try:
                import struct
                val = struct.unpack(">d", bytes.fromhex(v.get("bits", "0" * 16)))[0]
            except Exception:
                val = -1
            got.append([i, int(val) - 100])
        if got != m:
            chk.violation("a request executed another request's source: schedule %s -> executed %s, expected %s" % (s, got, m),
                          "interleave:wrong-source", {"kind": "schedule", "sched": s, "observed": got, "model": m})
    # real concurrency through the HTTP handler
    o = core.harness("c16", "concurrent", [{"n": 8, "iters": 150 if quick else 1500}], timeout_ms=120000)[0]
    chk.count(["concurrent", o.get("requests")])
    chk.dist("concurrent-requests", o.get("requests", 0))
    if o.get("wrong") or "requests" not in o:
        chk.violation("concurrent requests through one handler answered with another request's result: %s" % str(o)[:200],
                      "concurrent:wrong-answer", {"kind": "concurrent", "observed": o})
    if not quick:
        race_run(chk)
    chk.coverage["rule"] = ("polluter sequences P1..Pn (1-3 programs of 1-5 operations on the predefined values / names / failing calls) "
                            "followed by a probe, each sequence in its own process, through a shared and through separate interpreter objects; "
                            "random interleavings of 2-4 handlers; 8 goroutines of concurrent HTTP requests; distinct = distinct texts/schedules")


def race_run(chk):
    """supporting evidence: the same concurrent requests under the Go race detector"""
    import os
    env = dict(core.GOENV)
    env["CGO_ENABLED"] = "1"
    out_bin = os.path.join(core.BUILD, "znh_c16_race" + core.REPO_TAG)
    args = ["go", "build", "-race", "-tags", "verif"]
    if core.REPO != "/repo":
        args += ["-modfile", os.path.join(core.BUILD, "go%s.mod" % core.REPO_TAG)]
    rc, out = core.sh(args + ["-o", out_bin, "./cmd/c16"], cwd=core.HARNESS_SRC, env=env, timeout=900)
    if rc != 0:
        chk.coverage["race_detector"] = "not available: " + out[-200:]
        return
    import subprocess
    p = subprocess.run([out_bin, "concurrent"], input=b'{"n":8,"iters":300}\n', stdout=subprocess.PIPE, stderr=subprocess.PIPE, timeout=600)
    races = p.stderr.decode("utf8", "replace").count("WARNING: DATA RACE")
    chk.coverage["race_detector"] = {"data_race_reports": races}
    if races:
        chk.violation("the Go race detector reports %d data races while concurrent requests run through one handler" % races,
                      "concurrent:data-race", {"kind": "race", "stderr": p.stderr.decode("utf8", "replace")[:3000]})
