# C15 — Modules load once, export read-only names, and cycles are reported.
# Tie: hand-written model (coq/model/Modules.v, the REPAIRED import algorithm) vs the real interpreter:
# every case is a directory of generated .zn files, run through exec.NewInterpreter(..).LoadFile(main).Execute(..)
# by harness/cmd/c15; observables = marker trace (order, multiplicity) and result kind / error code.
import itertools
import json
import os
import shutil
import tempfile
from vlib import core

HARNESS = "c15"

TB = ("Coq 8.16.1 kernel and vm_compute; hand-written Gallina model tied to /repo by the per-run correspondence check "
      "(Go harness built -tags verif from the working tree, model evaluated inside Coq on the same module graphs); "
      "generators, renderer (case -> .zn files) and comparison code in tools/props/c15.py; ")
CLAIM = dict(
    text=("Theorems (coq/props/C15.v, closed under the global context) about an executable model of the module system "
          "(ModuleGraph, AllocateModule, evalImportStmt, execAnotherModule, CheckDepedency, the three-colour DFS, symbol stacks, "
          "FindElementWithModule, the LoadFile name->path mapping): the DFS answers true exactly when the recorded graph has a cycle "
          "(ALL finite digraphs, any map iteration order, the recursion's fuel proved sufficient); in every run that ends normally "
          "each module's program ends at most once and a module's own statements start only after every module it imports has "
          "finished; a registered name is never executed again and a failing import aborts the importer (all outcomes); an import "
          "declares exactly the exported (or the listed and exported) names as constants carrying their home module, nothing else "
          "changes, assignment to them is error 44; a missing module is error 60 and a missing library error 64; a run whose "
          "import relation has a cycle reachable from the main file never ends normally and the import closing a cycle is answered "
          "with error 63; A-B-C maps to A/B/C.zn; a method called through an import — and the custom constructor of an imported type — runs on "
          "a frame of its home module and finds that module's methods and types, also when it is called through a variable of another "
          "module that holds it (a method value carries its home: C15_aliased_method_runs_in_home_module, C15_alias_then_call_runs_in_home_module). The model is the repaired algorithm (fixes/C15-1.patch, C15-2.patch); it is tied to "
          "the code on every run by executing ALL digraphs on <=3 (quick) / <=4 (thorough, modulo renaming) modules plus random "
          "larger graphs as directories of generated .zn files."),
    note=TB + ("module sources are abstracted to imports / method and type definitions / marker, call, probe, assignment, "
               "declaration, alias (令x = f) and object statements; methods return nothing in the model, so the flow of OBJECTS between modules "
               "(an object of a type its holder did not import) is tied by a family of programs with expectations by construction; ghost events EStart/EDone in the model's trace are used only to state theorems; "
               "OS path cleaning (empty, '.', '..', '/' inside a name segment) and global names used as method names are outside "
               "the model; selective import of a name that is not exported is silently ignored by the code and is not judged; "
               "importing a module twice in ONE file redeclares its names (error 43) and is mirrored. Partial: termination of "
               "module loading (a fuel bound for run_main) is not proved, theorems about whole runs speak of runs that end "
               "normally (result Ok) or are stated per import step; 'exactly error 63' is proved for the import that closes a "
               "cycle, the whole-run theorem says the run never ends normally."),
    technique="Coq proof (induction over fuel with graph/visited-set invariants) + model/implementation correspondence by vm_compute",
    design="5/C15")

IMPORTS = "From Coq Require Import List ZArith Bool. Import ListNotations.\nFrom Zn.model Require Import Modules."
FUEL = 40
RUN = "fun c => match c with (fs, libs, mp) => observe fs libs mp %d%%nat end" % FUEL

LIBS = {"@JSON": ["解析JSON", "生成JSON"], "@文件": ["读取文件", "写入文件", "读取目录"]}
MODCH = "甲乙丙丁戊己庚辛壬癸"
CTOR = "新建"


# ------------------------------------------------------------------ rendering a case into .zn files

def render_stmt(s, ind):
    pad = "    " * ind
    k = s[0]
    if k == "mark":
        return [pad + "（显示：“K%d”）" % s[1]]
    if k == "call":
        return [pad + "（%s）" % s[1]]
    if k == "ref":
        return [pad + s[1]]
    if k == "assign":
        return [pad + "%s = 1" % s[1]]
    if k == "declare":
        return [pad + "令%s = 1" % s[1]]
    if k == "newcall":
        return [pad + "令%s = （新建%s）" % (s[1], s[2]), pad + "以%s（%s）" % (s[1], s[3])]
    if k == "alias":
        return [pad + "令%s = %s" % (s[1], s[2])]
    raise ValueError(k)


def render_source(src):
    out = []
    for imp in src["imports"]:
        n = imp["name"]
        line = ("导入《%s》" % n) if n.startswith("@") else ("导入“%s”" % n)
        if imp["items"]:
            line += "之" + "、".join(imp["items"])
        out.append(line)
    for d in src["defs"]:
        if "fun" in d:
            out.append("如何%s？" % d["fun"])
            for s in d["body"]:
                out += render_stmt(s, 1)
            out.append("")
        else:
            out.append("定义%s：" % d["cls"])
            for m, body in d["methods"]:
                if m == CTOR:
                    continue
                out.append("    如何%s？" % m)
                for s in body:
                    out += render_stmt(s, 2)
                out.append("")
            # the custom constructor is a definition of its own, right after the type (its body is kept in the
            # model's method table under the reserved name 新建)
            for m, body in d["methods"]:
                if m == CTOR:
                    out.append("如何新建%s？" % d["cls"])
                    for s in body:
                        out += render_stmt(s, 1)
                    out.append("")
    for s in src["body"]:
        out += render_stmt(s, 0)
    return "\n".join(out) + "\n"


def harness_input(case, tmproot):
    root = case.get("root", "")
    files = {}
    for rel, src in case["files"].items():
        files[(root + "/" if root else "") + rel] = render_source(src)
    for rel, text in case.get("decoys", {}).items():
        files[rel] = text
    return {"files": files, "main": (root + "/" if root else "") + case["main"], "root": tmproot}


# ------------------------------------------------------------------ the same case as a Gallina term

def zname(s):
    return "[" + ";".join(str(ord(c)) for c in s) + "]"


def stmt_term(s):
    k = s[0]
    if k == "mark":
        return "SMark %d" % s[1]
    if k == "call":
        return "SCall " + zname(s[1])
    if k == "ref":
        return "SRef " + zname(s[1])
    if k == "assign":
        return "SAssign " + zname(s[1])
    if k == "declare":
        return "SDeclare " + zname(s[1])
    if k == "newcall":
        return "SNewCall %s %s %s" % (zname(s[1]), zname(s[2]), zname(s[3]))
    if k == "alias":
        return "SAlias %s %s" % (zname(s[1]), zname(s[2]))
    raise ValueError(k)


def stmts_term(ss):
    return "[" + ";".join(stmt_term(s) for s in ss) + "]"


def source_term(src):
    imps = "[" + ";".join("mkImport %s [%s]" % (zname(i["name"]), ";".join(zname(x) for x in i["items"])) for i in src["imports"]) + "]"
    defs = []
    for d in src["defs"]:
        if "fun" in d:
            defs.append("DFun %s %s" % (zname(d["fun"]), stmts_term(d["body"])))
        else:
            defs.append("DClass %s [%s]" % (zname(d["cls"]), ";".join("(%s,%s)" % (zname(m), stmts_term(b)) for m, b in d["methods"])))
    return "mkSource %s [%s] %s" % (imps, ";".join(defs), stmts_term(src["body"]))


def case_term(case):
    fs = []
    for rel in sorted(case["files"]):
        segs = rel.split("/")
        fs.append("([%s], %s)" % (";".join(zname(s) for s in segs), source_term(case["files"][rel])))
    libs = "[" + ";".join("(%s,[%s])" % (zname(n), ";".join(zname(x) for x in LIBS[n])) for n in sorted(LIBS)) + "]"
    return "([%s], %s, [%s])" % (";".join(fs), libs, zname(case["main"]))


# ------------------------------------------------------------------ generators

class Marks:
    def __init__(self):
        self.n = 0

    def new(self):
        self.n += 1
        return self.n


def graph_case(n, edges, rng, decorate):
    """module i in 0..n-1 (0 = main file); edges = set of (i, j): file i imports module j by name."""
    mk = Marks()
    names = [MODCH[i] for i in range(n)]
    files = {}
    exports = {}
    for i in range(n):
        k = rng.randrange(0, 3) if decorate else 1
        exports[i] = ["法%s%d" % (names[i], j) for j in range(k)]
    for i in range(n):
        succ = [j for (a, j) in sorted(edges) if a == i]
        if decorate and rng.random() < 0.5:
            rng.shuffle(succ)
        imports = []
        for j in succ:
            items = []
            if decorate and exports[j] and rng.random() < 0.3:
                items = [x for x in exports[j] if rng.random() < 0.6]
            imports.append({"name": names[j], "items": items})
        defs = []
        for idx, f in enumerate(exports[i]):
            body = [["mark", mk.new()]]
            if idx + 1 < len(exports[i]) and rng.random() < 0.7:
                body.append(["call", exports[i][idx + 1]])     # a method of its own module
            defs.append({"fun": f, "body": body})
        body = [["mark", mk.new()]]
        for imp, j in zip(imports, succ):
            vis = imp["items"] if imp["items"] else exports[j]
            if vis and rng.random() < 0.8:
                body.append(["call", vis[0]])
        body.append(["mark", mk.new()])
        files[names[i] + ".zn"] = {"imports": imports, "defs": defs, "body": body}
    case = {"kind": "graph%d" % n, "root": "", "main": names[0] + ".zn", "files": files,
            "edges": sorted(list(e) for e in edges)}
    return hubify(case, rng) if decorate else case


def hubify(case, rng, p=0.25):
    """some file that has imports (the main file included) becomes an import-only file: no definitions, no statements. Its
    imports are evaluated all the same (bodies run, missing modules and cycles are reported), it merely exports nothing"""
    if rng.random() < p:
        cands = [f for f, src in case["files"].items() if src["imports"]]
        if cands:
            f = rng.choice(sorted(cands))
            case["files"][f] = {"imports": case["files"][f]["imports"], "defs": [], "body": []}
            case["hub"] = f
    return case


def all_digraphs(n, modulo_renaming):
    pairs = [(i, j) for i in range(n) for j in range(n)]
    seen = set()
    for bits in range(1 << len(pairs)):
        es = frozenset(p for k, p in enumerate(pairs) if bits >> k & 1)
        if modulo_renaming:
            best = None
            for perm in itertools.permutations(range(1, n)):
                m = (0,) + perm
                key = tuple(sorted((m[a], m[b]) for a, b in es))
                if best is None or key < best:
                    best = key
            if best in seen:
                continue
            seen.add(best)
            yield frozenset(best)
        else:
            yield es


def random_case(rng, kinds):
    mk = Marks()
    n = rng.choice([2, 3, 4, 5, 6, 8])
    dirs = [[], [], ["子"], ["子", "孙"], ["库"]]
    mods = []
    for i in range(n):
        d = [] if i == 0 else rng.choice(dirs)
        mods.append({"segs": d + ["模" + MODCH[i]], "idx": i})
    for m in mods:
        m["iname"] = "-".join(m["segs"])
        m["rel"] = "/".join(m["segs"]) + ".zn"
    shared = ["共法", "共型"]
    for m in mods:
        ch = MODCH[m["idx"]]
        k = rng.choice([0, 1, 1, 2, 3])
        m["funs"] = ["法%s%d" % (ch, j) for j in range(k)]
        if rng.random() < 0.12:
            m["funs"].append(shared[0])
        m["cls"] = ["型" + ch] if rng.random() < 0.4 else []
    cyc = rng.random() < 0.3
    edges = []
    for i in range(n):
        for j in range(n):
            if i < j and rng.random() < (0.5 if j - i < 3 else 0.25):
                edges.append((i, j))
            elif i > j and cyc and rng.random() < 0.12:
                edges.append((i, j))
            elif i == j and rng.random() < 0.03:
                edges.append((i, j))
    files = {}
    feature = []
    err_mod = rng.randrange(n) if rng.random() < 0.4 else -1     # at most one module gets error-provoking constructs
    for m in mods:
        i = m["idx"]
        erry = (i == err_mod)
        succ = [j for (a, j) in edges if a == i]
        rng.shuffle(succ)
        imports = []
        visible_f, visible_c, hidden = [], [], []
        for j in succ:
            t = mods[j]
            allx = t["funs"] + t["cls"]
            items = []
            if allx and rng.random() < 0.35:
                items = [x for x in allx if rng.random() < 0.6]
                if rng.random() < 0.3:
                    items.append("无此名%d" % j)       # listed but not exported: silently ignored by the code
                    feature.append("selective-unknown")
                rng.shuffle(items)
                feature.append("selective")
            imports.append({"name": t["iname"], "items": items})
            vis = items if items else allx
            visible_f += [x for x in t["funs"] if x in vis]
            visible_c += [x for x in t["cls"] if x in vis]
            hidden += [x for x in allx if x not in vis]
            if erry and rng.random() < 0.15:
                imports.append({"name": t["iname"], "items": []})    # the same module twice in one file
                feature.append("import-twice")
        r = rng.random()
        if r < 0.25:
            lib = rng.choice(sorted(LIBS))
            items = [x for x in LIBS[lib] if rng.random() < 0.5] if rng.random() < 0.4 else []
            imports.insert(rng.randrange(len(imports) + 1), {"name": lib, "items": items})
            visible_f_lib = items if items else LIBS[lib]
            feature.append("lib")
        else:
            visible_f_lib = []
        if erry and rng.random() < 0.12:
            imports.insert(rng.randrange(len(imports) + 1), {"name": "@无此库", "items": []})
            feature.append("missing-lib")
        if erry and rng.random() < 0.15:
            imports.insert(rng.randrange(len(imports) + 1), {"name": rng.choice(["无此模块", "子-无此模块", "JSON"]), "items": []})
            feature.append("missing-module")
        defs = []
        own = m["funs"]
        for idx, f in enumerate(own):
            body = [["mark", mk.new()]]
            if idx + 1 < len(own) and rng.random() < 0.6:
                body.append(["call", own[idx + 1]])
                feature.append("home-call")
            if m["cls"] and idx + 1 < len(own) and rng.random() < 0.4:
                body.append(["newcall", "物%d" % mk.new(), m["cls"][0], "报告"])   # the type's method only calls the LAST method
                feature.append("home-type")
            if [x for x in visible_f if x not in own] and rng.random() < 0.4:
                body.append(["call", rng.choice([x for x in visible_f if x not in own])])   # (an own name would shadow it: recursion)
            if rng.random() < 0.3:
                body.append(["mark", mk.new()])
            defs.append({"fun": f, "body": body})
        for c in m["cls"]:
            mb = [["mark", mk.new()]]
            if own and rng.random() < 0.7:
                mb.append(["call", own[-1]])
                feature.append("type-method-home-call")
            methods = [["报告", mb]]
            if rng.random() < 0.5:
                # a custom constructor that uses its home module (marks show that it ran; the call must resolve there,
                # whatever module creates the object and whatever that module imported or defined itself)
                cb = [["mark", mk.new()]]
                if own and rng.random() < 0.8:
                    cb.append(["call", own[-1]])      # the last method never creates objects: no recursion through the constructor
                    feature.append("constructor-home-call")
                methods.append([CTOR, cb])
            defs.append({"cls": c, "methods": methods})
        rng.shuffle(defs) if rng.random() < 0.3 else None
        body = [["mark", mk.new()]]
        for _ in range(rng.randrange(0, 4)):
            q = rng.random()
            if q < 0.45 and visible_f:
                fcall = rng.choice(visible_f)
                if rng.random() < 0.3:
                    # the method kept in a variable of this module and called through it: it still runs in its home module
                    al = "别%d" % mk.new()
                    body.append(["alias", al, fcall])
                    body.append(["call", al])
                    feature.append("call-through-alias")
                else:
                    body.append(["call", fcall])
            elif q < 0.6 and visible_c:
                body.append(["newcall", "物%d" % mk.new(), rng.choice(visible_c), "报告"])
            elif q < 0.7 and (visible_f or visible_c or visible_f_lib):
                body.append(["ref", rng.choice(visible_f + visible_c + visible_f_lib)])
            elif q < 0.76 and hidden and erry:
                body.append([rng.choice(["ref", "call"]), rng.choice(hidden)])       # not imported: error 42
                feature.append("use-hidden")
            elif q < 0.82 and (visible_f or visible_c or visible_f_lib) and erry:
                body.append(["assign", rng.choice(visible_f + visible_c + visible_f_lib)])   # read-only: error 44
                feature.append("assign-imported")
            elif q < 0.88 and [x for x in visible_f + visible_c if ["declare", x] not in body]:
                # shadowing declaration in the body block (never the same name twice in one block: redeclaration
                # by 令 is property C06's subject and its error is swallowed by the pinned evalVarDeclareStmt)
                body.append(["declare", rng.choice([x for x in visible_f + visible_c if ["declare", x] not in body])])
                feature.append("shadow-imported")
            elif q < 0.93 and own:
                body.append(["call", rng.choice(own)])
            else:
                body.append(["mark", mk.new()])
        if erry and rng.random() < 0.6:
            cand = []
            if visible_f or visible_c or visible_f_lib:
                cand.append(["assign", rng.choice(visible_f + visible_c + visible_f_lib)])     # read-only: error 44
            if hidden:
                cand.append([rng.choice(["ref", "call"]), rng.choice(hidden)])                # not imported: error 42
            cand.append(["call", "无此法"])                                                    # nowhere defined: error 42
            st = rng.choice(cand)
            feature.append({"assign": "assign-imported"}.get(st[0], "use-hidden"))
            body.insert(rng.randrange(1, len(body) + 1), st)
        body.append(["mark", mk.new()])
        files[m["rel"]] = {"imports": imports, "defs": defs, "body": body}
    case = {"kind": "random", "root": rng.choice(["", "", "根", "根/内"]), "main": mods[0]["rel"], "files": files,
            "edges": sorted(list(e) for e in set(edges))}
    if case["root"]:
        # a decoy outside the main file's directory: must never be loaded
        t = rng.choice(mods)
        case["decoys"] = {t["rel"] if "/" not in t["rel"] else t["rel"].split("/")[-1]: "（显示：“DECOY”）\n"}
        feature.append("decoy")
    hubify(case, rng)
    if "hub" in case:
        feature.append("import-only-file")
    for f in set(feature):
        kinds[f] = kinds.get(f, 0) + 1
    return case


# ------------------------------------------------------------------ comparison

def impl_obs(o):
    if "panic" in o or "crash" in o or "hang" in o or "bad" in o:
        return [["abnormal"], [json.dumps(o, ensure_ascii=False)[:200]]]
    trace = []
    for l in o.get("display", []):
        if l.startswith("K") and l[1:].isdigit():
            trace.append(int(l[1:]))
        else:
            trace.append(-1)          # any line that is not a marker (e.g. a decoy file was loaded)
    if o.get("kind") == "value":
        return [[0], trace]
    cls, code = o.get("class"), o.get("code")
    if cls == "runtime":
        return [[1, int(code)], trace]
    if cls == "goexception":
        return [[2], trace]
    return [["error", str(cls), code], trace]


def has_reachable_cycle(case):
    """import relation of the FILES (independent of the model): cycle reachable from the main file"""
    byname = {}
    for rel in case["files"]:
        byname["-".join(rel[:-3].split("/"))] = rel
    def succ(rel):
        return [byname[i["name"]] for i in case["files"][rel]["imports"] if i["name"] in byname]
    color = {}
    def dfs(u):
        color[u] = 1
        for v in succ(u):
            if color.get(v, 0) == 1 or (color.get(v, 0) == 0 and dfs(v)):
                return True
        color[u] = 2
        return False
    return dfs(case["main"])


def classify(case, exp, obs):
    if exp[0] == [1, 63] and obs[0] != [1, 63]:
        return "cycle-not-reported", "import cycle not reported as error 63"
    if obs[0] == [1, 63] and exp[0] != [1, 63]:
        return "cycle-reported-without-cycle", "error 63 although the model finds no cycle"
    if obs[0] in ([2], [1, 42]) and exp[0] != obs[0] and exp[1][:len(obs[1])] == obs[1]:
        return "imported-method-home-module", "a name that should be visible (home module's methods/types, or an import) is undefined"
    if exp[0] == obs[0]:
        return "trace-differs", "marker trace differs (order or multiplicity of module bodies / calls)"
    return "result-differs", "result kind or error code differs"


def size_of(case):
    return sum(len(s["imports"]) + len(s["defs"]) + len(s["body"]) + 1 for s in case["files"].values())


def load_corpus():
    p = os.path.join(core.VERIF, "corpus", "C15", "cases.json")
    if os.path.exists(p):
        return json.load(open(p, encoding="utf8"))
    return []


def run_object_flow(chk, replay=None):
    """An object of a type of module 库 reaches a module that did not import the type by name (an imported method made it, or
    handed it on): its methods run as they do inside 库 — they use 库's other methods — whoever holds the object. The values the
    model's programs pass around are not modelled (its methods return nothing), so the expectation is by construction: the
    marker lines K… in the order the program prescribes."""
    rng = chk.rng
    cases = []
    if replay is not None:
        cases = [replay["case"]]
    else:
        for _ in range(16 if chk.tier == "quick" else 150):
            k = [rng.randrange(10, 99) for _ in range(6)]
            lib = ("如何助手？\n    （显示：“K%d”）\n    输出%d\n\n定义货：\n    其名 = “x”\n\n    如何报告？\n        （显示：“K%d”）\n        输出（助手）+ 1\n\n"
                   "如何造？\n    （显示：“K%d”）\n    输出（新建货）\n") % (k[0], k[1], k[2], k[3])
            how = rng.randrange(4)
            imp = rng.choice(["导入“库”之造", "导入“库”之造、助手", "导入“库”"])
            if how == 0:
                main = imp + "\n令物 = （造）\n（显示：“K%d”）\n输出以物（报告）\n" % k[4]
                want_disp, want_val = [k[3], k[4], k[2], k[0]], k[1] + 1
            elif how == 1:
                main = imp + "\n（造）得到物\n令副 = 【物】\n输出以副#1（报告）\n"
                want_disp, want_val = [k[3], k[2], k[0]], k[1] + 1
            elif how == 2:
                mid = "导入“库”之造\n如何转？\n    （显示：“K%d”）\n    输出（造）\n" % k[5]
                main = "导入“中”之转\n令物 = （转）\n输出以物（报告）\n"
                cases.append({"files": {"主.zn": main, "库.zn": lib, "中.zn": mid}, "main": "主.zn", "want_disp": [k[5], k[3], k[2], k[0]], "want_val": k[1] + 1})
                continue
            else:
                main = imp + "\n如何用？\n    输入某\n    输出以某（报告）\n\n输出（用：（造））\n"
                want_disp, want_val = [k[3], k[2], k[0]], k[1] + 1
            cases.append({"files": {"主.zn": main, "库.zn": lib}, "main": "主.zn", "want_disp": want_disp, "want_val": want_val})
    tmproot = tempfile.mkdtemp(prefix="znc15o_")
    try:
        outs = core.harness("c15", "run", [{"files": c["files"], "main": c["main"], "root": tmproot} for c in cases], timeout_ms=30000)
    finally:
        shutil.rmtree(tmproot, ignore_errors=True)
    for c, o in zip(cases, outs):
        chk.count(["object-flow", c["files"]])
        chk.dist("kind:object-flow")
        disp = [l for l in o.get("display", [])]
        want = ["K%d" % x for x in c["want_disp"]]
        val = o.get("value")
        ok = o.get("kind") == "value" and disp == want
        if not ok:
            chk.violation("an object of a type of module 库 held by a module that did not import the type: its method does not behave as inside "
                          "库 — displayed %s (expected %s), outcome %s; files %s" % (disp, want, json.dumps({k: v for k, v in o.items() if k != "display"}, ensure_ascii=False)[:200],
                                                                                   json.dumps(c["files"], ensure_ascii=False)[:500]),
                          "object-flow", {"kind": "object-flow", "case": c, "observed": o, "replay_cmd": "./check C15 --replay <this file>"})


def run(chk, replay=None):
    if replay is not None and replay.get("kind") == "object-flow":
        run_object_flow(chk, replay)
        return
    if replay is None:
        run_object_flow(chk)
    rng = chk.rng
    quick = chk.tier == "quick"
    kinds = {}
    cases = []
    if replay is not None:
        cases = [replay["case"]]
    else:
        for c in load_corpus():
            c = dict(c)
            c["kind"] = "corpus"
            cases.append(c)
        maxn = 3 if quick else 4
        for n in range(1, maxn + 1):
            for es in all_digraphs(n, modulo_renaming=(n >= 4)):
                cases.append(graph_case(n, es, rng, decorate=False))
                if n <= 3 and rng.random() < (0.25 if quick else 1.0):
                    cases.append(graph_case(n, es, rng, decorate=True))
        for _ in range(300 if quick else 4000):
            cases.append(random_case(rng, kinds))

    tmproot = tempfile.mkdtemp(prefix="znc15_")
    try:
        outs = core.harness("c15", "run", [harness_input(c, tmproot) for c in cases], timeout_ms=30000, batch_timeout=1800)
        # generated programs have no loops and no recursion: a time-out is re-examined alone with a long limit, so that
        # a loaded machine cannot raise an alarm
        for k, o in enumerate(outs):
            if o.get("hang"):
                outs[k] = core.harness("c15", "run", [harness_input(cases[k], tmproot)], timeout_ms=300000, batch_timeout=400)[0]
    finally:
        shutil.rmtree(tmproot, ignore_errors=True)
    model = core.coq_run_cases("c15", IMPORTS, RUN, [case_term(c) for c in cases], shard=250, timeout=1200)

    worst = {}
    for c, o, exp in zip(cases, outs, model):
        obs = impl_obs(o)
        chk.count([c["main"], c.get("root"), {k: render_source(v) for k, v in c["files"].items()}],
                  nontrivial=len(c["files"]) > 1 or any(s["imports"] for s in c["files"].values()))
        chk.dist("kind:" + c["kind"])
        chk.dist("expect:" + {0: "ok", 1: "error", 2: "exception", 3: "fuel"}.get(exp[0][0], "?") +
                 (str(exp[0][1]) if exp[0][0] == 1 else ""))
        cyc = has_reachable_cycle(c)
        chk.dist("files-cycle:" + ("yes" if cyc else "no"))
        if len(chk.coverage["samples"]) < 6 and c["kind"] == "random" and len(c["files"]) <= 3:
            chk.sample({"files": {k: render_source(v) for k, v in c["files"].items()}, "main": c["main"], "expected": exp})
        if exp[0] == [3]:
            chk.violation("model ran out of fuel on a generated case (generator or model fault)", "model-fuel",
                          {"kind": "tie", "case": c}, no_input=True)
            continue
        # independent cross-check of the specification side: a cycle in the import relation of the files must never end normally
        if cyc and exp[0] == [0]:
            chk.violation("model accepts a file set whose import relation has a cycle", "model-cycle",
                          {"kind": "tie", "case": c, "expected": exp}, no_input=True)
            continue
        if obs != exp:
            sig, what = classify(c, exp, obs)
            key = sig
            if key not in worst or size_of(c) < size_of(worst[key][0]):
                worst[key] = (c, exp, obs, what)
            worst.setdefault("#" + key, [0])[0] += 1
    for sig, v in worst.items():
        if sig.startswith("#"):
            continue
        c, exp, obs, what = v
        files = {k: render_source(s) for k, s in c["files"].items()}
        chk.violation("%s (%d cases; smallest: main=%s files=%s expected=%s observed=%s)" % (
                          what, worst["#" + sig][0], c["main"], json.dumps(files, ensure_ascii=False)[:400], exp, obs),
                      sig, {"kind": "c15", "case": c, "rendered": files, "expected": exp, "observed": obs,
                            "replay_cmd": "./check C15 --replay <this file>"})
    chk.coverage["features"] = kinds
    chk.coverage["rule"] = ("corpus first; ALL digraphs (self-loops included) on 1..%d modules with module 0 the main file, each as a "
                            "directory of .zn files whose bodies print start/end markers and call the first method of every import "
                            "(n=4 modulo renaming of the non-main modules), %s decorated variants (random export sets, selective lists, "
                            "import order); random graphs on 2..8 modules in nested directories with export-name clashes, selective "
                            "and repeated imports, libraries, missing modules/libraries, probes of hidden names, assignment to and "
                            "shadowing of imported names, methods and types that use their home module, a decoy file outside the main "
                            "directory; distinct = distinct rendered file sets; non-trivial = more than one file or at least one import"
                            % (3 if quick else 4, "25% of" if quick else "all"))
