# semcheck.py — correspondence runner between the evaluator model (coq/model/Sem.v, evaluated in Coq)
# and the interpreter (harness/cmd/sem) on generated programs.
import json
from vlib import core
from vlib import semgen as G


def cls_ids(names):
    return dict(names.ids)


def compare_final(model, impl):
    """final-state observables: call-stack length, block depth and live symbols of the main module"""
    raw = impl.get("raw", {})
    src = raw if raw.get("kind") == "value" else raw.get("err", {})
    if "stack" not in src or src.get("stack") is None:
        return None
    fin = model[1]
    if not fin:
        return None
    if len(src["stack"]) != fin[0]:
        return "call-stack length after the run differs: model %d implementation %d" % (fin[0], len(src["stack"]))
    # the chain of frames the error display walks: (native?, call type, current line), outermost first
    chain = model[2]
    want = []
    for i in range(0, len(chain), 2):
        kind, line = chain[i], chain[i + 1]
        want.append([-1 if kind == 4 else 0, 2 if kind == 4 else kind, None if kind == 4 else line])
    got = [[f[0], f[1], None if f[0] == -1 else f[2]] for f in src["stack"]]
    if want != got:
        return "call chain differs (module, call type, line of each active frame): model %s implementation %s" % (want, got)
    for sc in src.get("scopes") or []:
        if sc[0] == 0:
            if sc[1] != fin[1] or sc[2] != fin[2]:
                return "scope state of the main module after the run differs: model depth=%d symbols=%d implementation depth=%d symbols=%d" % (fin[1], fin[2], sc[1], sc[2])
    return None


def run_diff(chk, progs, label, mode="vm", repeat=1, inputs=None, rng_layout=None, tag="sem", decorate=None, extra_check=None):
    """progs: list of program ASTs. Returns list of (index, description, src, model, impl)."""
    names = G.Names()
    cases, terms, texts = [], [], []
    for k, p in enumerate(progs):
        txt, r = G.render(p, rng_layout, decorate)
        em = G.CoqEmitter(names, r.line_of)
        ins = (inputs[k] if inputs else None) or {}
        c = {"src": txt, "mode": mode, "inputs": ins}
        if repeat > 1:
            c["repeat"] = repeat
        cases.append(c)
        terms.append(em.program(p, ins))
        texts.append(txt)
    model = core.coq_run_cases(tag + label, G.IMPORTS, G.RUN_FN, terms, case_ty=G.CASE_TY, shard=150)
    # programs on which the model runs out of fuel (non-terminating, or too long) are outside the quantifier: they are not
    # handed to the interpreter at all (it would run into its time limit, and the confirmation of a hang takes ten times longer)
    live = [k for k, m in enumerate(model) if m[0][0] != 7]
    outs_live = core.harness("sem", "run", [cases[k] for k in live], timeout_ms=8000)
    outs = [{"skipped": True}] * len(cases)
    for k, o in zip(live, outs_live):
        outs[k] = o
    ids = cls_ids(names)
    bad = []
    for k, (o, m) in enumerate(zip(outs, model)):
        head = m[0]
        if head[0] == 7:
            chk.dist(label + ":model-out-of-fuel")
            continue
        outside = head[0] == 8 and head[1] >= 900
        runs = o["runs"] if "runs" in o else [o]
        if outside and len(runs) <= 1:
            chk.dist(label + ":outside-modelled-fragment")
            continue
        descr = None
        if len(runs) > 1:
            # model-free: the runs of one program in one process must agree with each other in everything they show — the
            # rendered error text (message, lines, call chain) included, which the model does not have
            keyf = lambda r: json.dumps({k2: v2 for k2, v2 in r.items() if k2 in ("kind", "value", "display", "err")}, sort_keys=True, ensure_ascii=False)
            k0 = keyf(runs[0])
            for ri, ro in enumerate(runs[1:], 2):
                if keyf(ro) != k0:
                    a, b = k0, keyf(ro)
                    i = next((j for j in range(min(len(a), len(b))) if a[j] != b[j]), min(len(a), len(b)))
                    descr = "run %d of %d differs from the first (nondeterminism): …%s… vs …%s…" % (ri, len(runs), a[max(0, i - 60):i + 60], b[max(0, i - 60):i + 60])
                    break
            if descr:
                chk.dist(label + ":outcome:nondeterministic")
                chk.count([label, texts[k], json.dumps(cases[k].get("inputs"), sort_keys=True)])
                bad.append((k, descr, texts[k], m, runs))
                continue
        if outside:
            chk.dist(label + ":outside-modelled-fragment")
            continue
        for ri, ro in enumerate(runs):
            impl = G.enc_go_run(ro, ids)
            descr = G.compare_run(m, impl) or compare_final(m, impl) or (extra_check(m, impl, texts[k]) if extra_check else None)
            if descr:
                if ri > 0:
                    descr = "run %d of %d differs from the first (nondeterminism): %s" % (ri + 1, len(runs), descr)
                break
        kind = {0: "value", 1: "runtime-error", 2: "uncaught-exception", 3: "uncaught-exception", 4: "signal", 8: "crash"}.get(head[0], "other")
        chk.dist(label + ":outcome:" + kind)
        chk.count([label, texts[k], json.dumps(cases[k].get("inputs"), sort_keys=True)])
        if descr:
            bad.append((k, descr, texts[k], m, runs[0] if len(runs) == 1 else runs))
    return bad, texts
