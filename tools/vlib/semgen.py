# semgen.py — Zn program ASTs for the evaluator model `Sem`: constructors, renderer to Zn text,
# emitter to Coq terms (coq/model/SemDefs.v syntax), encoders of implementation outcomes.
# AST nodes are tuples whose first component names the Coq constructor.
import math
import struct

RESERVED = {"此": 0, "真": 1, "假": 2, "空": 3, "异常": 4, "显示": 5, "取随机数": 6, "数值": 7,
            "长度": 20, "数目": 21, "首项": 22, "末项": 23, "逆序": 24, "文本": 25, "所有索引": 26, "所有值": 27,
            "自身": 28, "内容": 29,
            "后增": 40, "前增": 41, "新增": 42, "添加": 43, "左移": 44, "右移": 45, "合并": 46, "交换": 47,
            "包含": 48, "寻找": 49, "写入": 50, "读取": 51, "移除": 52, "自增": 53, "自减": 54}


def f2bits(x):
    if x != x:
        return 0x7FF8000000000000
    return struct.unpack(">Q", struct.pack(">d", x))[0]


def bits2f(b):
    return struct.unpack(">d", struct.pack(">Q", b))[0]


def num_literal(x):
    """a spelling the Zn number syntax accepts and that denotes exactly x (finite)"""
    if x == int(x) and abs(x) < 1e15:
        s = str(int(x))
        if x == 0 and math.copysign(1, x) < 0:
            s = "-0"
        return s
    s = repr(x)
    if "e" in s:
        m, e = s.split("e")
        if e[0] not in "+-":
            e = "+" + e
        # exponent digits without leading zeros are fine; keep sign mandatory
        e = e[0] + e[1:].lstrip("0") if e[1:].lstrip("0") else e[0] + "0"
        s = m + "e" + e
    return s


class Names:
    """interning of identifiers (generator text -> Z ids used by the Coq model)"""

    def __init__(self):
        self.ids = dict(RESERVED)
        self.next = 100

    def id(self, n):
        if n not in self.ids:
            self.ids[n] = self.next
            self.next += 1
        return self.ids[n]

    def rev(self):
        return {v: k for k, v in self.ids.items()}


# ---------------------------------------------------------------------------- AST constructors
def Num(x, spelling=None): return ("ENum", float(x), spelling) if spelling else ("ENum", float(x))
def Str(s): return ("EStr", s)
def Var(x): return ("EVar", x)
def Arr(items): return ("EArr", list(items))
def Map(items): return ("EMap", list(items))           # [(key text, expr)]
def Arith(op, l, r): return ("EArith", op, l, r)       # op in + - * / | %
def Logic(op, l, r): return ("ELogic", op, l, r)       # op in and or eq neq xeq xneq gt gte lt lte
def AssignVar(x, e): return ("EAssignVar", x, e)
def AssignIndex(root, idx, e): return ("EAssignIndex", root, idx, e)
def AssignMember(root, m, e): return ("EAssignMember", root, m, e)
def AssignThis(m, e): return ("EAssignThis", m, e)
def Index(root, idx): return ("EIndex", root, idx)
def Member(root, m): return ("EMember", root, m)
def ThisProp(m): return ("EThisProp", m)
def Call(f, args, y=None): return ("ECall", f, list(args), y)
def Method(root, chain, y=None): return ("EMethod", root, list(chain), y)   # chain [(name, [args])]
def New(cls, args): return ("ENew", cls, list(args))
# in-place number update 以 <root>之<m>（自增/自减：e） (root None = 其).  Rendered as the real member method call; emitted to the
# model as the read-add-assign it equals when the property's Number is not aliased (the generator's counter discipline:
# counters are only ever assigned fresh values and never passed bare to calls, mutators, 输出 or 得到) and e is pure.
def Bump(root, m, sub, e): return ("EBump", root, m, bool(sub), e)

def Decl(pairs): return ("SDecl", list(pairs))          # [(const, [names], expr)]
def While(c, body): return ("SWhile", c, list(body))
def Branch(c, t, others=(), els=None): return ("SBranch", c, list(t), list(others), els)
def Iter(e, names, body): return ("SIter", e, list(names), list(body))
def Return(e): return ("SReturn", e)
def Break(): return ("SBreak",)
def Continue(): return ("SContinue",)
def Throw(cls, args): return ("SThrow", cls, list(args))
def ExprS(e): return ("SExpr", e)
def Func(f, params, body, catches=()): return ("SFunc", f, list(params), list(body), list(catches))
def Ctor(cls, params, body, catches=()): return ("SCtor", cls, list(params), list(body), list(catches))
def Class(cls, props, methods): return ("SClass", cls, list(props), list(methods))  # methods [(name, params, body, catches)]
def Display(*args): return ExprS(Call("显示", list(args)))

ARITH = {"+": ("AAdd", 5), "-": ("ASub", 5), "*": ("AMul", 6), "/": ("ADiv", 6), "|": ("AIntDiv", 6), "%": ("AMod", 6)}
LOGIC = {"and": ("LAnd", 2, ["且"]), "or": ("LOr", 1, ["或"]),
         "eq": ("LEq", 3, ["==", "等于"]), "neq": ("LNeq", 3, ["/=", "不等于"]),
         "xeq": ("LXeq", 3, ["为"]), "xneq": ("LXneq", 3, ["不为"]),
         "gt": ("LGt", 3, [">", "大于"]), "gte": ("LGte", 3, [">=", "不小于"]),
         "lt": ("LLt", 3, ["<", "小于"]), "lte": ("LLte", 3, ["<=", "不大于"])}


# ---------------------------------------------------------------------------- renderer
class Renderer:
    """Zn text of a program. rng=None gives the canonical layout; with an rng it picks synonyms and
    redundant braces at random (layout never changes the tree)."""

    def __init__(self, rng=None, decorate=None):
        self.rng = rng
        self.decorate = decorate   # an rng: insert comment lines (single- and multi-line) between statements
        self.lines = []
        self.nlines = 0            # physical lines emitted so far
        self.line_of = {}          # id(stmt tuple) -> 0-based physical line index

    def pick(self, opts):
        if self.rng is None or len(opts) == 1:
            return opts[0]
        return self.rng.choice(opts)

    # expression -> (text, level). levels: 1 or, 2 and, 3 compare, 4 assign, 5 add, 6 mul, 7 member, 8 basic
    def expr(self, e, min_level=1):
        txt, lvl = self._expr(e)
        if e[0] in ("EMethod", "EBump") and min_level >= 2 and not txt.startswith("{"):
            return "{" + txt + "}"       # 以…（…） as an operand is always grouped
        if lvl < min_level or (self.rng is not None and lvl < 8 and self.rng.random() < 0.08):
            return "{" + txt + "}"
        return txt

    def arg(self, a):
        # 、 after a method call continues its chain, so a method call used as an argument is braced
        t = self.expr(a, 1)
        if a[0] == "EMethod" and not t.startswith("{"):
            return "{" + t + "}"
        return t

    def _expr(self, e):
        k = e[0]
        if k == "ENum":
            return (e[2] if len(e) > 2 and e[2] else num_literal(e[1])), 8
        if k == "EStr":
            return "“" + e[1] + "”", 8
        if k == "EVar":
            return e[1], 8
        if k == "EArr":
            if not e[1]:
                return "【】", 8
            return "【" + "，".join(self.expr(i, 1) for i in e[1]) + "】", 8
        if k == "EMap":
            if not e[1]:
                return "【=】", 8
            return "【" + "，".join("%s = %s" % (self.key(kk), self.expr(v, 5)) for kk, v in e[1]) + "】", 8
        if k == "EArith":
            _, lvl = ARITH[e[1]]
            l = self.expr(e[2], lvl)
            r = self.expr(e[3], lvl + 1)
            return "%s %s %s" % (l, e[1], r), lvl
        if k == "ELogic":
            _, lvl, words = LOGIC[e[1]]
            w = self.pick(words)
            if lvl == 3:
                l = self.expr(e[2], 4)
                r = self.expr(e[3], 4)
            else:
                l = self.expr(e[2], lvl)
                r = self.expr(e[3], lvl + 1)
            return "%s %s %s" % (l, w, r), lvl
        if k == "EAssignVar":
            return "%s %s %s" % (e[1], self.pick(["=", "设为"]), self.expr(e[2], 5)), 4
        if k == "EAssignIndex":
            return "%s %s %s" % (self.index(e[1], e[2]), self.pick(["=", "设为"]), self.expr(e[3], 5)), 4
        if k == "EAssignMember":
            return "%s%s%s %s %s" % (self.expr(e[1], 7), self.pick(["之", "的"]), e[2], self.pick(["=", "设为"]), self.expr(e[3], 5)), 4
        if k == "EAssignThis":
            return "其%s %s %s" % (e[1], self.pick(["=", "设为"]), self.expr(e[2], 5)), 4
        if k == "EIndex":
            return self.index(e[1], e[2]), 7
        if k == "EMember":
            return "%s%s%s" % (self.expr(e[1], 7), self.pick(["之", "的"]), e[2]), 7
        if k == "EThisProp":
            return "其" + e[1], 7
        if k == "ECall":
            s = "（" + e[1]
            if e[2]:
                s += "：" + "、".join(self.arg(a) for a in e[2])
            s += "）"
            if e[3]:
                s += "，得到" + e[3]
            return s, 8
        if k == "EMethod":
            s = "以" + self.expr(e[1], 1)
            parts = []
            for m, args in e[2]:
                p = "（" + m
                if args:
                    p += "：" + "、".join(self.arg(a) for a in args)
                p += "）"
                parts.append(p)
            s += "、".join(parts)
            if e[3]:
                s += "，得到" + e[3]
            return s, 8
        if k == "EBump":
            recv = ThisProp(e[2]) if e[1] is None else Member(e[1], e[2])
            return self._expr(Method(recv, [("自减" if e[3] else "自增", [e[4]])]))
        if k == "ENew":
            s = "（新建" + e[1]
            if e[2]:
                s += "：" + "、".join(self.arg(a) for a in e[2])
            return s + "）", 8
        raise ValueError(k)

    def key(self, kk):
        # dictionary keys are rendered as text literals (an ID or number spelling is also allowed)
        return "“" + kk + "”"

    def index(self, root, idx):
        r = self.expr(root, 7)
        if idx[0] == "ENum" and idx[1] == int(idx[1]) and 0 <= idx[1] < 1e9:
            return "%s#%d" % (r, int(idx[1]))
        if idx[0] == "EStr":
            return "%s#“%s”" % (r, idx[1])
        if idx[0] == "EVar":
            return "%s#%s" % (r, idx[1])
        return "%s#{%s}" % (r, self.expr(idx, 1))

    def emit(self, ind, text):
        self.lines.append("    " * ind + text)
        self.nlines += 1 + text.count("\n")

    def block(self, ind, stmts):
        for s in stmts:
            self.stmt(ind, s)

    def exec_block(self, ind, params, body, catches):
        if params:
            self.emit(ind, "输入" + "、".join(params))
        self.block(ind, body)
        for cn, cb in catches:
            self.emit(ind, "拦截%s：" % cn)
            self.block(ind + 1, cb)

    def stmt(self, ind, s):
        if self.decorate is not None and self.decorate.random() < 0.25:
            k = self.decorate.random()
            if k < 0.5:
                self.emit(ind, "注：一行注释")
            elif k < 0.8:
                self.emit(ind, "注：“多行\n注释”")
            else:
                self.emit(0, "")
        self.line_of[id(s)] = self.nlines
        k = s[0]
        if k == "SDecl":
            pairs = s[1]
            def pair(p):
                c, names, e = p
                return "%s %s %s" % ("、".join(names), "恒为" if c else self.pick(["=", "设为"]), self.expr(e, 1))
            if len(pairs) == 1:
                self.emit(ind, "令" + pair(pairs[0]))
            else:
                self.emit(ind, "令：")
                for p in pairs:
                    self.emit(ind + 1, pair(p))
        elif k == "SWhile":
            self.emit(ind, "每当%s：" % self.expr(s[1], 1))
            self.block(ind + 1, s[2])
        elif k == "SBranch":
            self.emit(ind, "如果%s：" % self.expr(s[1], 1))
            self.block(ind + 1, s[2])
            for ce, cb in s[3]:
                self.emit(ind, "再如%s：" % self.expr(ce, 1))
                self.block(ind + 1, cb)
            if s[4] is not None:
                self.emit(ind, "否则：")
                self.block(ind + 1, s[4])
        elif k == "SIter":
            names = s[2]
            head = ("以" + "、".join(names)) if names else ""
            self.emit(ind, "%s遍历%s：" % (head, self.expr(s[1], 1)))
            self.block(ind + 1, s[3])
        elif k == "SReturn":
            self.emit(ind, "输出" + self.expr(s[1], 1))
        elif k == "SBreak":
            self.emit(ind, "结束循环")
        elif k == "SContinue":
            self.emit(ind, "继续循环")
        elif k == "SThrow":
            self.emit(ind, "抛出%s：%s！" % (s[1], "、".join(self.arg(a) for a in s[2])))
        elif k == "SExpr":
            self.emit(ind, self.expr(s[1], 1))
        elif k == "SFunc":
            self.emit(ind, "如何%s？" % s[1])
            self.exec_block(ind + 1, s[2], s[3], s[4])
            self.emit(0, "")
        elif k == "SCtor":
            self.emit(ind, "如何新建%s？" % s[1])
            self.exec_block(ind + 1, s[2], s[3], s[4])
            self.emit(0, "")
        elif k == "SClass":
            self.emit(ind, "定义%s：" % s[1])
            for pn, pe in s[2]:
                self.emit(ind + 1, "其%s %s %s" % (pn, self.pick(["=", "设为"]), self.expr(pe, 1)))
            for mn, mp, mb, mc in s[3]:
                self.emit(0, "")
                self.emit(ind + 1, "如何%s？" % mn)
                self.exec_block(ind + 2, mp, mb, mc)
            self.emit(0, "")
        else:
            raise ValueError(k)

    def program(self, prog):
        """prog = (inputs, body, catches)"""
        self.lines = []
        self.nlines = 0
        self.exec_block(0, prog[0], prog[1], prog[2])
        return "\n".join(self.lines) + "\n"


def render(prog, rng=None, decorate=None):
    r = Renderer(rng, decorate)
    return r.program(prog), r


# ---------------------------------------------------------------------------- Coq emitter
class CoqEmitter:
    def __init__(self, names, line_of=None):
        self.n = names
        self.line_of = line_of or {}

    def s(self, text):
        return "[" + ";".join(str(ord(c)) for c in text) + "]"

    def opt(self, y):
        return "None" if y is None else "(Some %d)" % self.n.id(y)

    def lst(self, xs):
        return "[" + ";".join(xs) + "]"

    def expr(self, e):
        k = e[0]
        if k == "ENum":
            return "(ENum %d)" % f2bits(e[1])
        if k == "EStr":
            return "(EStr %s)" % self.s(e[1])
        if k == "EVar":
            return "(EVar %d)" % self.n.id(e[1])
        if k == "EArr":
            return "(EArr %s)" % self.lst(self.expr(i) for i in e[1])
        if k == "EMap":
            return "(EMap %s)" % self.lst("(%s,%s)" % (self.s(kk), self.expr(v)) for kk, v in e[1])
        if k == "EArith":
            return "(EArith %s %s %s)" % (ARITH[e[1]][0], self.expr(e[2]), self.expr(e[3]))
        if k == "ELogic":
            return "(ELogic %s %s %s)" % (LOGIC[e[1]][0], self.expr(e[2]), self.expr(e[3]))
        if k == "EAssignVar":
            return "(EAssignVar %d %s)" % (self.n.id(e[1]), self.expr(e[2]))
        if k == "EAssignIndex":
            return "(EAssignIndex %s %s %s)" % (self.expr(e[1]), self.expr(e[2]), self.expr(e[3]))
        if k == "EAssignMember":
            return "(EAssignMember %s %d %s)" % (self.expr(e[1]), self.n.id(e[2]), self.expr(e[3]))
        if k == "EAssignThis":
            return "(EAssignThis %d %s)" % (self.n.id(e[1]), self.expr(e[2]))
        if k == "EIndex":
            return "(EIndex %s %s)" % (self.expr(e[1]), self.expr(e[2]))
        if k == "EMember":
            return "(EMember %s %d)" % (self.expr(e[1]), self.n.id(e[2]))
        if k == "EThisProp":
            return "(EThisProp %d)" % self.n.id(e[1])
        if k == "ECall":
            return "(ECall %d %s %s)" % (self.n.id(e[1]), self.lst(self.expr(a) for a in e[2]), self.opt(e[3]))
        if k == "EMethod":
            ch = self.lst("(%d,%s)" % (self.n.id(m), self.lst(self.expr(a) for a in args)) for m, args in e[2])
            return "(EMethod %s %s %s)" % (self.expr(e[1]), ch, self.opt(e[3]))
        if k == "EBump":
            op = "-" if e[3] else "+"
            if e[1] is None:
                return self.expr(AssignThis(e[2], Arith(op, ThisProp(e[2]), e[4])))
            return self.expr(AssignMember(e[1], e[2], Arith(op, Member(e[1], e[2]), e[4])))
        if k == "ENew":
            return "(ENew %d %s)" % (self.n.id(e[1]), self.lst(self.expr(a) for a in e[2]))
        raise ValueError(k)

    def names(self, ns):
        return self.lst(str(self.n.id(x)) for x in ns)

    def block(self, stmts):
        return self.lst("(%d,%s)" % (self.line_of.get(id(s), 0), self.stmt(s)) for s in stmts)

    def catches(self, cs):
        return self.lst("(%d,%s)" % (self.n.id(cn), self.block(cb)) for cn, cb in cs)

    def stmt(self, s):
        k = s[0]
        if k == "SDecl":
            return "(SDecl %s)" % self.lst("(%s,%s,%s)" % ("true" if c else "false", self.names(ns), self.expr(e)) for c, ns, e in s[1])
        if k == "SWhile":
            return "(SWhile %s %s)" % (self.expr(s[1]), self.block(s[2]))
        if k == "SBranch":
            oth = self.lst("(%s,%s)" % (self.expr(ce), self.block(cb)) for ce, cb in s[3])
            els = "None" if s[4] is None else "(Some %s)" % self.block(s[4])
            return "(SBranch %s %s %s %s)" % (self.expr(s[1]), self.block(s[2]), oth, els)
        if k == "SIter":
            return "(SIter %s %s %s)" % (self.expr(s[1]), self.names(s[2]), self.block(s[3]))
        if k == "SReturn":
            return "(SReturn %s)" % self.expr(s[1])
        if k == "SBreak":
            return "SBreak"
        if k == "SContinue":
            return "SContinue"
        if k == "SThrow":
            return "(SThrow %d %s)" % (self.n.id(s[1]), self.lst(self.expr(a) for a in s[2]))
        if k == "SExpr":
            return "(SExpr %s)" % self.expr(s[1])
        if k == "SFunc":
            return "(SFunc %d %s %s %s)" % (self.n.id(s[1]), self.names(s[2]), self.block(s[3]), self.catches(s[4]))
        if k == "SCtor":
            return "(SCtor %d %s %s %s)" % (self.n.id(s[1]), self.names(s[2]), self.block(s[3]), self.catches(s[4]))
        if k == "SClass":
            props = self.lst("(%d,%s)" % (self.n.id(pn), self.expr(pe)) for pn, pe in s[2])
            ms = self.lst("(%d,(%s,%s,%s))" % (self.n.id(mn), self.names(mp), self.block(mb), self.catches(mc)) for mn, mp, mb, mc in s[3])
            return "(SClass %d %s %s)" % (self.n.id(s[1]), props, ms)
        raise ValueError(k)

    def value(self, v):
        """input values (plain data) as Coq `val` terms; lists/dicts are not supported as inputs here"""
        t = v["t"]
        if t == "num":
            return "(VNum %d)" % int(v["bits"], 16)
        if t == "str":
            return "(VStr %s)" % ("[" + ";".join(str(c) for c in v["v"]) + "]")
        if t == "bool":
            return "(VBool %s)" % ("true" if v["v"] else "false")
        return "VNull"

    def program(self, prog, inputs=None):
        """-> Coq term of type (program * list val)"""
        ins = inputs or {}
        vals = self.lst(self.value(ins[x]) for x in prog[0])
        return "({| p_inputs := %s; p_body := %s; p_catch := %s |}, %s)" % (
            self.names(prog[0]), self.block(prog[1]), self.catches(prog[2]), vals)


# ---------------------------------------------------------------------------- outcome encodings
RUN_FN = ("fun pi => enc_run (run_program 400 (fst pi) (snd pi))")
CASE_TY = "program * list val"
IMPORTS = ("From Coq Require Import List ZArith Bool. Import ListNotations.\n"
           "From Zn.model Require Import SemDefs Sem SemRun.")


def enc_go_value(v, cls_ids):
    """flat encoding of hlib.DumpValue output, matching SemDefs.enc_val"""
    t = v["t"]
    if t == "null":
        return [0]
    if t == "bool":
        return [1, 1 if v["v"] else 0]
    if t == "num":
        return [2, int(v["bits"], 16)]
    if t == "str":
        return [3, len(v["v"])] + list(v["v"])
    if t == "list":
        out = [4, len(v["v"])]
        for it in v["v"]:
            out += enc_go_value(it, cls_ids)
        return out
    if t == "dict":
        out = [5, len(v["v"])]
        for kk, it in v["v"]:
            out += [len(kk)] + list(kk) + enc_go_value(it, cls_ids)
        return out
    if t == "obj":
        return [6, cls_ids.get("".join(chr(c) for c in v["cls"]), -5)]
    if t == "func":
        return [7]
    if t == "class":
        return [8, cls_ids.get("".join(chr(c) for c in v["cls"]), -5)]
    if t == "exc":
        return [9, len(v["msg"])] + list(v["msg"])
    if t == "nil":
        return [-7]
    return [-8]


def enc_go_run(o, cls_ids):
    """-> (head, display lines, final) in the shape of SemRun.enc_run; head uses None for wildcards"""
    if "crash" in o or "panic" in o:
        return {"abnormal": "crash", "detail": o}
    if o.get("hang"):
        return {"abnormal": "hang"}
    disp = [list(l) for l in o.get("display", [])]
    if o["kind"] == "value":
        head = [0] + enc_go_value(o["value"], cls_ids)
    else:
        e = o["err"]
        c = e.get("class")
        if c == "runtime":
            head = [1, e["code"]]
        elif c == "other":
            head = [2] + list(e.get("msg", []))
        elif c == "goexception":
            head = [3] + list(e.get("msg", []))
        elif c == "signal":
            head = [4, e["code"]]
        elif c == "syntax":
            head = [5, e["code"]]
        else:
            head = [6]
    return {"head": head, "display": disp, "raw": o}


def _txt(cps):
    """code points as text; anything that is not a code point (the model's wildcards) shown as <n>"""
    return "".join(chr(c) if 0 <= c < 0x110000 else "<%d>" % c for c in cps)


def compare_run(model, impl):
    """model: list of int lists [head, final, chain, line1, ...] from Coq; impl: enc_go_run output.
    Returns None when they agree, else a short description."""
    if "abnormal" in impl:
        if model[0][0] == 8 and model[0][1] < 900 and impl["abnormal"] == "crash":
            return None        # the model predicts this Go panic (property C10 reports it)
        return "implementation %s" % impl["abnormal"]
    mhead, mlines = model[0], model[3:]
    ihead, ilines = impl["head"], impl["display"]
    # display: a model line [-1] is a line the model does not render (wildcard)
    if len(mlines) != len(ilines):
        return "display trace length differs: model %d lines, implementation %d" % (len(mlines), len(ilines))
    for a, b in zip(mlines, ilines):
        if a == [-1]:
            continue
        if a != b:
            return "display line differs: model %r implementation %r" % (_txt(a), _txt(b))
    if mhead[0] in (2, 3):
        # exception message: [-1, code] inside = runtime fault text (wildcard)
        if ihead[0] != mhead[0]:
            return "error kind differs: model %r implementation %r" % (mhead[:6], ihead[:6])
        if len(mhead) >= 2 and mhead[1] == -1:
            return None
        if mhead[1:] != ihead[1:]:
            return "exception message differs: model %r implementation %r" % (mhead[:12], ihead[:12])
        return None
    if mhead != ihead:
        return "result differs: model %r implementation %r" % (mhead[:16], ihead[:16])
    return None
