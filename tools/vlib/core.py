# Shared machinery of the Zn verification checks (see DESIGN.md section 2.3).
import fcntl
import hashlib
import json
import os
import random
import re
import shutil
import subprocess
import sys
import time

VERIF = os.path.dirname(os.path.dirname(os.path.dirname(os.path.abspath(__file__))))
REPO = os.environ.get("ZN_REPO", "/repo")
COQ = os.path.join(VERIF, "coq")
BUILD = os.path.join(VERIF, "build")
HARNESS_SRC = os.path.join(VERIF, "harness")
REPO_TAG = "" if REPO == "/repo" else "_" + hashlib.sha1(REPO.encode()).hexdigest()[:8]

GOENV = dict(os.environ)
GOENV.update({"GOFLAGS": "-mod=mod", "GOPROXY": "off", "GOSUMDB": "off", "GOTOOLCHAIN": "local",
              "CGO_ENABLED": "0"})

FORBIDDEN = re.compile(r"\b(Admitted|admit|Axiom|Parameter|Conjecture|Abort All)\b|Unset Guard|bypass_check|Admit Obligations|type-in-type|impredicative-set|Unset Positivity|Unset Universe Checking")


class Lock:
    def __init__(self, name):
        os.makedirs(BUILD, exist_ok=True)
        self.path = os.path.join(BUILD, name + ".lock")

    def __enter__(self):
        self.f = open(self.path, "w")
        fcntl.flock(self.f, fcntl.LOCK_EX)
        return self

    def __exit__(self, *a):
        fcntl.flock(self.f, fcntl.LOCK_UN)
        self.f.close()


def _limit_mem(gb):
    def f():
        import resource
        lim = int(gb * (1 << 30))
        resource.setrlimit(resource.RLIMIT_AS, (lim, lim))
        # coqc parses and evaluates large case terms recursively: give it all the stack the hard limit allows
        try:
            soft, hard = resource.getrlimit(resource.RLIMIT_STACK)
            want = hard if hard != resource.RLIM_INFINITY else (256 << 20)
            if soft == resource.RLIM_INFINITY or soft < want:
                resource.setrlimit(resource.RLIMIT_STACK, (want, hard))
        except (ValueError, OSError):
            pass
    return f


def sh(cmd, cwd=None, timeout=600, env=None, input=None, mem_gb=None):
    try:
        p = subprocess.run(cmd, cwd=cwd, timeout=timeout, env=env, input=input,
                           stdout=subprocess.PIPE, stderr=subprocess.STDOUT, text=True,
                           preexec_fn=_limit_mem(mem_gb) if mem_gb else None)
        return p.returncode, p.stdout
    except subprocess.TimeoutExpired as e:
        out = e.stdout if isinstance(e.stdout, str) else (e.stdout or b"").decode("utf8", "replace")
        return 124, (out or "") + "\n[timeout after %ss]" % timeout


# ---------------------------------------------------------------- harness (Go)

def znh_path(name):
    return os.path.join(BUILD, "znh_%s%s" % (name, REPO_TAG))


def build_harness(name):
    """go build -tags verif of /verif/harness/cmd/<name> against the working tree of REPO
    (default /repo; ZN_REPO=<dir> selects a scratch worktree through a generated -modfile)."""
    with Lock("harness_" + name + REPO_TAG):
        os.makedirs(BUILD, exist_ok=True)
        args = ["go", "build", "-tags", "verif"]
        if REPO == "/repo":
            try:
                shutil.copyfile(os.path.join(REPO, "go.sum"), os.path.join(HARNESS_SRC, "go.sum"))
            except OSError:
                pass
        else:
            modfile = os.path.join(BUILD, "go%s.mod" % REPO_TAG)
            txt = open(os.path.join(HARNESS_SRC, "go.mod")).read().replace("=> /repo", "=> " + REPO)
            with open(modfile, "w") as f:
                f.write(txt)
            try:
                shutil.copyfile(os.path.join(REPO, "go.sum"), os.path.join(BUILD, "go%s.sum" % REPO_TAG))
            except OSError:
                pass
            args += ["-modfile", modfile]
        rc, out = sh(args + ["-o", znh_path(name), "./cmd/" + name], cwd=HARNESS_SRC, env=GOENV, timeout=600)
        return rc == 0, out


def harness(name, cmd, cases, timeout_ms=5000, batch_timeout=600, confirm_hangs=True):
    """Run `znh cmd` over cases (dicts). Survives crashes/hangs of the worker: the case at
    which the worker died is reported as {"crash": ...} / {"hang": true} and the rest resumes.
    A case reported as hanging is run once more alone with ten times the time limit (at least 20 s) before the hang is
    believed: on a loaded machine a worker may simply not have been scheduled."""
    results = _harness_once(name, cmd, cases, timeout_ms, batch_timeout)
    if confirm_hangs:
        confirmed = 0
        for k, r in enumerate(results):
            if isinstance(r, dict) and r.get("hang") and k < len(cases):
                if confirmed >= 3:
                    continue       # three hangs have been confirmed at ten times the limit: the others are believed as they are
                t = max(20000, 10 * int(cases[k].get("timeout_ms", timeout_ms)))
                again = _harness_once(name, cmd, [dict(cases[k], timeout_ms=t)], t, batch_timeout=max(60, t // 1000 + 30))
                if again:
                    results[k] = again[0]
                    if isinstance(again[0], dict) and again[0].get("hang"):
                        confirmed += 1
    return results


def _harness_once(name, cmd, cases, timeout_ms, batch_timeout):
    results = []
    i = 0
    n = len(cases)
    while i < n:
        payload = "".join(json.dumps(dict(c, timeout_ms=c.get("timeout_ms", timeout_ms)), ensure_ascii=True) + "\n"
                          for c in cases[i:])
        try:
            p = subprocess.run([znh_path(name), cmd], input=payload.encode(), stdout=subprocess.PIPE,
                               stderr=subprocess.PIPE, timeout=batch_timeout)
            rc, out, err = p.returncode, p.stdout, p.stderr
        except subprocess.TimeoutExpired as e:
            rc, out, err = 124, e.stdout or b"", e.stderr or b""
        lines = [l for l in out.decode("utf8", "replace").split("\n") if l.strip()]
        got = []
        for l in lines:
            try:
                got.append(json.loads(l))
            except ValueError:
                break
        results.extend(got)
        i += len(got)
        if sum(1 for r_ in results if isinstance(r_, dict) and r_.get("hang")) >= 15 and i < n:
            # a change that makes very many inputs hang: every hang costs a time limit and a new worker; stop here, the
            # hangs seen so far are reported and the remaining cases of the batch are marked as not run
            results.extend({"hang": True, "not_run": "batch stopped after 15 hanging cases"} for _ in range(n - i))
            return results
        if i < n and (rc != 0 or len(got) == 0):
            if got and got[-1].get("hang"):
                continue  # worker left after reporting a hang; resume with the next case
            # worker died on case i without reporting
            tail = err.decode("utf8", "replace")[-2000:]
            first = tail.strip().split("\n")[0] if tail.strip() else ""
            m = re.search(r"(fatal error: [^\n]*|panic: [^\n]*|runtime: [^\n]*)", tail)
            results.append({"crash": (m.group(1) if m else first)[:300], "rc": rc})
            i += 1
        elif i < n:
            # clean exit but missing outputs: should not happen
            results.append({"crash": "no output", "rc": rc})
            i += 1
    return results


# ---------------------------------------------------------------- Coq

COQ_DIRS = ["lib", "gen", "spec", "model", "proofs", "props"]


def coq_makefile():
    """_CoqProject lists every .v under lib/ gen/ spec/ model/ proofs/ props/; regenerated when the set changes."""
    files = []
    for d in COQ_DIRS:
        dd = os.path.join(COQ, d)
        if os.path.isdir(dd):
            for root, _, fns in os.walk(dd):
                for fn in sorted(fns):
                    if fn.endswith(".v"):
                        files.append(os.path.relpath(os.path.join(root, fn), COQ))
    files.sort()
    txt = ("-R . Zn\n-arg -w -arg -notation-overridden,-deprecated-hint-without-locality,"
           "-deprecated-instance-without-locality,-ambiguous-paths\n" + "\n".join(files) + "\n")
    cp = os.path.join(COQ, "_CoqProject")
    old = open(cp).read() if os.path.exists(cp) else ""
    mk = os.path.join(COQ, "Makefile")
    if old != txt or not os.path.exists(mk):
        with open(cp, "w") as f:
            f.write(txt)
        sh(["coq_makefile", "-f", "_CoqProject", "-o", "Makefile"], cwd=COQ)


def coq_make(targets=None, timeout=1500, force=None):
    """Full .vo build (never -vos) of the given targets (default: everything).  [force]: compiled files removed first, inside
    the lock (another check of the same property may be re-checking them with coqchk under that lock)."""
    with Lock("coq"):
        for vo in (force or []):
            try:
                os.remove(os.path.join(COQ, vo))
            except OSError:
                pass
        coq_makefile()
        cmd = ["make", "-j16"] + (targets or [])
        rc, out = sh(cmd, cwd=COQ, timeout=timeout, mem_gb=10)   # per process (make -j16 forks several coqc)
        return rc == 0, out


STD_AXIOMS = {"Coq.Logic.FunctionalExtensionality.functional_extensionality_dep", "Coq.Reals.ClassicalDedekindReals.sig_not_dec",
              "Coq.Reals.ClassicalDedekindReals.sig_forall_dec", "Coq.Logic.Classical_Prop.classic"}


def coqchk(vfile, timeout=2400):
    """independent re-check of the compiled props file and everything it depends on (coqchk -o);
    -> (ok, axioms reported, problems)"""
    mod = "Zn." + vfile[:-2].replace("/", ".")
    with Lock("coq"):
        # (another check of the same property may have removed the compiled file since it was built: build it again first)
        sh(["make", "-j16", vfile[:-2] + ".vo"], cwd=COQ, timeout=1500, mem_gb=10)
        rc, out = sh(["coqchk", "-silent", "-o", "-R", ".", "Zn", mod], cwd=COQ, timeout=timeout, mem_gb=16)
    axioms, problems = [], []
    sec = None
    for line in out.split("\n"):
        t = line.strip()
        if t.startswith("* "):
            sec = t[2:].split(":")[0]
            rest = t.split(":", 1)[1].strip() if ":" in t else ""
            if rest and rest != "<none>" and sec != "Theory":
                (axioms if sec == "Axioms" else problems).append(sec + ": " + rest)
            continue
        if t and sec and not t.startswith("CONTEXT") and not t.startswith("==="):
            if sec == "Axioms":
                axioms.append(t)
            elif sec != "Theory":
                problems.append(sec + ": " + t)
    axioms = [a.replace("Axioms: ", "") for a in axioms]
    # anything the standard library itself declares (Coq.*: classical logic, functional extensionality, the real-number axioms,
    # the primitive 63-bit integers and their specifications) is allowed and reported; anything else is a problem
    extra = [a for a in axioms if a not in STD_AXIOMS and not a.startswith("Coq.")]
    if extra:
        problems.append("axioms outside the standard library's: " + ", ".join(extra))
    if rc != 0:
        problems.append("coqchk exit %d: %s" % (rc, out[-400:]))
    return (rc == 0 and not problems), axioms, problems


def coq_cone(vfile):
    """the .v files props/Cnn.v transitively depends on (from coqdep), including itself"""
    files = []
    for d in COQ_DIRS:
        dd = os.path.join(COQ, d)
        if os.path.isdir(dd):
            for root, _, fns in os.walk(dd):
                for fn in fns:
                    if fn.endswith(".v"):
                        files.append(os.path.relpath(os.path.join(root, fn), COQ))
    rc, out = sh(["coqdep", "-R", ".", "Zn"] + sorted(files), cwd=COQ, timeout=120)
    deps = {}
    for line in out.split("\n"):
        if ":" not in line or ".vo" not in line:
            continue
        lhs, rhs = line.split(":", 1)
        tgt = [t for t in lhs.split() if t.endswith(".vo")]
        if not tgt:
            continue
        src = tgt[0][:-1]
        deps[src] = [t[:-1] for t in rhs.split() if t.endswith(".vo") and not t.startswith("/")]
    cone, todo = set(), [vfile]
    while todo:
        f = todo.pop()
        if f in cone:
            continue
        cone.add(f)
        todo.extend(deps.get(f, []))
    return sorted(cone)


def lint_coq(vfile=None):
    """Forbidden-word scan (comments stripped) over the dependency cone of vfile, or the whole development."""
    if vfile is not None:
        paths = [os.path.join(COQ, f) for f in coq_cone(vfile)]
    else:
        paths = []
        for root, _, files in os.walk(COQ):
            if os.path.basename(root) == "cases":
                continue
            paths += [os.path.join(root, fn) for fn in files if fn.endswith(".v")]
    bad = []
    for p in paths:
        if not os.path.exists(p):
            continue
        txt = strip_coq_comments(open(p, encoding="utf8").read())
        for m in FORBIDDEN.finditer(txt):
            bad.append("%s: %s" % (os.path.relpath(p, VERIF), m.group(0)))
    return bad


def strip_coq_comments(txt):
    out = []
    depth = 0
    i = 0
    instr = False
    while i < len(txt):
        if not instr and txt.startswith("(*", i):
            depth += 1
            i += 2
            continue
        if not instr and depth > 0 and txt.startswith("*)", i):
            depth -= 1
            i += 2
            continue
        if depth == 0:
            if txt[i] == '"':
                instr = not instr
            out.append(txt[i])
        i += 1
    return "".join(out)


def theorems_in(vfile):
    txt = strip_coq_comments(open(os.path.join(COQ, vfile), encoding="utf8").read())
    return re.findall(r"\b(?:Theorem|Lemma|Example|Corollary)\s+([A-Za-z0-9_']+)", txt)


def assumptions_in_log(log):
    """Collect axioms printed by Print Assumptions in a make/coqc log."""
    ax = set()
    blocks = re.split(r"\n(?=Axioms:|Closed under the global context)", log)
    for b in blocks:
        if b.startswith("Axioms:"):
            for m in re.finditer(r"^([A-Za-z_][A-Za-z0-9_.']*)\s*:", b[len("Axioms:"):], re.M):
                ax.add(m.group(1))
    return sorted(ax)


def coq_eval(name, text, timeout=900):
    """Write coq/cases/<name>.v, compile it, return (rc, output)."""
    d = os.path.join(COQ, "cases")
    os.makedirs(d, exist_ok=True)
    p = os.path.join(d, name + ".v")
    with open(p, "w", encoding="utf8") as f:
        f.write(text)
    rc, out = sh(["coqc", "-R", ".", "Zn", "-w", "-notation-overridden,-deprecated-hint-without-locality", os.path.join("cases", name + ".v")], cwd=COQ, timeout=timeout, mem_gb=12)
    # the case file itself is kept only when its evaluation failed (for inspection)
    for ext in (".vo", ".vok", ".vos", ".glob") + ((".v",) if rc == 0 and not os.environ.get("VERIF_KEEP_CASES") else ()):
        try:
            os.remove(os.path.join(d, name + ext))
        except OSError:
            pass
    try:
        os.remove(os.path.join(d, "." + name + ".aux"))
    except OSError:
        pass
    return rc, out


def parse_coq_value(out, marker=None):
    """Parse the first `= <nested list of integers>` printed by Eval/Print into Python lists."""
    s = out
    if marker is not None:
        k = s.find(marker)
        if k < 0:
            return None
        s = s[k + len(marker):]
    k = s.find("=")
    if k < 0:
        return None
    s = s[k + 1:]
    # cut at the type annotation ": list ..." (depth 0)
    depth = 0
    end = len(s)
    for i, ch in enumerate(s):
        if ch == "[":
            depth += 1
        elif ch == "]":
            depth -= 1
            if depth == 0:
                end = i + 1
                break
    s = s[:end]
    s = s.replace("%Z", "").replace("%nat", "").replace("%N", "").replace("(", "").replace(")", "")
    s = re.sub(r"\s+", "", s).replace(";", ",")
    try:
        return json.loads(s)
    except ValueError:
        return None


def zlist(xs):
    return "[" + ";".join(str(int(x)) for x in xs) + "]"


def zlistlist(xss):
    return "[" + ";".join(zlist(x) for x in xss) + "]"


def coq_bool(b):
    return "true" if b else "false"


def coq_run_cases(name, imports, run_fn, case_terms, ty="list Z", shard=400, timeout=900, jobs=8, case_ty=None):
    """Evaluate `run_fn case` inside Coq for every case term; returns list of parsed results
    (each a nested int list) or raises RuntimeError with the Coq output."""
    from concurrent.futures import ThreadPoolExecutor
    shards = [case_terms[i:i + shard] for i in range(0, len(case_terms), shard)]

    def one(k_terms):
        k, terms = k_terms
        txt = [imports, "Set Printing Depth 10000000.", "Set Printing Width 200.", "Open Scope Z_scope.",
               ("Definition cases_%d : list (%s) := [" % (k, case_ty)) if case_ty else ("Definition cases_%d := [" % k)]
        txt.append(";\n".join("(" + t + ")" for t in terms))
        txt.append("].")
        txt.append("Definition out_%d := Eval vm_compute in (List.map (%s) cases_%d)." % (k, run_fn, k))
        txt.append("Print out_%d." % k)
        rc, out = coq_eval("%s_%d_%d" % (name, os.getpid(), k), "\n".join(txt), timeout=timeout)
        if rc != 0:
            raise RuntimeError("coq evaluation failed (%s, shard %d of %d, %d cases, %d characters):\n" % (name, k, len(shards), len(terms), sum(len(t) for t in terms)) + out[-3000:])
        val = parse_coq_value(out, marker="out_%d" % k)
        if val is None or len(val) != len(terms):
            raise RuntimeError("cannot parse coq output:\n" + out[:2000])
        return val

    res = []
    with ThreadPoolExecutor(max_workers=jobs) as ex:
        for val in ex.map(one, list(enumerate(shards))):
            res.extend(val)
    return res


# ---------------------------------------------------------------- known findings

def load_findings():
    """known_findings.json (committed, never written at run time)."""
    p = os.path.join(VERIF, "known_findings.json")
    if not os.path.exists(p):
        return []
    return json.load(open(p, encoding="utf8")).get("findings", [])


# ---------------------------------------------------------------- check context

class Check:
    def __init__(self, pid, tier, seed):
        self.pid = pid
        self.tier = tier
        self.seed = seed
        self.rng = random.Random(seed * 1000003 + int(pid[1:]))
        self.t0 = time.time()
        self.violations = []       # dicts: {what, signature, replay{...}, no_input: bool}
        self.coverage = {"evaluations": 0, "distinct_nontrivial": 0, "samples": [], "rule": ""}
        self.assumptions = []
        self.obligations = []
        self.discharged = []
        self.axioms = []
        self.notes = []
        self._distinct = set()

    # -- bookkeeping
    def count(self, case_key, nontrivial=True):
        self.coverage["evaluations"] += 1
        if nontrivial:
            h = hashlib.sha1(json.dumps(case_key, sort_keys=True, ensure_ascii=True).encode()).hexdigest()
            self._distinct.add(h)

    def sample(self, s):
        if len(self.coverage["samples"]) < 8:
            self.coverage["samples"].append(s)

    def dist(self, key, val=1):
        d = self.coverage.setdefault("distribution", {})
        d[key] = d.get(key, 0) + val

    def violation(self, what, signature, replay, no_input=False):
        self.violations.append({"what": what, "signature": signature, "replay": replay, "no_input": no_input})

    # -- the proof side
    def build_proofs(self, vfile, extra_targets=None):
        """(Re)build props file and its dependency cone; record obligations/discharged."""
        names = theorems_in(vfile)
        self.obligations = names
        vo = vfile[:-2] + ".vo"
        # force the props file itself to be rechecked so that Print Assumptions output is captured
        ok, log = coq_make([vo] + (extra_targets or []), force=[vo])
        bad = lint_coq(vfile)
        if bad:
            ok = False
            log += "\nFORBIDDEN: " + "; ".join(bad)
        self.axioms = assumptions_in_log(log)
        if ok:
            self.discharged = list(names)
        else:
            self.discharged = []
            m = re.search(r'File "\./([^"]+)", line (\d+)[^\n]*\n(Error:[^\n]*(?:\n[^\n]*){0,6})', log)
            where = ("%s:%s %s" % (m.group(1), m.group(2), m.group(3).strip()[:400])) if m else log[-600:]
            self.proof_failure = where
        return ok, log

    # -- final report
    def finish(self, level="proof", checker_cmd="", trusted_base=None, extra=None):
        findings = [f for f in load_findings() if f.get("property") == self.pid]
        open_sigs = {f["signature"]: f for f in findings if f.get("status") == "open"}
        lines = []
        nviol = 0
        seen_known = set()
        # runs against a scratch worktree (ZN_REPO) keep their evidence and replays apart from the tree's own
        outdir = VERIF if REPO == "/repo" else os.path.join(BUILD, "alt" + REPO_TAG)
        rdir = os.path.join(outdir, "replays", self.pid)
        for v in self.violations:
            sig = v["signature"]
            if sig in open_sigs:
                if sig not in seen_known:
                    seen_known.add(sig)
                    lines.append("KNOWN-FINDING: property=%s %s" % (self.pid, open_sigs[sig].get("what", sig)))
                continue
            os.makedirs(rdir, exist_ok=True)
            body = json.dumps(v["replay"], ensure_ascii=False, sort_keys=True, indent=1)
            h = hashlib.sha1(body.encode()).hexdigest()[:12]
            rp = os.path.join(rdir, "%s.json" % h)
            with open(rp, "w", encoding="utf8") as f:
                f.write(body)
            nviol += 1
            if nviol <= 5:
                tail = " no-failing-input-found" if v["no_input"] else ""
                lines.append("VIOLATION property=%s replay=%s%s" % (self.pid, os.path.relpath(rp, VERIF), tail))
                lines.append("  # " + v["what"][:300].replace("\n", " ⏎ "))
        cov = dict(self.coverage)
        cov["distinct_nontrivial"] = len(self._distinct)
        cov["obligations"] = len(self.obligations)
        cov["discharged"] = len(self.discharged)
        cov["obligation_names"] = self.obligations
        cov["checker_cmd"] = checker_cmd or "make -C coq props/%s.vo (coqc 8.16.1, full .vo build) + coqc cases (vm_compute)" % self.pid
        cov["trusted_base"] = (trusted_base or []) + ["Coq 8.16.1 kernel + vm_compute (no native_compute)",
                                                     "axioms reported by Print Assumptions: " + (", ".join(self.axioms) if self.axioms else "none (closed under the global context)")]
        cov["known_findings_reported"] = sorted(seen_known)
        if extra:
            cov.update(extra)
        ev = {"property_id": self.pid, "tier": self.tier, "seed": self.seed, "level": level,
              "coverage": cov, "assumptions": self.assumptions, "wall_s": round(time.time() - self.t0, 2),
              "violations": nviol}
        os.makedirs(os.path.join(outdir, "evidence"), exist_ok=True)
        with open(os.path.join(outdir, "evidence", self.pid + ".json"), "w", encoding="utf8") as f:
            json.dump(ev, f, ensure_ascii=False, indent=1)
        for l in lines:
            print(l)
        print("%s tier=%s seed=%d evaluations=%d distinct=%d obligations=%d/%d violations=%d wall=%.1fs" % (
            self.pid, self.tier, self.seed, cov["evaluations"], cov["distinct_nontrivial"],
            cov["discharged"], cov["obligations"], nviol, time.time() - self.t0))
        return 1 if nviol else 0


def proof_violation(chk, log_where, theorem_file):
    chk.violation("proof obligations of %s no longer check: %s" % (theorem_file, log_where),
                  "proof-broken:" + theorem_file,
                  {"kind": "proof-obligation", "file": theorem_file, "detail": log_where}, no_input=True)
