# proggen.py — seeded generator of well-scoped, terminating, mostly well-typed Zn programs in the
# fragment modelled by coq/model/Sem.v.  One generator, several profiles (per property).
from vlib.semgen import *

VAR_NAMES = ["Va", "Vb", "Vc", "Vd", "Ve", "Vf", "Vg", "Vh"]
FUN_NAMES = ["Fa", "Fb", "Fc", "Fd"]
CLS_NAMES = ["Ca", "Cb", "Cc"]
PROP_NAMES = ["Pa", "Pb", "Pc"]
METH_NAMES = ["Ma", "Mb", "Mc"]
KEYS = ["k", "m", "z", "甲", "乙", "key1"]
BOUNDARY = [0.0, -0.0, 1.0, -1.0, 0.5, 2.0, 3.0, 7.0, -7.0, 1.5, 1e308, -1e308, 5e-324, 2.0 ** 53, 1e-7, 123456789.0,
            0.1, 0.2, 0.3, 1e21, 1e22, 2.5e-3]


class Profile:
    def __init__(self, **kw):
        self.ops = True            # arithmetic / logic operators
        self.control = 1.0         # weight of branches / loops
        self.collections = 1.0     # lists / dicts and their methods
        self.funcs = 1.0
        self.classes = 1.0
        self.exceptions = 1.0
        self.markers = 0.5         # probability of a display marker between statements
        self.boundary_nums = 0.0   # probability that a number literal is a boundary double
        self.type_errors = 0.03    # probability of deliberately ill-typed operand
        self.max_depth = 3
        self.stmts = (3, 8)
        self.probe = 0.35          # probability that a loop / branch condition or iteration target is observed through the
                                   # displaying identity method Fq (how often and when it is evaluated becomes visible)
        self.scope_faults = 0.0    # weight of statements that probe block scoping (dead names, shadowing, constants)
        self.__dict__.update(kw)


class Gen:
    def __init__(self, rng, prof):
        self.rng = rng
        self.p = prof
        self.marker = 0
        self.scopes = [{}]          # name -> type
        self.funcs = {}             # name -> nparams
        self.classes = {}           # name -> {"props": {name: type}, "methods": {name: nparams}, "ctor": nparams or None}
        self.exc_classes = []
        self.in_func = 0
        self.in_loop = 0
        self.in_method = None
        self.counter = 0
        self.dead = []              # names whose block has ended
        self.has_probe = False
        self.has_badcall = False
        self.has_hdef = False
        self.frozen = []            # collections being iterated over: not changed inside their own loop (what a loop over a
                                    # collection that changes under it visits is not specified by the properties)
        self.ret_type = None        # "num" while generating the body of a number-valued method
        self.fret = {}              # method name -> "num" | None

    # ------------------------------------------------------------ helpers
    def fresh(self, pool=VAR_NAMES):
        self.counter += 1
        return "%s%s" % (self.rng.choice(pool), "".join(self.rng.choice("xyzwqr") for _ in range(2))) + self.alpha(self.counter)

    def alpha(self, n):
        s = ""
        while n > 0:
            s += chr(ord("a") + n % 26)
            n //= 26
        return s

    def mutable_of(self, t):
        return [n for n in self.vars_of(t) if n not in self.frozen]

    def vars_of(self, t=None):
        out = []
        seen = set()
        for sc in reversed(self.scopes):
            for n, ty in sc.items():
                if n in seen:
                    continue
                seen.add(n)
                if t is None or ty == t or (t == "obj" and ty.startswith("obj:")):
                    out.append(n)
        return out

    def type_of(self, n):
        for sc in reversed(self.scopes):
            if n in sc:
                return sc[n]
        return None

    def declare(self, n, t):
        self.scopes[-1][n] = t

    def mark(self):
        self.marker += 1
        return Display(Num(self.marker))

    # ------------------------------------------------------------ expressions
    def num_lit(self):
        r = self.rng.random()
        if r < self.p.boundary_nums:
            return Num(self.rng.choice(BOUNDARY))
        if r < 0.75:
            return Num(self.rng.randrange(-3, 10))
        return Num(self.rng.randrange(-6, 20) / 2.0)

    def expr(self, t, d=0):
        """an expression of (mostly) type t in num bool str list dict any"""
        rng = self.rng
        if t == "any":
            t = rng.choice(["num", "num", "bool", "str", "list", "dict"])
        if rng.random() < self.p.type_errors and d > 0:
            t = rng.choice(["num", "bool", "str", "list", "dict", "null"])
        deep = d < self.p.max_depth and rng.random() < 0.6
        vs = self.vars_of(t)
        if t == "null":
            return Var("空")
        if t == "num":
            if vs and rng.random() < 0.35:
                return Var(rng.choice(vs))
            if deep and self.p.ops:
                k = rng.random()
                if k < 0.75:
                    op = rng.choice(["+", "-", "*", "/", "|", "%", "+", "-", "*"])
                    if op in "/|%" and rng.random() < 0.75:
                        # mostly non-zero literal divisors: division by zero stays covered without ending every other program
                        return Arith(op, self.expr("num", d + 1), Num(rng.choice([1, 2, 3, 4, 7, 0.5, 2.5, -2, -3])))
                    return Arith(op, self.expr("num", d + 1), self.expr("num", d + 1))
                if k < 0.85 and self.vars_of("list"):
                    return Member(Var(rng.choice(self.vars_of("list"))), rng.choice(["长度", "数目"]))
                if k < 0.95 and self.p.funcs and [f for f in self.funcs if self.fret.get(f) == "num"]:
                    return self.call_expr(d, numeric=True)
            return self.num_lit()
        if t == "bool":
            if vs and rng.random() < 0.3:
                return Var(rng.choice(vs))
            if deep and self.p.ops:
                k = rng.random()
                if k < 0.35:
                    return Logic(rng.choice(["and", "or"]), self.expr("bool", d + 1), self.expr("bool", d + 1))
                if k < 0.7:
                    return Logic(rng.choice(["gt", "gte", "lt", "lte", "eq", "neq"]), self.expr("num", d + 1), self.expr("num", d + 1))
                tt = rng.choice(["num", "str", "bool", "list", "dict", "any"])
                t2 = tt if rng.random() < 0.8 else "any"
                return Logic(rng.choice(["xeq", "xneq", "eq", "neq"]), self.expr(tt, d + 1), self.expr(t2, d + 1))
            return Var(rng.choice(["真", "假"]))
        if t == "str":
            if vs and rng.random() < 0.4:
                return Var(rng.choice(vs))
            return Str(rng.choice(["", "a", "ab", "甲", "你好", "x y", "k"]))
        if t == "list":
            if vs and rng.random() < 0.5:
                return Var(rng.choice(vs))
            n = rng.choice([0, 1, 2, 3, 3, 4])
            et = rng.choice(["num", "num", "str", "any"]) if d < self.p.max_depth else "num"
            return Arr([self.expr(et if rng.random() < 0.8 else "list", d + 1) if d < self.p.max_depth else self.num_lit() for _ in range(n)])
        if t == "dict":
            if vs and rng.random() < 0.5:
                return Var(rng.choice(vs))
            n = rng.choice([0, 1, 2, 3])
            keys = [rng.choice(KEYS) for _ in range(n)]
            return Map([(k, self.expr(rng.choice(["num", "str", "list", "dict"]) if d < self.p.max_depth - 1 else "num", d + 1)) for k in keys])
        if t.startswith("obj"):
            if vs:
                return Var(rng.choice(vs))
            if self.classes:
                c = rng.choice(sorted(self.classes))
                return self.new_expr(c, d)
            return Var("空")
        return self.num_lit()

    def call_expr(self, d, numeric=False):
        f = self.rng.choice(sorted(f for f in self.funcs if not numeric or self.fret.get(f) == "num"))
        n = self.funcs[f]
        if self.rng.random() < 0.1:
            # a wrong number of arguments (one too many also for a method without inputs): an error, the body does not run
            n = n + 1 if n == 0 else max(0, n + self.rng.choice([-1, 1]))
        return Call(f, [self.expr(self.rng.choice(["num", "num", "any"]), d + 1) for _ in range(n)])

    def new_expr(self, c, d):
        n = self.classes[c]["ctor"]
        if n is not None and self.rng.random() < 0.08:
            n = n + 1 if n == 0 else max(0, n + self.rng.choice([-1, 1]))
        args = [] if n is None else [self.expr("num", d + 1) for _ in range(n)]
        if n is None and self.rng.random() < 0.2:
            args = [self.num_lit()]
        return New(c, args)

    # ------------------------------------------------------------ statements
    def block(self, d, n=None):
        self.scopes.append({})
        lo, hi = self.p.stmts
        n = n if n is not None else self.rng.randrange(1, max(2, hi // (d + 1)))
        out = []
        for _ in range(n):
            if self.rng.random() < self.p.markers:
                out.append(self.mark())
            out.extend(self.stmt(d))
        if self.rng.random() < self.p.markers:
            out.append(self.mark())
        gone = self.scopes.pop()
        for n in gone:
            if self.type_of(n) is None:
                self.dead.append(n)
        return out

    def stmt(self, d):
        rng = self.rng
        p = self.p
        choices = [("decl", 3.0), ("assign", 2.0), ("expr", 1.0)]
        if d < p.max_depth:
            choices += [("if", 1.5 * p.control), ("while", 0.8 * p.control), ("iter", 1.0 * p.control)]
        if self.in_loop:
            choices += [("break", 0.5 * p.control), ("continue", 0.5 * p.control)]
        choices += [("return", 0.5 * p.control if (self.in_func or d > 0) else 0.1)]
        choices += [("coll", 2.0 * p.collections)]
        if self.funcs:
            choices += [("call", 1.5 * p.funcs)]
        if self.classes:
            choices += [("obj", 1.5 * p.classes)]
        choices += [("throw", 0.4 * p.exceptions), ("fault", 0.3 * p.exceptions)]
        if p.scope_faults:
            choices += [("scope", p.scope_faults)]
        tot = sum(w for _, w in choices)
        x = rng.random() * tot
        kind = choices[-1][0]
        for k, w in choices:
            if x < w:
                kind = k
                break
            x -= w
        return getattr(self, "s_" + kind)(d)

    def s_decl(self, d):
        t = self.rng.choice(["num", "num", "bool", "str", "list", "dict"])
        if self.classes and self.rng.random() < 0.2 * self.p.classes:
            c = self.rng.choice(sorted(self.classes))
            n = self.fresh()
            e = self.new_expr(c, d)
            self.declare(n, "obj:" + c)
            return [Decl([(False, [n], e)])]
        e = self.expr(t, d)
        r = self.rng.random()
        if r < 0.12:
            a, b = self.fresh(), self.fresh()
            self.declare(a, t)
            self.declare(b, t)
            return [Decl([(False, [a, b], e)])]
        if r < 0.2:
            a, b = self.fresh(), self.fresh()
            e2 = self.expr("num", d)
            self.declare(a, t)
            self.declare(b, "num")
            return [Decl([(False, [a], e), (self.rng.random() < 0.3, [b], e2)])]
        if r < 0.24 and self.vars_of():
            # redeclaration in the same or an inner block
            n = self.rng.choice(self.vars_of())
            self.declare(n, t)
            return [Decl([(False, [n], e)])]
        n = self.fresh()
        c = self.rng.random() < 0.15
        self.declare(n, t if not c else "const:" + t)
        return [Decl([(c, [n], e)])]

    def s_scope(self, d):
        """statements that probe block scoping and constness (C06)"""
        rng = self.rng
        live = self.vars_of()
        dead = [n for n in self.dead if self.type_of(n) is None]
        kinds = ["shadow", "shadow", "yield"]
        if dead:
            kinds += ["dead-read", "dead-assign", "dead-redeclare"]
        consts = [n for n in live if self.type_of(n).startswith("const:")]
        if consts:
            kinds += ["const-assign", "const-shadow"]
        if self.funcs:
            kinds += ["def-assign"]
        if self.has_hdef:
            kinds += ["hdef", "hdef"]
        kinds += ["block-decl"]
        k = rng.choice(kinds)
        if k == "block-decl":
            # 令： with several pairs: each pair is a constant or a variable on its own account, whatever stands before it
            c1, v1, v2 = self.fresh(), self.fresh(), self.fresh()
            order = rng.choice([[(True, c1), (False, v1), (False, v2)], [(False, v1), (True, c1), (False, v2)], [(False, v1), (False, v2), (True, c1)]])
            out = [Decl([(c, [n], self.num_lit()) for c, n in order])]
            self.declare(c1, "const:num")
            self.declare(v1, "num")
            self.declare(v2, "num")
            out += [ExprS(AssignVar(v2, self.num_lit())), ExprS(AssignVar(v1, self.num_lit())), Display(Var(v1), Var(v2), Var(c1))]
            if rng.random() < 0.3:
                out.append(ExprS(AssignVar(c1, self.num_lit())))
            return out
        if k == "hdef":
            return [Display(Call("Fh", []))] if rng.random() < 0.75 else [Display(Call("Fi", []))]
        if k == "dead-read":
            return [Display(Var(rng.choice(dead)))]
        if k == "dead-assign":
            return [ExprS(AssignVar(rng.choice(dead), self.num_lit()))]
        if k == "dead-redeclare":
            n = rng.choice(dead)
            self.declare(n, "num")
            return [Decl([(False, [n], self.num_lit())]), Display(Var(n))]
        if k == "const-assign":
            n = rng.choice(consts)
            return [ExprS(AssignVar(n, self.num_lit())), Display(Var(n))]
        if k == "def-assign":
            return [ExprS(AssignVar(rng.choice(sorted(self.funcs)), self.num_lit()))]
        if k == "yield":
            if not self.funcs:
                k = "shadow"
            else:
                f = rng.choice(sorted(self.funcs))
                r = self.fresh()
                out = [ExprS(Call(f, [self.expr("num", d + 1) for _ in range(self.funcs[f])], r))]
                self.declare(r, "const:any")
                if rng.random() < 0.5:
                    out.append(ExprS(AssignVar(r, self.num_lit())))
                return out
        if self.funcs and rng.random() < 0.25:
            # an inner block declares a variable under the name of a method of the module: inside the block the name is the
            # variable — reading it gives the number, calling it is an error (it is not a method) — and the method is back afterwards
            fn = rng.choice(sorted(self.funcs))
            inner = [Decl([(False, [fn], self.num_lit())]), Display(Var(fn))]
            if rng.random() < 0.6:
                inner.append(Display(Call(fn, [self.num_lit() for _ in range(self.funcs[fn])])))
            after = [Display(Call(fn, [self.num_lit() for _ in range(self.funcs[fn])]))] if rng.random() < 0.5 else []
            return [Branch(Logic("eq", Num(1), Num(1)), inner)] + after
        # shadowing: an inner block redeclares an outer name (constant or not), changes it, and the outer one is read again
        if not live:
            return self.s_decl(d)
        n = rng.choice(consts if (k == "const-shadow" and consts) else live)
        inner = [Decl([(rng.random() < 0.2, [n], self.num_lit())]), Display(Var(n))]
        if rng.random() < 0.5:
            inner.append(ExprS(AssignVar(n, self.num_lit())))
            inner.append(Display(Var(n)))
        if self.has_badcall and rng.random() < 0.5:
            # a call that fails while its inputs are bound (the same input name twice) and is handled by its caller:
            # the blocks around it still end where they end
            inner.insert(rng.randrange(1, len(inner) + 1), Display(Call("Ftry", [])))
        extra = self.fresh()
        inner.append(Decl([(False, [extra], self.num_lit())]))
        self.dead.append(extra)
        wrapper = rng.choice(["if", "while", "iter"])
        if wrapper == "if":
            st = Branch(Logic("eq", Num(1), Num(1)), inner)
        elif wrapper == "while":
            g = self.fresh()
            self.declare(g, "num")
            st0 = Decl([(False, [g], Num(0))])
            st = While(Logic("lt", Var(g), Num(2)), [ExprS(AssignVar(g, Arith("+", Var(g), Num(1))))] + inner)
            return [st0, st, Display(Var(n))]
        else:
            st = Iter(Arr([Num(1), Num(2)]), [], inner)
        return [st, Display(Var(n))]

    def s_assign(self, d):
        vs = self.vars_of()
        if not vs:
            return self.s_decl(d)
        n = self.rng.choice(vs)
        t = self.type_of(n)
        if t.startswith("const:"):
            if self.rng.random() < 0.7:
                return self.s_decl(d)
            t = t[6:]
        if n in self.frozen and t in ("list", "dict"):
            return self.s_decl(d)
        if t == "list" and self.rng.random() < 0.5:
            return [ExprS(AssignIndex(Var(n), Num(self.rng.randrange(0, 5)), self.expr(self.rng.choice(["num", "list", "str"]), d + 1)))]
        if t == "dict" and self.rng.random() < 0.5:
            return [ExprS(AssignIndex(Var(n), Str(self.rng.choice(KEYS)), self.expr(self.rng.choice(["num", "dict", "list"]), d + 1)))]
        if t.startswith("obj:"):
            c = t[4:]
            if c in self.classes and self.classes[c]["props"] and self.rng.random() < 0.7:
                pn = self.rng.choice(sorted(self.classes[c]["props"]))
                return [ExprS(AssignMember(Var(n), pn, self.expr(self.classes[c]["props"][pn], d + 1)))]
            return self.s_decl(d)
        if t not in ("num", "bool", "str", "list", "dict"):
            t = "num"
        return [ExprS(AssignVar(n, self.expr(t, d)))]

    def s_expr(self, d):
        return [ExprS(self.expr(self.rng.choice(["num", "bool", "str", "list"]), d))]

    def s_if(self, d):
        c = self.expr("bool", d)
        t = self.block(d + 1)
        others = []
        for _ in range(self.rng.choice([0, 0, 1, 2])):
            others.append((self.observed(self.expr("bool", d)), self.block(d + 1)))
        els = self.block(d + 1) if self.rng.random() < 0.5 else None
        return [Branch(c, t, others, els)]

    def s_while(self, d):
        i = self.fresh()
        self.declare(i, "num")
        k = self.rng.randrange(0, 4)
        self.in_loop += 1
        self.scopes.append({})
        body = [ExprS(AssignVar(i, Arith("+", Var(i), Num(1))))]
        self.scopes.pop()
        body += self.block(d + 1)
        self.in_loop -= 1
        if self.rng.random() < 0.4:
            sig = Continue() if self.rng.random() < 0.7 else Break()
            body.insert(self.rng.randrange(1, len(body) + 1), Branch(Logic("eq", Var(i), Num(self.rng.randrange(1, 4))), [sig, ]))
        if self.rng.random() < 0.5:
            body.append(Display(Var(i)))
        cond = Logic("lt", self.observed(Var(i)), Num(k))
        if self.rng.random() < 0.2:
            cond = Logic("and", cond, self.expr("bool", d + 1))
        return [Decl([(False, [i], Num(0))]), While(cond, body)]

    def observed(self, e):
        """e seen through the displaying identity method (defined by program() when the profile asks for probes)"""
        if self.has_probe and self.rng.random() < self.p.probe:
            return Call("Fq", [e])
        return e

    def s_iter(self, d):
        t = self.rng.choice(["list", "list", "dict"])
        e = self.observed(self.expr(t, d + 1))
        nn = self.rng.choice([0, 1, 1, 2])
        names = [self.fresh() for _ in range(nn)]
        self.scopes.append({})
        if nn == 1:
            self.declare(names[0], "any")
        elif nn == 2:
            self.declare(names[0], "num" if t == "list" else "str")
            self.declare(names[1], "any")
        self.in_loop += 1
        target_var = e[1] if e[0] == "EVar" else (e[2][0][1] if e[0] == "ECall" and e[2] and e[2][0][0] == "EVar" else None)
        if target_var:
            self.frozen.append(target_var)
        body = self.block(d + 1)
        if target_var:
            self.frozen.pop()
        self.in_loop -= 1
        self.scopes.pop()
        # the loop variables are looked at on every pass, and a signal is taken on SOME passes only (what the passes after it
        # see — index, element, remaining passes — is the point)
        if names and self.rng.random() < 0.7:
            body.insert(0, Display(*[Var(x) for x in names]))
        if nn == 2 and self.rng.random() < 0.5:
            which = Num(self.rng.randrange(1, 4)) if t == "list" else Str(self.rng.choice(KEYS))
            sig = Continue() if self.rng.random() < 0.7 else Break()
            body.insert(self.rng.randrange(0, len(body) + 1), Branch(Logic("eq", Var(names[0]), which), [sig]))
        return [Iter(e, names, body)]

    def s_break(self, d):
        return [Break()]

    def s_continue(self, d):
        return [Continue()]

    def s_return(self, d):
        if self.ret_type == "num":
            return [Return(self.expr("num", d))]
        return [Return(self.expr(self.rng.choice(["num", "num", "str", "list", "bool"]), d))]

    def s_coll(self, d):
        rng = self.rng
        ls = self.mutable_of("list")
        ds = self.mutable_of("dict")
        if not ls and not ds:
            return self.s_decl(d)
        if ls and (not ds or rng.random() < 0.6):
            n = rng.choice(ls)
            k = rng.random()
            if k < 0.25:
                return [ExprS(Method(Var(n), [(rng.choice(["后增", "前增"]), [self.no_ref(n, self.expr(rng.choice(["num", "list", "str", "dict"]), d + 1))])]))]
            if k < 0.35:
                return [ExprS(Method(Var(n), [(rng.choice(["新增", "添加"]), [self.expr("num", d + 1), Num(rng.randrange(-2, 5))])]))]
            if k < 0.5:
                return [ExprS(Method(Var(n), [(rng.choice(["左移", "右移"]), [])]))]
            if k < 0.6:
                # one or several lists, the receiver itself among them now and then; the merged list that comes back is a
                # list of its own: bound by 得到 it is changed later like any other
                args = [Var(rng.choice(ls)) if rng.random() < 0.6 else self.expr("list", d + 1) for _ in range(rng.choice([1, 1, 2, 3]))]
                if rng.random() < 0.4:
                    r = self.fresh()
                    self.declare(r, "list")
                    return [ExprS(Method(Var(n), [("合并", args)], r))]
                return [ExprS(Method(Var(n), [("合并", args)]))]
            if k < 0.7:
                return [ExprS(Method(Var(n), [("交换", [Num(rng.randrange(0, 5)), Num(rng.randrange(0, 5))])]))]
            if k < 0.8:
                r = self.fresh()
                self.declare(r, "any")
                return [Decl([(False, [r], Method(Var(n), [(rng.choice(["包含", "寻找"]), [self.expr(rng.choice(["num", "str", "list", "dict"]), d + 1)])]))])]
            if k < 0.9:
                return [ExprS(AssignMember(Var(n), rng.choice(["首项", "末项"]), self.expr("num", d + 1)))]
            r = self.fresh()
            self.declare(r, "any")
            return [Decl([(False, [r], Member(Var(n), rng.choice(["首项", "末项", "逆序", "长度"])))])]
        n = rng.choice(ds)
        k = rng.random()
        if k < 0.4:
            return [ExprS(Method(Var(n), [("写入", [Str(rng.choice(KEYS)), self.no_ref(n, self.expr(rng.choice(["num", "list", "dict"]), d + 1))])]))]
        if k < 0.6:
            return [ExprS(Method(Var(n), [("移除", [Str(rng.choice(KEYS))])]))]
        r = self.fresh()
        self.declare(r, "any")
        if k < 0.8:
            return [Decl([(False, [r], Method(Var(n), [("读取", [Str(rng.choice(KEYS))])]))])]
        return [Decl([(False, [r], Member(Var(n), rng.choice(["所有索引", "所有值", "长度"])))])]

    def no_ref(self, n, e):
        """methods insert their argument without copying it: never insert a collection into itself
        (cyclic values are property C10's subject)"""
        def mentions(x):
            if isinstance(x, tuple):
                if len(x) == 2 and x[0] == "EVar" and x[1] == n:
                    return True
                return any(mentions(y) for y in x)
            if isinstance(x, list):
                return any(mentions(y) for y in x)
            return False
        # inserting members store a copy of an argument that is (or holds) the receiver (fix C10-2), so
        # self-insertion is generated on purpose now and then
        return e if (not mentions(e) or self.rng.random() < 0.5) else Num(0)

    def s_call(self, d):
        f = self.rng.choice(sorted(self.funcs))
        n = self.funcs[f]
        if self.rng.random() < 0.08:
            n = max(0, n + self.rng.choice([-1, 1]))
        args = [self.expr(self.rng.choice(["num", "num", "list", "any"]), d + 1) for _ in range(n)]
        if self.rng.random() < 0.3:
            r = self.fresh()
            self.declare(r, "const:any")
            return [ExprS(Call(f, args, r))]
        return [ExprS(Call(f, args))]

    def s_obj(self, d):
        os_ = self.vars_of("obj")
        if not os_:
            return self.s_decl(d)
        n = self.rng.choice(os_)
        c = self.type_of(n)[4:]
        info = self.classes.get(c)
        if info and info.get("counters") and self.rng.random() < 0.45:
            # in-place update of a number property of ONE object, then the same property of every object in sight
            pn = self.rng.choice(info["counters"])
            out = [ExprS(Bump(Var(n), pn, self.rng.random() < 0.3, Num(self.rng.randrange(1, 9))))]
            same = [o for o in os_ if self.type_of(o) == "obj:" + c]
            out.append(Display(*[Member(Var(o), pn) for o in same[:4]]))
            return out
        if not info or not info["methods"]:
            return self.s_assign(d)
        m = self.rng.choice(sorted(info["methods"]))
        k = info["methods"][m]
        if self.rng.random() < 0.08:
            k = k + 1 if k == 0 else max(0, k + self.rng.choice([-1, 1]))
        args = [self.expr("num", d + 1) for _ in range(k)]
        if self.rng.random() < 0.3:
            r = self.fresh()
            self.declare(r, "const:any")
            return [ExprS(Method(Var(n), [(m, args)], r))]
        return [ExprS(Method(Var(n), [(m, args)]))]

    def s_throw(self, d):
        if self.exc_classes and self.rng.random() < 0.5:
            return [Throw(self.rng.choice(self.exc_classes), [Str(self.rng.choice(["e1", "e2", "e%3"]))])]
        # (messages are data: percent signs, braces and backslashes in them mean nothing)
        return [Throw("异常", [Str(self.rng.choice(["boom", "bad", "出错", "100%", "进度 50% 时中断", "%d %s %v", "{} {#1}", "a\\nb", "%!"]))])]

    def s_fault(self, d):
        k = self.rng.random()
        if k < 0.4:
            return [ExprS(Arith(self.rng.choice(["/", "|", "%"]), self.expr("num", d + 1), Num(0)))]
        if k < 0.7:
            return [ExprS(Var("Undefined" + self.alpha(self.rng.randrange(1, 50))))]
        return [ExprS(Index(Arr([Num(1)]), Num(5)))]

    # ------------------------------------------------------------ definitions
    def catches(self, d, visible=None):
        """handlers; [visible] = the names that certainly exist whenever the handler runs (an exception may arrive before
        any later declaration of the body has been executed)"""
        if self.rng.random() > 0.5 * self.p.exceptions:
            return []
        saved_scopes = self.scopes
        if visible is not None:
            self.scopes = [dict(visible)]
        try:
            return self._catches(d)
        finally:
            self.scopes = saved_scopes

    def _catches(self, d):
        out = []
        names = ["异常"] + self.exc_classes
        self.rng.shuffle(names)
        for cn in names[:self.rng.choice([1, 1, 2])]:
            self.scopes.append({})
            self.in_func += 1
            body = self.block(d + 1)
            if self.rng.random() < 0.5:
                body.append(Return(self.rng.choice([Num(self.rng.randrange(100, 200)), Member(Var("此"), "内容") if False else Num(77)])))
            self.in_func -= 1
            self.scopes.pop()
            out.append((cn, body))
        return out

    def func_def(self, name=None, method_of=None):
        f = name or self.fresh(FUN_NAMES)
        n = self.rng.choice([0, 1, 1, 2, 3])
        params = [self.fresh() for _ in range(n)]
        saved = self.scopes
        # methods of the same module see the symbols of calls in progress; keep generation lexical:
        # a body uses its parameters and the program's top-level definitions only
        self.scopes = [{}]
        for pn in params:
            self.declare(pn, "const:any" if self.rng.random() < 0.3 else "const:num")
        # parameters are constants; give bodies plain views of them
        for pn in params:
            self.scopes[-1][pn] = "const:num"
        certain = dict(self.scopes[-1])
        self.in_func += 1
        loop_save, self.in_loop = self.in_loop, 0
        # most methods are number-valued on every path, so that calls can stand in arithmetic
        rt_save = self.ret_type
        self.ret_type = "num" if (method_of is None and self.rng.random() < 0.7) else None
        body = []
        for pn in params:
            if self.rng.random() < 0.5:
                v = self.fresh()
                body.append(Decl([(False, [v], Arith("+", Var(pn), Num(1)))]))
                self.declare(v, "num")
        if method_of is not None:
            for pn in self.classes[method_of].get("counters", []):
                if self.rng.random() < 0.6:
                    amount = Num(self.rng.randrange(1, 5))
                    body.append(ExprS(Bump(None, pn, self.rng.random() < 0.25, amount)))
            props = self.classes[method_of]["props"]
            for pn, pt in props.items():
                if self.rng.random() < 0.5:
                    body.append(ExprS(AssignThis(pn, self.expr(pt, 2))))
                if self.rng.random() < 0.3 and pt == "num":
                    v = self.fresh()
                    body.append(Decl([(False, [v], ThisProp(pn))]))
                    self.declare(v, "num")
        body += self.block(1)
        if self.ret_type == "num":
            body.append(Return(self.expr("num", 1)))
        elif self.rng.random() < 0.7:
            body.append(Return(self.expr(self.rng.choice(["num", "num", "str", "list"]), 1)))
        # local definitions: a method defined inside the body (hoisted in the body's scope, gone when it ends);
        # now and then the body consists of such a definition only (its value is 空)
        x = self.rng.random()
        if x < 0.12:
            inner = "Fi" + self.rng.choice("xyz")
            if self.funcs and self.rng.random() < 0.4:
                # ... under the name of a method of the module: inside this body the name means the local definition
                cands = [g for g in sorted(self.funcs) if self.funcs[g] == 0 and g != f]
                if cands:
                    inner = self.rng.choice(cands)
            idef = Func(inner, [], [Return(Num(self.rng.randrange(300, 400)))], [])
            if x < 0.05 and self.ret_type is None:
                body = [idef]
            elif x < 0.09:
                body = [idef, Return(Call(inner, []))]
            else:
                body.insert(self.rng.randrange(0, len(body) + 1), idef)
        cs = self.catches(1, visible=certain)
        if not body:
            body.append(ExprS(Var("空")))
        if method_of is None:
            self.fret[f] = self.ret_type
        self.ret_type = rt_save
        self.in_loop = loop_save
        self.in_func -= 1
        self.scopes = saved
        return f, params, body, cs

    def class_def(self, exc=False):
        c = self.fresh(CLS_NAMES) + ("异常" if exc else "")
        props = {}
        plist = []
        for pn in self.rng.sample(PROP_NAMES, self.rng.choice([1, 2, 3])):
            t = self.rng.choice(["num", "num", "list", "dict", "str"])
            props[pn] = t
            plist.append((pn, self.expr(t, 2)))
        if exc:
            props["内容"] = "str"
            plist.append(("内容", Str("")))
        counters = []
        if not exc and self.rng.random() < 0.5:
            # a counter: a number default that is only ever updated in place (自增 / 自减) and read for display
            counters = ["Pn"]
            plist.insert(self.rng.randrange(0, len(plist) + 1), ("Pn", Num(self.rng.randrange(0, 50))))
        self.classes[c] = {"props": props, "methods": {}, "ctor": None, "counters": counters}
        methods = []
        for mn in self.rng.sample(METH_NAMES, self.rng.choice([0, 1, 2])):
            f, params, body, cs = self.func_def(mn, method_of=c)
            self.classes[c]["methods"][mn] = len(params)
            methods.append((mn, params, body, cs))
        return c, plist, methods

    def program(self):
        p = self.p
        rng = self.rng
        defs = []
        nfun = rng.choice([0, 1, 2, 3]) if p.funcs else 0
        ncls = rng.choice([0, 1, 2]) if p.classes else 0
        nexc = rng.choice([0, 0, 1]) if p.exceptions and p.classes else 0
        if p.scope_faults and rng.random() < 0.6:
            self.has_badcall = True
            bad_params = rng.choice([["Nd", "Nd"], ["Na", "Nb", "Na"], ["显示"], ["空", "Nc"]])
            defs.append(Func("Fbad", bad_params, [Return(Num(1))], []))
            defs.append(Func("Ftry", [], [ExprS(Call("Fbad", [Num(k) for k in range(len(bad_params))])), Return(Str("no"))],
                             [("异常", [Return(Str("caught"))])]))
        if p.scope_faults and rng.random() < 0.5:
            # a method whose handler holds a definition: definitions in a handler are not executed (the handler runs as a plain
            # block), so Fi is never defined — not inside the handler, not after it, not on the second run of the handler
            self.has_hdef = True
            hbody = [Func("Fi", [], [Return(Num(5))], [])]
            if rng.random() < 0.4:
                hbody.append(Display(Str("h")))
            hbody.append(Return(Num(7)))
            defs.append(Func("Fh", [], [Throw("异常", [Str("h")]), Return(Num(1))], [("异常", hbody)]))
        if p.probe and p.funcs and rng.random() < 0.7:
            self.has_probe = True
            defs.append(Func("Fq", ["Nq"], [Display(Str("q"), Var("Nq")), Return(Var("Nq"))], []))
        # definitions are hoisted: they may be placed anywhere at the top level
        for _ in range(ncls):
            c, plist, methods = self.class_def()
            defs.append(Class(c, plist, methods))
            if rng.random() < 0.5:
                n = rng.choice([0, 1, 2])
                params = [self.fresh() for _ in range(n)]
                saved = self.scopes
                self.scopes = [{pn: "const:num" for pn in params}]
                self.in_func += 1
                body = []
                for pn, pt in self.classes[c]["props"].items():
                    if params and pt == "num" and rng.random() < 0.7:
                        body.append(ExprS(AssignThis(pn, Var(rng.choice(params)))))
                body += self.block(1, n=rng.choice([0, 1, 2]))
                cs = self.catches(1, visible={pn: "const:num" for pn in params}) if rng.random() < 0.3 else []
                if not body:
                    body.append(ExprS(Var("空")))
                self.in_func -= 1
                self.scopes = saved
                self.classes[c]["ctor"] = n
                defs.append(Ctor(c, params, body, cs))
        for _ in range(nexc):
            c, plist, methods = self.class_def(exc=True)
            self.exc_classes.append(c)
            defs.append(Class(c, plist, methods))
            defs.append(Ctor(c, ["Mx"], [ExprS(AssignThis("内容", Var("Mx")))], []))
            self.classes[c]["ctor"] = 1
        for _ in range(nfun):
            f, params, body, cs = self.func_def()
            self.funcs[f] = len(params)
            defs.append(Func(f, params, body, cs))
        inputs = []
        body = []
        lo, hi = p.stmts
        for _ in range(rng.randrange(lo, hi + 1)):
            if rng.random() < p.markers:
                body.append(self.mark())
            body.extend(self.stmt(0))
        if rng.random() < 0.6:
            body.append(Return(self.expr(rng.choice(["num", "list", "dict", "str", "bool"]), 0)))
        elif rng.random() < 0.5:
            body.append(ExprS(self.expr(rng.choice(["num", "list", "str"]), 0)))
        # place definitions at random positions of the top level (they are hoisted)
        for dfn in defs:
            if rng.random() < 0.7:
                body.insert(0, dfn)
            else:
                body.insert(rng.randrange(0, len(body) + 1), dfn)
        # keep source order of definitions stable w.r.t. dependencies: classes before their constructors
        body = self.order_defs(body, defs)
        cs = self.catches(0, visible={})
        return (inputs, body, cs)

    def order_defs(self, body, defs):
        # hoisting evaluates definitions in source order: a constructor must come after its class
        ordered = [s for s in body if s[0] in ("SClass", "SCtor", "SFunc")]
        rest = [s for s in body if s[0] not in ("SClass", "SCtor", "SFunc")]
        want = [d for d in defs]
        pos = [i for i, s in enumerate(body) if s[0] in ("SClass", "SCtor", "SFunc")]
        out = list(body)
        for i, d in zip(pos, want):
            out[i] = d
        return out


def gen_program(rng, prof):
    return Gen(rng, prof).program()
