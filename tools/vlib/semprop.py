# semprop.py — shared driver for the properties decided on the integrated evaluator model `Sem`
# (C01 C02 C07 C08 C09 C11): corpus + seeded generation, correspondence run, shrinking, reporting.
import json
import os
import random

from vlib import core, proggen, semcheck
from vlib import semgen as G

TB = ("Coq 8.16.1 kernel and vm_compute; hand-written Gallina model of pkg/exec/eval.go, eval_function.go, eval_class.go, "
      "pkg/runtime/{vm,scope,callframe}.go and the list/dictionary/object members of pkg/value (coq/model/SemDefs.v, Sem.v), tied to "
      "/repo on every run by executing generated programs through the real interpreter (harness/cmd/sem, built -tags verif) and through "
      "the model inside Coq and comparing result, display trace, error class/code, call-stack length and scope depth; "
      "Python generator/renderer/shrinker in tools/vlib; IEEE-754 arithmetic through Flocq (its theorems rest on the standard library's "
      "real-number axioms ClassicalDedekindReals.sig_not_dec, sig_forall_dec, FunctionalExtensionality.functional_extensionality_dep, "
      "Classical_Prop.classic); Go's fmt %v is modelled only for the displayed number class (integers and quarters below 10^6); ")


def to_json(x):
    if isinstance(x, tuple):
        return [to_json(y) for y in x]
    if isinstance(x, list):
        return [to_json(y) for y in x]
    return x


def load_corpus(pid):
    p = os.path.join(core.VERIF, "corpus", pid, "programs.json")
    if os.path.exists(p):
        return json.load(open(p, encoding="utf8"))
    return []


CATEGORIES = [
    ("run ", "nondeterminism"),
    ("implementation crash", "crash"),
    ("implementation hang", "hang"),
    ("display trace length", "display-trace"),
    ("display line", "display-line"),
    ("error kind", "error-kind"),
    ("exception message", "exception-message"),
    ("result differs", "result"),
    ("call-stack length", "call-stack"),
    ("call chain differs", "call-chain"),
    ("scope state", "scope-depth"),
]


def categorise(descr):
    for pre, cat in CATEGORIES:
        if descr.startswith(pre):
            return cat
    return "other"


def still_bad(chk, prog, label, mode, repeat, ins):
    try:
        bad, _ = semcheck.run_diff(_Quiet(chk), [prog], label + "s", mode=mode, repeat=repeat, inputs=[ins] if ins else None, tag="shr")
    except RuntimeError:
        return None
    return bad[0][1] if bad else None


class _Quiet:
    """a Check facade that does not count shrink trials as evaluations"""

    def __init__(self, chk):
        self.chk = chk

    def dist(self, *a, **k):
        pass

    def count(self, *a, **k):
        pass


def shrink(chk, prog, label, mode, repeat, ins, budget=14):
    """greedy removal of top-level and nested statements while the disagreement persists"""
    inputs, body, catches = prog
    best = (inputs, list(body), catches)
    trials = 0

    def blocks_of(stmts, path):
        out = [(path, stmts)]
        for i, s in enumerate(stmts):
            k = s[0]
            if k == "SWhile":
                out += blocks_of(s[2], path + [(i, 2)])
            elif k == "SIter":
                out += blocks_of(s[3], path + [(i, 3)])
            elif k == "SBranch":
                out += blocks_of(s[2], path + [(i, 2)])
            elif k in ("SFunc", "SCtor"):
                out += blocks_of(s[3], path + [(i, 3)])
        return out

    def rebuild(stmts, path, new):
        if not path:
            return new
        (i, j), rest = path[0], path[1:]
        s = list(stmts[i])
        s[j] = rebuild(s[j], rest, new)
        out = list(stmts)
        out[i] = tuple(s)
        return out

    progress = True
    while progress and trials < budget:
        progress = False
        for path, stmts in blocks_of(best[1], []):
            for i in range(len(stmts) - 1, -1, -1):
                if trials >= budget:
                    break
                if len(stmts) <= 1 and path:
                    continue
                cand_stmts = stmts[:i] + stmts[i + 1:]
                cand = (best[0], rebuild(best[1], path, cand_stmts), best[2])
                trials += 1
                if still_bad(chk, cand, label, mode, repeat, ins):
                    best = cand
                    progress = True
                    break
            if progress:
                break
    return best, trials


def run_property(chk, pid, label, profiles, n_quick, n_thorough, replay=None, mode="vm", repeat=1,
                 extra_programs=None, layouts=False, what="", do_shrink=True, decorate=False, extra_check=None):
    """profiles: list of (weight, Profile). extra_programs: list of (prog, inputs, kind)."""
    rng = chk.rng
    progs, ins, kinds = [], [], []
    if replay is not None:
        progs = [replay["program"]]
        ins = [replay.get("inputs") or {}]
        kinds = ["replay"]
    else:
        for c in load_corpus(pid):
            progs.append(c["program"])
            ins.append(c.get("inputs") or {})
            kinds.append("corpus")
        for p, i, k in (extra_programs or []):
            progs.append(p)
            ins.append(i or {})
            kinds.append(k)
        n = n_quick if chk.tier == "quick" else n_thorough
        tot = sum(w for w, _ in profiles)
        for _ in range(n):
            x = rng.random() * tot
            prof = profiles[-1][1]
            for w, pr in profiles:
                if x < w:
                    prof = pr
                    break
                x -= w
            progs.append(proggen.gen_program(rng, prof))
            ins.append({})
            kinds.append("generated")
    lay = random.Random(rng.random()) if layouts else None
    dec = random.Random(rng.random()) if decorate else None
    bad, texts = semcheck.run_diff(chk, progs, label, mode=mode, repeat=repeat, inputs=ins, rng_layout=lay, decorate=dec,
                                   extra_check=extra_check)
    for k in kinds:
        chk.dist("source:" + k)
    for t in texts[:3] + texts[len(texts) // 2:len(texts) // 2 + 2]:
        chk.sample({"program": t[:700]})
    seen = set()
    for k, descr, text, model, impl in bad:
        cat = categorise(descr)
        sig = "%s:%s" % (label, cat)
        prog = progs[k]
        small = prog
        trials = 0
        if do_shrink and sig not in seen and len(seen) < 3 and replay is None:
            small, trials = shrink(chk, prog, label, mode, repeat, ins[k])
        seen.add(sig)
        stext, _ = G.render(small)
        chk.violation("%s — %s; program:\n%s" % (what, descr, stext[:500]), sig,
                      {"kind": "program", "property": pid, "program": to_json(small), "inputs": ins[k], "text": stext,
                       "disagreement": descr, "model": model[:6], "implementation": impl if not isinstance(impl, list) else impl[:2],
                       "shrink_trials": trials, "replay_cmd": "./check %s --replay <this file>" % pid})
    chk.coverage["rule"] = ("corpus of minimised past failures first, then seeded generation of well-scoped terminating Zn programs "
                            "(profile per property; sizes in 'distribution'), each rendered to text, executed by the interpreter and by the "
                            "model in Coq; distinct = distinct (program text, inputs); all are non-trivial (>= 3 statements)")
    return bad
