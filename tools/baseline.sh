#!/bin/bash
# Runs the repository's pinned test suite with the verif guard OFF and compares with BASELINE.json.
# exit 0 iff every stable_pass test passes.
export GOFLAGS=-mod=mod GOPROXY=off GOSUMDB=off GOTOOLCHAIN=local
cd "${ZN_REPO:-/repo}" || exit 2
out=$(mktemp)
go test -mod=mod -json -vet=off -count=1 -timeout 25m ./... > "$out" 2>/dev/null
python3 - "$out" <<'PY'
import json,sys
base=json.load(open('/root/.vp/BASELINE.json'))
want=set(base['stable_pass'])
res={}
for l in open(sys.argv[1]):
    try: e=json.loads(l)
    except ValueError: continue
    if e.get('Test') and e.get('Action') in('pass','fail','skip'):
        res[e['Package']+'::'+e['Test']]=e['Action']
missing=[t for t in want if res.get(t)!='pass']
print('baseline: %d/%d stable tests pass'%(len(want)-len(missing),len(want)))
for t in missing[:20]: print('  NOT PASSING:',t,res.get(t))
sys.exit(1 if missing else 0)
PY
rc=$?
rm -f "$out"
exit $rc
