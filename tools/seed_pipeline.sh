#!/bin/bash
# seed_pipeline.sh <Cnn> [srcdir] [name] : validate a seeded change, run the property's check against the patched scratch worktree
# (quick, then thorough if quick misses), store everything under /verif/seeded/<Cnn>/, remove the scratch worktree.
id=$1; src=${2:-/tmp/seed-$id-out}; name=${3:-$id}; out=/verif/seeded/$name; log=/tmp/pipe-$name.log
mkdir -p $out
{
/verif/tools/validate_seed.sh $id $src; v=$?
echo "VALIDATE rc=$v"
if [ $v -eq 0 ]; then
  cp $src/patch.diff $out/; rm -rf $out/demo; cp -r $src/demo $out/demo; cp $src/meta.json $out/meta.agent.json
  cd /verif
  mkdir -p /tmp/ev-$id
  ZN_REPO=/tmp/val-$id VERIF_SEED=1 timeout 3000 ./check $id --tier quick > /tmp/pipe-$id.quick 2>&1; q=$?
  echo "QUICK rc=$q"; grep -a "VIOLATION\|KNOWN" /tmp/pipe-$id.quick | head -5
  t=-
  if [ $q -eq 0 ]; then
    ZN_REPO=/tmp/val-$id VERIF_SEED=1 timeout 7200 ./check $id --tier thorough > /tmp/pipe-$id.thorough 2>&1; t=$?
    echo "THOROUGH rc=$t"; grep -a "VIOLATION\|KNOWN" /tmp/pipe-$id.thorough | head -5
  fi
  echo "SUMMARY $id validate=$v quick=$q thorough=$t"
fi
git -C /repo worktree remove --force /tmp/val-$id 2>/dev/null; rm -rf /tmp/val-$id
} > $log 2>&1
tail -1 $log
