#!/bin/bash
# setup: build the harness against /repo, generate the Coq makefile, full .vo build of the development.
set -e
cd "$(dirname "$0")/.."
export GOFLAGS=-mod=mod GOPROXY=off GOSUMDB=off GOTOOLCHAIN=local CGO_ENABLED=0
mkdir -p build evidence replays coq/cases
cp /repo/go.sum harness/go.sum 2>/dev/null || true
(cd harness && for d in cmd/*/; do n=$(basename $d); go build -tags verif -o ../build/znh_$n ./cmd/$n || echo "warning: harness $n does not build (its check will report it)"; done)
if [ -x tools/gen.sh ]; then tools/gen.sh; fi
python3 -c "import sys; sys.path.insert(0,'tools'); from vlib import core; core.coq_makefile()"
# full .vo build of the cone of every claimed property (never -vos)
TARGETS=$(python3 -c "
import sys,json; sys.path.insert(0,'tools')
m=json.load(open('MANIFEST.json'))
print(' '.join('props/%s.vo'%c['property_id'] for c in m['checks']))")
cd coq
timeout 3000 make -j16 $TARGETS > ../build/setup_make.log 2>&1 || { tail -40 ../build/setup_make.log; exit 1; }
echo "setup ok"
