#!/bin/bash
# run_all.sh [tier] [parallelism] : every check on /repo's working tree; prints one line per check
tier=${1:-quick}; par=${2:-4}
cd /verif
seq -w 1 20 | xargs -P $par -I{} bash -c "./check C{} --tier $tier > build/all-C{}.out 2>&1; echo \"C{} rc=\$? \$(tail -1 build/all-C{}.out)\""
