#!/bin/bash
# run_seeds.sh "<seeds>" [tier] [par]: every check with each seed on /repo; evidence redirected is NOT done here, so re-run seed 1 afterwards
tier=${2:-quick}; par=${3:-4}
cd /verif
for s in $1; do
  seq -w 1 20 | xargs -P $par -I{} bash -c "VERIF_SEED=$s ./check C{} --tier $tier > build/seed$s-C{}.out 2>&1; echo \"seed=$s C{} rc=\$? \$(tail -1 build/seed$s-C{}.out | cut -c1-160)\""
done
