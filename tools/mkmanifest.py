#!/usr/bin/env python3
# Regenerates MANIFEST.json from the table below (keeps it schema-valid at all times).
import json, os
HERE = os.path.dirname(os.path.dirname(os.path.abspath(__file__)))
ALL = ["C%02d" % i for i in range(1, 21)]

TB = "Coq 8.16.1 kernel and vm_compute; hand-written Gallina model tied to /repo by the per-run correspondence check (Go harness built -tags verif from the working tree, model evaluated inside Coq on the same inputs); generators and comparison code in tools/; "

import importlib, sys
sys.path.insert(0, os.path.join(HERE, "tools"))
# properties whose check is integrated (fixes applied to /repo, check passes on the unchanged tree)
READY = {"C%02d" % i for i in range(1, 21)}
CLAIMS = {}
for pid in ALL:
    if os.path.exists(os.path.join(HERE, "tools", "props", pid.lower() + ".py")):
        m = importlib.import_module("props." + pid.lower())
        if getattr(m, "CLAIM", None) and pid in READY:
            CLAIMS[pid] = m.CLAIM

def main():
    checks = []
    for pid in ALL:
        if pid not in CLAIMS:
            continue
        c = CLAIMS[pid]
        checks.append({
            "property_id": pid,
            "quick_cmd": "./check %s --tier quick" % pid,
            "thorough_cmd": "./check %s --tier thorough" % pid,
            "evidence_file": "/verif/evidence/%s.json" % pid,
            "replay_cmd_template": "./check %s --replay {path}" % pid,
            "engine": "coq-proof+correspondence",
            "level_claimed": {"category": c.get("category", "proof"), "text": c["text"], "design_ref": c["design"]},
            "level_note": c["note"],
            "technique": c["technique"],
        })
    na = [{"property_id": p, "reason": NA.get(p, "check not built yet in this round (work in progress; see DESIGN.md section 11)")} for p in ALL if p not in CLAIMS]
    man = {
        "version": 1,
        "setup_cmd": "tools/setup.sh",
        "hooks": {
            "guard": "verif",
            "enable": "go build -tags verif (the harness in /verif/harness is built with it against /repo's working tree on every check)",
            "baseline_off_cmd": "/verif/tools/baseline.sh",
            "source_commits": HOOK_COMMITS,
            "add_only": True,
        },
        "engines": [{"name": "coq-proof+correspondence", "path": "/verif/check",
                     "serves_properties": [c["property_id"] for c in checks],
                     "kind_free_text": "Coq 8.16.1 development under /verif/coq (models, proofs, props) + Go harness + Python driver: proofs rebuilt and model evaluated against the implementation on every run"}],
        "checks": checks,
        "notes": "Machine-checked proof in Coq; models tied to /repo by per-run correspondence checks and generated tables. known_findings.json lists fixed/open findings.",
        "not_applicable": na,
    }
    json.dump(man, open(os.path.join(HERE, "MANIFEST.json"), "w"), indent=1, ensure_ascii=False)

NA = {}
HOOK_COMMITS = ["50fafb3", "62ace41"]
if __name__ == "__main__":
    main()
