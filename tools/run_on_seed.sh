#!/bin/bash
# run_on_seed.sh <seed dir name under /verif/seeded> <Cnn>... [--tier thorough]
# Applies the seeded change to a scratch worktree of /repo (never to /repo itself), runs the named checks against it, removes it.
sd=$1; shift
tier=quick; ids=()
while [ $# -gt 0 ]; do case $1 in --tier) tier=$2; shift 2;; *) ids+=($1); shift;; esac; done
wt=/tmp/ros-$sd-$$
git -C /repo worktree add --detach $wt HEAD >/dev/null 2>&1 || exit 2
( cd $wt && git apply /verif/seeded/$sd/patch.diff ) || { echo "patch does not apply"; git -C /repo worktree remove --force $wt; exit 2; }
cd /verif
for id in "${ids[@]}"; do
  ZN_REPO=$wt VERIF_SEED=${VERIF_SEED:-1} ./check $id --tier $tier > /tmp/ros-$sd-$id.out 2>&1; rc=$?
  echo "SEED $sd CHECK $id tier=$tier rc=$rc $(grep -a -m1 -A1 VIOLATION /tmp/ros-$sd-$id.out | tr '\n' ' ' | cut -c1-330)"
done
git -C /repo worktree remove --force $wt; rm -rf $wt
