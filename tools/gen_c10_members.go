// gen_c10_members — T1 translator for property C10.
// Walks the Go AST of <repo>'s working tree and prints (JSON on stdout) the complete member inventory of the built-in
// types: map literals / switch cases / name comparisons in every GetProperty / SetProperty / ExecMethod / Construct of
// pkg/value and pkg/common, the NewClassModel(...).DefineProperty(...).SetConstructor(...) chains, the library
// Register* calls under stdlib/, and the globals table of pkg/exec/globals.go; for every handler the Validate*Params
// calls made on its parameter list (validator kind + type strings).
// usage: go run gen_c10_members.go <repo>
package main

import (
	"encoding/json"
	"fmt"
	"go/ast"
	"go/parser"
	"go/token"
	"os"
	"path/filepath"
	"sort"
	"strconv"
	"strings"
)

type Validator struct {
	Kind  string   `json:"kind"` // exact | least | all
	Types []string `json:"types"`
	OnArg string   `json:"on"` // expression text of the validated slice
}

type Entry struct {
	Recv       string      `json:"recv"` // Go type name, "class:<name>", "lib:<name>", "global"
	Kind       string      `json:"kind"` // get | set | method | construct | classprop | libfn | libclass | global
	Name       string      `json:"name"`
	Handler    string      `json:"handler"`
	Validators []Validator `json:"validators"`
	File       string      `json:"file"`
}

var fset = token.NewFileSet()
var funcs = map[string]*ast.FuncDecl{}   // pkgdir/name -> decl
var consts = map[string]string{}         // pkgdir/name -> string value
var entries []Entry
var problems []string

func lit(e ast.Expr) (string, bool) {
	if b, ok := e.(*ast.BasicLit); ok && b.Kind == token.STRING {
		s, err := strconv.Unquote(b.Value)
		if err == nil {
			return s, true
		}
	}
	return "", false
}

func exprText(e ast.Expr) string {
	switch x := e.(type) {
	case *ast.Ident:
		return x.Name
	case *ast.SelectorExpr:
		return exprText(x.X) + "." + x.Sel.Name
	case *ast.CallExpr:
		return exprText(x.Fun) + "(..)"
	case *ast.StarExpr:
		return "*" + exprText(x.X)
	case *ast.UnaryExpr:
		return x.Op.String() + exprText(x.X)
	case *ast.CompositeLit:
		return "lit"
	}
	return "?"
}

func calleeName(c *ast.CallExpr) string {
	switch f := c.Fun.(type) {
	case *ast.Ident:
		return f.Name
	case *ast.SelectorExpr:
		return f.Sel.Name
	}
	return ""
}

func validatorsIn(body ast.Node) []Validator {
	res := []Validator{}
	if body == nil {
		return res
	}
	ast.Inspect(body, func(n ast.Node) bool {
		c, ok := n.(*ast.CallExpr)
		if !ok {
			return true
		}
		kind := ""
		switch calleeName(c) {
		case "ValidateExactParams":
			kind = "exact"
		case "ValidateLeastParams":
			kind = "least"
		case "ValidateAllParams":
			kind = "all"
		}
		if kind == "" || len(c.Args) == 0 {
			return true
		}
		v := Validator{Kind: kind, Types: []string{}, OnArg: exprText(c.Args[0])}
		for _, a := range c.Args[1:] {
			if s, ok := lit(a); ok {
				v.Types = append(v.Types, s)
			} else {
				problems = append(problems, fmt.Sprintf("%s: non-literal type string in %s", fset.Position(c.Pos()), calleeName(c)))
			}
		}
		res = append(res, v)
		return true
	})
	return res
}

func recvName(fd *ast.FuncDecl) string {
	if fd.Recv == nil || len(fd.Recv.List) == 0 {
		return ""
	}
	t := fd.Recv.List[0].Type
	if s, ok := t.(*ast.StarExpr); ok {
		t = s.X
	}
	if id, ok := t.(*ast.Ident); ok {
		return id.Name
	}
	if ix, ok := t.(*ast.IndexExpr); ok {
		return exprText(ix.X)
	}
	return ""
}

func handlerValidators(pkgdir, handler string, fallback ast.Node) []Validator {
	if fd, ok := funcs[pkgdir+"/"+handler]; ok {
		return validatorsIn(fd.Body)
	}
	return validatorsIn(fallback)
}

// class chains: value.NewClassModel("X").DefineProperty("p", ..).SetConstructor(fn)
func classChain(c *ast.CallExpr) (name string, props []string, ctor ast.Expr, ok bool) {
	cur := ast.Expr(c)
	for {
		call, isCall := cur.(*ast.CallExpr)
		if !isCall {
			return "", nil, nil, false
		}
		fn := calleeName(call)
		switch fn {
		case "NewClassModel":
			if len(call.Args) == 1 {
				if s, isLit := lit(call.Args[0]); isLit {
					return s, props, ctor, true
				}
			}
			return "", nil, nil, false
		case "DefineProperty":
			if s, isLit := lit(call.Args[0]); isLit {
				props = append([]string{s}, props...)
			}
		case "SetConstructor":
			ctor = call.Args[0]
		case "DefineMethod", "DefineCompProperty":
		default:
			return "", nil, nil, false
		}
		sel, isSel := call.Fun.(*ast.SelectorExpr)
		if !isSel {
			return "", nil, nil, false
		}
		cur = sel.X
	}
}

func scanFile(repo, rel string) {
	path := filepath.Join(repo, rel)
	f, err := parser.ParseFile(fset, path, nil, 0)
	if err != nil {
		problems = append(problems, "cannot parse "+rel+": "+err.Error())
		return
	}
	pkgdir := filepath.Dir(rel)
	// member tables
	for _, d := range f.Decls {
		fd, ok := d.(*ast.FuncDecl)
		if !ok || fd.Body == nil {
			continue
		}
		rn := recvName(fd)
		kind := map[string]string{"GetProperty": "get", "SetProperty": "set", "ExecMethod": "method"}[fd.Name.Name]
		if rn != "" && fd.Name.Name == "Construct" {
			entries = append(entries, Entry{Recv: rn, Kind: "construct", Name: "新建", Handler: rn + ".Construct",
				Validators: validatorsIn(fd.Body), File: rel})
		}
		if rn == "" || kind == "" {
			continue
		}
		pname := ""
		if len(fd.Type.Params.List) > 0 && len(fd.Type.Params.List[0].Names) > 0 {
			pname = fd.Type.Params.List[0].Names[0].Name
		}
		ast.Inspect(fd.Body, func(n ast.Node) bool {
			switch x := n.(type) {
			case *ast.CompositeLit:
				if mt, ok := x.Type.(*ast.MapType); ok {
					if id, ok := mt.Key.(*ast.Ident); ok && id.Name == "string" {
						for _, el := range x.Elts {
							kv, ok := el.(*ast.KeyValueExpr)
							if !ok {
								continue
							}
							if s, ok := lit(kv.Key); ok {
								h := exprText(kv.Value)
								entries = append(entries, Entry{Recv: rn, Kind: kind, Name: s, Handler: h,
									Validators: handlerValidators(pkgdir, h, nil), File: rel})
							} else {
								problems = append(problems, fmt.Sprintf("%s: non-literal member name", fset.Position(kv.Pos())))
							}
						}
					}
				}
			case *ast.SwitchStmt:
				if id, ok := x.Tag.(*ast.Ident); ok && id.Name == pname {
					for _, cc := range x.Body.List {
						for _, e := range cc.(*ast.CaseClause).List {
							if s, ok := lit(e); ok {
								entries = append(entries, Entry{Recv: rn, Kind: kind, Name: s, Handler: "case", Validators: []Validator{}, File: rel})
							}
						}
					}
				}
			case *ast.BinaryExpr:
				if x.Op == token.EQL {
					if id, ok := x.X.(*ast.Ident); ok && id.Name == pname {
						if s, ok := lit(x.Y); ok {
							entries = append(entries, Entry{Recv: rn, Kind: kind, Name: s, Handler: "==", Validators: []Validator{}, File: rel})
						}
					}
				}
			}
			return true
		})
	}
	// class chains, Register* calls, globals table — anywhere in the file
	var enclosing *ast.FuncDecl
	var visit func(n ast.Node) bool
	seenChain := map[token.Pos]bool{}
	visit = func(n ast.Node) bool {
		switch x := n.(type) {
		case *ast.FuncDecl:
			enclosing = x
		case *ast.CallExpr:
			fn := calleeName(x)
			if fn == "SetConstructor" || fn == "DefineProperty" || fn == "NewClassModel" {
				if seenChain[x.Pos()] {
					return true
				}
				if name, props, ctor, ok := classChain(x); ok {
					// mark inner calls of this chain as seen
					ast.Inspect(x, func(m ast.Node) bool {
						if c, ok := m.(*ast.CallExpr); ok {
							seenChain[c.Pos()] = true
						}
						return true
					})
					for _, p := range props {
						entries = append(entries, Entry{Recv: "class:" + name, Kind: "classprop", Name: p, Handler: "", Validators: []Validator{}, File: rel})
					}
					if ctor != nil {
						h := exprText(ctor)
						var fb ast.Node
						if enclosing != nil {
							fb = enclosing.Body
						}
						entries = append(entries, Entry{Recv: "class:" + name, Kind: "construct", Name: "新建", Handler: h,
							Validators: handlerValidators(pkgdir, h, fb), File: rel})
					}
				}
			}
			if fn == "RegisterFunction" || fn == "RegisterClass" {
				if s, ok := lit(x.Args[0]); ok {
					h := ""
					if inner, ok := x.Args[1].(*ast.CallExpr); ok && len(inner.Args) == 1 {
						h = exprText(inner.Args[0])
					} else {
						h = exprText(x.Args[1])
					}
					k := "libfn"
					if fn == "RegisterClass" {
						k = "libclass"
					}
					entries = append(entries, Entry{Recv: "lib:" + libNameOf(f, pkgdir), Kind: k, Name: s, Handler: h,
						Validators: handlerValidators(pkgdir, h, nil), File: rel})
				} else {
					problems = append(problems, fmt.Sprintf("%s: non-literal library member name", fset.Position(x.Pos())))
				}
			}
		case *ast.AssignStmt:
			if len(x.Lhs) == 1 && len(x.Rhs) == 1 {
				if id, ok := x.Lhs[0].(*ast.Ident); ok && id.Name == "globalValues" {
					if cl, ok := x.Rhs[0].(*ast.CompositeLit); ok {
						for _, el := range cl.Elts {
							kv := el.(*ast.KeyValueExpr)
							if s, ok := lit(kv.Key); ok {
								entries = append(entries, Entry{Recv: "global", Kind: "global", Name: s, Handler: exprText(kv.Value), Validators: []Validator{}, File: rel})
							}
						}
					}
				}
			}
		}
		return true
	}
	ast.Inspect(f, visit)
}

func libNameOf(f *ast.File, pkgdir string) string {
	name := "?"
	ast.Inspect(f, func(n ast.Node) bool {
		c, ok := n.(*ast.CallExpr)
		if !ok || calleeName(c) != "NewLibrary" || len(c.Args) != 1 {
			return true
		}
		if s, ok := lit(c.Args[0]); ok {
			name = s
		} else if id, ok := c.Args[0].(*ast.Ident); ok {
			if v, ok := consts[pkgdir+"/"+id.Name]; ok {
				name = v
			}
		}
		return true
	})
	return name
}

func collect(repo, rel string) {
	path := filepath.Join(repo, rel)
	f, err := parser.ParseFile(fset, path, nil, 0)
	if err != nil {
		return
	}
	pkgdir := filepath.Dir(rel)
	for _, d := range f.Decls {
		switch x := d.(type) {
		case *ast.FuncDecl:
			if x.Recv == nil {
				funcs[pkgdir+"/"+x.Name.Name] = x
			}
		case *ast.GenDecl:
			for _, sp := range x.Specs {
				if vs, ok := sp.(*ast.ValueSpec); ok {
					for i, n := range vs.Names {
						if i < len(vs.Values) {
							if s, ok := lit(vs.Values[i]); ok {
								consts[pkgdir+"/"+n.Name] = s
							}
						}
					}
				}
			}
		}
	}
	// string consts/vars declared inside functions (e.g. `var STDLIB_HTTP_NAME = "@HTTP"` in init)
	ast.Inspect(f, func(n ast.Node) bool {
		if vs, ok := n.(*ast.ValueSpec); ok {
			for i, nm := range vs.Names {
				if i < len(vs.Values) {
					if s, ok := lit(vs.Values[i]); ok {
						consts[pkgdir+"/"+nm.Name] = s
					}
				}
			}
		}
		return true
	})
}

func main() {
	repo := os.Args[1]
	var files []string
	for _, pat := range []string{"pkg/value/*.go", "pkg/common/*.go", "stdlib/*/*.go", "pkg/exec/globals.go"} {
		m, _ := filepath.Glob(filepath.Join(repo, pat))
		for _, p := range m {
			if strings.HasSuffix(p, "_test.go") || strings.HasPrefix(filepath.Base(p), "verif_") {
				continue
			}
			rel, _ := filepath.Rel(repo, p)
			files = append(files, rel)
		}
	}
	sort.Strings(files)
	for _, rel := range files {
		collect(repo, rel)
	}
	for _, rel := range files {
		scanFile(repo, rel)
	}
	out := map[string]interface{}{"entries": entries, "problems": problems, "files": files}
	b, _ := json.MarshalIndent(out, "", " ")
	os.Stdout.Write(b)
}
