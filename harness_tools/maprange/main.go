// maprange — inventory of `range` statements over Go maps in the interpreter packages (property C11).
package main

import (
	"bytes"
	"crypto/sha1"
	"encoding/hex"
	"encoding/json"
	"go/printer"
	"fmt"
	"go/ast"
	"go/types"
	"os"
	"path/filepath"

	"golang.org/x/tools/go/packages"
)

func main() {
	cfg := &packages.Config{Mode: packages.NeedName | packages.NeedFiles | packages.NeedSyntax | packages.NeedTypes | packages.NeedTypesInfo | packages.NeedImports | packages.NeedDeps, Dir: os.Args[1], BuildFlags: []string{"-tags", "verif"}}
	pkgs, err := packages.Load(cfg, "./pkg/...", "./stdlib/...")
	if err != nil {
		fmt.Println("{\"error\": \"load failed\"}")
		return
	}
	type site struct {
		File string `json:"file"`
		Line int    `json:"line"`
		Func string `json:"func"`
		Expr string `json:"expr"`
		// digest of the loop as written (header and body, comments excluded): the reason why the order of a loop is not
		// observable is a statement about what the loop does
		Digest string `json:"digest"`
	}
	sites := []site{}
	for _, p := range pkgs {
		for _, f := range p.Syntax {
			var fn string
			ast.Inspect(f, func(n ast.Node) bool {
				if d, ok := n.(*ast.FuncDecl); ok {
					fn = d.Name.Name
				}
				if r, ok := n.(*ast.RangeStmt); ok {
					if t := p.TypesInfo.TypeOf(r.X); t != nil {
						if _, ok := t.Underlying().(*types.Map); ok {
							pos := p.Fset.Position(r.Pos())
							rel, _ := filepath.Rel(os.Args[1], pos.Filename)
							var buf bytes.Buffer
							printer.Fprint(&buf, p.Fset, r)
							sum := sha1.Sum(buf.Bytes())
							sites = append(sites, site{rel, pos.Line, fn, types.ExprString(r.X), hex.EncodeToString(sum[:])[:16]})
						}
					}
				}
				return true
			})
		}
	}
	b, _ := json.Marshal(map[string]interface{}{"sites": sites})
	fmt.Println(string(b))
}
