(* CollectionsSpec.v — what every list / dictionary operation of Zn means on the abstract data
   types of SeqSpec (positions 1..n) and OMapSpec (insertion-ordered association list).
   No index arithmetic on machine integers, no slices, no Go map: this is the reference the model
   of pkg/value is proved to refine.  Definitions only. *)
From Coq Require Import List ZArith Bool.
Import ListNotations.
From Zn.model Require Import CollectionsTypes.
From Zn.spec Require Import SeqSpec OMapSpec.
Open Scope Z_scope.

(* a number used as a position: fractions are dropped (towards zero; DESIGN.md section 10: not
   judged); NaN, infinities and magnitudes beyond the integers denote no position *)
Definition trunc_num (n : num) : option Z :=
  match n with
  | NInt z => Some z
  | NHalf fl => Some (if 0 <=? fl then fl else fl + 1)
  | _ => None
  end.
Definition floor_num (n : num) : option Z :=
  match n with NInt z => Some z | NHalf fl => Some fl | _ => None end.

Fixpoint params_typed (args : list val) (tys : list ptype) : bool :=
  match args, tys with
  | [], [] => true
  | a :: ar, t :: tr => param_ok a t && params_typed ar tr
  | _, _ => false
  end.
(* None = accepted *)
Definition spec_params (args : list val) (tys : list ptype) : option Z :=
  if (length args =? length tys)%nat then (if params_typed args tys then None else Some E_PARAM_TYPE)
  else Some E_EXACT_PARAMS.

Definition all_strings (l : list val) : option (list text) :=
  fold_right (fun v acc => match v, acc with VStr s, Some r => Some (s :: r) | _, _ => None end) (Some []) l.
Definition all_lists (l : list val) : option (list (list val)) :=
  fold_right (fun v acc => match v, acc with VList s, Some r => Some (s :: r) | _, _ => None end) (Some []) l.

Definition or_null (o : option val) : val := match o with Some v => v | None => VNull end.

(* 新增 / 添加 : the position argument counts elements to skip (0 = front), negative from the end,
   beyond either end clamps to that end *)
Definition insert_skip (n : Z) (p : option Z) : nat :=
  match p with
  | Some p => if n <=? p then Z.to_nat n else if 0 <=? p then Z.to_nat p else Z.to_nat (Z.max 0 (n + p))
  | None => 0%nat
  end.

Definition seq_method (m : lmeth) (args : list val) (l : list val) : res val * list val :=
  match m with
  | MInsert | MAdd =>
    match spec_params args [TAny; TNumber] with
    | Some e => (Err e, l)
    | None =>
      match args with
      | [v; VNum n] => let l' := seq_insert_after l (insert_skip (seq_len l) (trunc_num n)) v in (Ok (VList l'), l')
      | _ => (Err E_PARAM_TYPE, l)
      end
    end
  | MPrepend =>
    match spec_params args [TAny] with
    | Some e => (Err e, l)
    | None => match args with [v] => let l' := seq_push_front v l in (Ok (VList l'), l') | _ => (Err E_PARAM_TYPE, l) end
    end
  | MAppend =>
    match spec_params args [TAny] with
    | Some e => (Err e, l)
    | None => match args with [v] => let l' := seq_push_back l v in (Ok (VList l'), l') | _ => (Err E_PARAM_TYPE, l) end
    end
  | MShift => match seq_pop_front l with Some (h, t) => (Ok h, t) | None => (Ok VNull, []) end
  | MPop => match seq_pop_back l with Some (h, t) => (Ok h, t) | None => (Ok VNull, []) end
  | MJoin =>
    match all_strings l with
    | None => (Err E_PARAM_TYPE, l)
    | Some strs =>
      match spec_params args [TString] with
      | Some e => (Err e, l)
      | None => match args with [VStr sep] => (Ok (VStr (join_text sep strs)), l) | _ => (Err E_PARAM_TYPE, l) end
      end
    end
  | MMerge =>
    match all_lists args with
    | None => (Err E_PARAM_TYPE, l)
    | Some ls => let l' := seq_concat l ls in (Ok (VList l'), l')
    end
  | MContains =>
    match spec_params args [TAny] with
    | Some e => (Err e, l)
    | None => match args with [v] => (Ok (VBool (existsb (fun x => val_eqb x v) l)), l) | _ => (Err E_PARAM_TYPE, l) end
    end
  | MFind =>
    match spec_params args [TAny] with
    | Some e => (Err e, l)
    | None =>
      match args with
      | [v] => (Ok (VNum (NInt (match seq_find (fun x => val_eqb x v) l with Some i => i - 1 | None => -1 end))), l)
      | _ => (Err E_PARAM_TYPE, l)
      end
    end
  | MSwap =>
    match spec_params args [TNumber; TNumber] with
    | Some e => (Err e, l)
    | None =>
      match args with
      | [VNum a; VNum b] =>
        match floor_num a, floor_num b with
        | Some i, Some j =>
          match seq_swap l i j with Some l' => (Ok (VList l'), l') | None => (Err E_INDEX_RANGE, l) end
        | _, _ => (Err E_INDEX_RANGE, l)
        end
      | _ => (Err E_PARAM_TYPE, l)
      end
    end
  | MUnknown => (Err E_METHOD_NOT_FOUND, l)
  end.

Definition seq_step (op : lop) (l : list val) : res val * list val :=
  match op with
  | LIndexGet (VNum n) =>
    match trunc_num n with
    | Some i => match seq_get l i with Some v => (Ok v, l) | None => (Err E_INDEX_RANGE, l) end
    | None => (Err E_INDEX_RANGE, l)
    end
  | LIndexGet _ => (Err E_EXPR_TYPE, l)
  | LIndexSet (VNum n) v =>
    match trunc_num n with
    | Some i => match seq_set l i v with Some l' => (Ok VNull, l') | None => (Err E_INDEX_RANGE, l) end
    | None => (Err E_INDEX_RANGE, l)
    end
  | LIndexSet _ _ => (Err E_EXPR_TYPE, l)
  | LGetProp PText => (Ok (VStr (val_text (VList l))), l)
  | LGetProp PFirst => (Ok (or_null (seq_first l)), l)
  | LGetProp PLast => (Ok (or_null (seq_last l)), l)
  | LGetProp PCount | LGetProp PLength => (Ok (VNum (NInt (seq_len l))), l)
  | LGetProp PReverse => (Ok (VList (seq_reverse l)), l)
  | LGetProp PUnknown => (Err E_PROP_NOT_FOUND, l)
  (* 首项 / 末项 of an empty list: reads give 空, a write makes the one-element list (as the code does;
     the bounds clause of C12 is about positions written with #) *)
  | LSetProp PFirst v => (Ok VNull, match seq_set l 1 v with Some l' => l' | None => [v] end)
  | LSetProp PLast v => (Ok VNull, match seq_set l (seq_len l) v with Some l' => l' | None => [v] end)
  | LSetProp _ _ => (Err E_PROP_NOT_FOUND, l)
  | LMethod m args => seq_method m args l
  | LAssignReverse => (Ok (VList (seq_reverse l)), seq_reverse l)
  | LCopy => (Ok (VList (map dup_val l)), map dup_val l)
  | LIterate => (Ok (VList (map (fun p => VList [VNum (NInt (fst p)); snd p]) (seq_enumerate l))), l)
  end.

(* ---------------- dictionaries ---------------- *)
Definition dmap := omap text val.
Definition dget := @om_get text val text_eq_dec.
Definition dput := @om_put text val text_eq_dec.
Definition dremove := @om_remove text val text_eq_dec.

Definition key_of_index (i : val) : option text :=
  match i with VNum n => Some (num_text n) | VStr s => Some s | _ => None end.

Definition omap_step (op : dop) (m : dmap) : res val * dmap :=
  match op with
  | DIndexGet i =>
    match key_of_index i with
    | None => (Err E_EXPR_TYPE, m)
    | Some k => match dget m k with Some v => (Ok v, m) | None => (Err E_KEY_NOT_FOUND, m) end
    end
  | DIndexSet i v =>
    match key_of_index i with
    | None => (Err E_EXPR_TYPE, m)
    | Some k => (Ok VNull, dput m k v)
    end
  | DGetProp DPCount | DGetProp DPLength => (Ok (VNum (NInt (Z.of_nat (om_size m)))), m)
  | DGetProp DPKeys => (Ok (VList (map VStr (om_keys m))), m)
  | DGetProp DPValues => (Ok (VList (om_values m)), m)
  | DGetProp DPUnknown => (Err E_PROP_NOT_FOUND, m)
  | DSetProp _ => (Err E_PROP_NOT_FOUND, m)
  | DMethod DMGet args =>
    match all_strings args with
    | None => (Err E_PARAM_TYPE, m)
    | Some _ => (Ok (val_read_path (VDict m) args), m)
    end
  | DMethod DMSet args =>
    match spec_params args [TString; TAny] with
    | Some e => (Err e, m)
    | None => match args with [VStr k; v] => (Ok v, dput m k v) | _ => (Err E_PARAM_TYPE, m) end
    end
  | DMethod DMDelete args =>
    match spec_params args [TString] with
    | Some e => (Err e, m)
    | None =>
      match args with
      | [VStr k] => match dget m k with Some v => (Ok v, dremove m k) | None => (Ok VNull, m) end
      | _ => (Err E_PARAM_TYPE, m)
      end
    end
  | DMethod DMUnknown _ => (Err E_METHOD_NOT_FOUND, m)
  | DCopy => let m' := pairs_norm (map (fun kv => match kv with (k, w) => (k, dup_val w) end) m) in (Ok (VDict m'), m')
  | DIterate => (Ok (VList (map (fun kv => VList [VStr (fst kv); snd kv]) m)), m)
  end.

(* histories: the trace of (result, collection afterwards) *)
Fixpoint seq_run (ops : list lop) (l : list val) : list (res val * list val) :=
  match ops with
  | [] => []
  | op :: r => let s := seq_step op l in s :: seq_run r (snd s)
  end.
Fixpoint omap_run (ops : list dop) (m : dmap) : list (res val * dmap) :=
  match ops with
  | [] => []
  | op :: r => let s := omap_step op m in s :: omap_run r (snd s)
  end.

(* a history seen from one key: the value last written to it, None once removed *)
Definition key_write (k : text) (cur : option val) (op : dop) : option val :=
  match op with
  | DIndexSet i v => match key_of_index i with Some k' => if text_eq_dec k k' then Some v else cur | None => cur end
  | DMethod DMSet [VStr k'; v] => if text_eq_dec k k' then Some v else cur
  | DMethod DMDelete [VStr k'] => if text_eq_dec k k' then None else cur
  | DCopy => match cur with Some v => Some (dup_val v) | None => None end
  | _ => cur
  end.
Definition last_write (k : text) (init : option val) (ops : list dop) : option val :=
  fold_left (key_write k) ops init.
