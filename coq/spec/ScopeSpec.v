(* ScopeSpec.v — specification of the symbol table for C06, written without reference to
   the mechanism (flat arrays, depth tags, counters) of pkg/runtime/scope.go.

   An environment is a stack of blocks (innermost first).  A block is a finite map
   name -> binding, represented as an association list in which no name occurs twice
   (declare refuses a name that is already in the top block).  Names, values and module
   ids are integers; the predefined names are given by [predef].  No proofs here. *)
From Coq Require Import List ZArith Bool.
Import ListNotations.
Open Scope Z_scope.

(* the operations of a history (the vocabulary shared by specification and model) *)
Inductive op : Type :=
| OBegin                                  (* a block begins *)
| OEnd                                    (* the innermost block ends *)
| ODeclare (n v : Z)                      (* 令 n = v *)
| ODeclareConst (n v : Z)                 (* 令 n 恒为 v, 输入, 得到, method/type definition *)
| ODeclareExt (n v m : Z)                 (* imported from module m (constant) *)
| OAssign (n v : Z)                       (* n = v *)
| OLookup (n : Z)                         (* use of n *)
| OLookupM (n : Z).                       (* use of n, also asking for the module it belongs to *)

(* result codes: the runtime error codes of pkg/error *)
Definition E_OK : Z := 0.
Definition E_NOT_DEFINED : Z := 42.
Definition E_REDECLARED : Z := 43.
Definition E_ASSIGN_CONST : Z := 44.

(* module id reported for predefined names (runtime.NativeCodeModule) *)
Definition NATIVE_MODULE : Z := -1.

(* the predefined names 真 假 空 异常 显示 取随机数 数值 are the name ids 0..6;
   the value bound to predefined name n is written -(n+1) *)
Definition predef (n : Z) : option Z :=
  if (0 <=? n) && (n <? 7) then Some (- (n + 1)) else None.

Record binding : Type := mkB { b_val : Z; b_const : bool; b_ext : option Z }.
Definition block : Type := list (Z * binding).
Definition env : Type := list block.

Fixpoint blk_find (n : Z) (b : block) : option binding :=
  match b with
  | [] => None
  | (k, x) :: r => if k =? n then Some x else blk_find n r
  end.

Definition blk_mem (n : Z) (b : block) : bool :=
  match blk_find n b with Some _ => true | None => false end.

Fixpoint blk_set (n : Z) (v : Z) (b : block) : block :=
  match b with
  | [] => []
  | (k, x) :: r => if k =? n then (k, mkB v (b_const x) (b_ext x)) :: r else (k, x) :: blk_set n v r
  end.

(* lookup = innermost binding *)
Fixpoint env_find (n : Z) (e : env) : option binding :=
  match e with
  | [] => None
  | b :: r => match blk_find n b with Some x => Some x | None => env_find n r end
  end.

(* replace the value of the innermost binding of n *)
Fixpoint env_set (n : Z) (v : Z) (e : env) : env :=
  match e with
  | [] => []
  | b :: r => if blk_mem n b then blk_set n v b :: r else b :: env_set n v r
  end.

Definition empty_env : env := [[]].          (* one (outermost) block, nothing declared *)

Definition spec_begin (e : env) : env := [] :: e.
Definition spec_end (e : env) : env := tl e.  (* end-block drops the top block *)

(* declare fails iff the name is predefined or already in the top block *)
Definition spec_declare (n : Z) (bd : binding) (e : env) : env * Z :=
  match predef n with
  | Some _ => (e, E_REDECLARED)
  | None =>
    match e with
    | [] => (e, E_NOT_DEFINED)               (* no block at all: nothing can be declared *)
    | top :: r => if blk_mem n top then (e, E_REDECLARED) else (((n, bd) :: top) :: r, E_OK)
    end
  end.

(* assign fails on unknown names (42; this includes the predefined names, which are in no
   block) and on constants (44) and then changes nothing *)
Definition spec_assign (n v : Z) (e : env) : env * Z :=
  match env_find n e with
  | None => (e, E_NOT_DEFINED)
  | Some x => if b_const x then (e, E_ASSIGN_CONST) else (env_set n v e, E_OK)
  end.

(* lookup: (code, value, module).  [self] is the module the table belongs to; a binding imported
   from module m answers m.  Without the module question the third component is -1. *)
Definition spec_lookup (n : Z) (e : env) : list Z :=
  match predef n with
  | Some g => [E_OK; g; -1]
  | None => match env_find n e with
            | Some x => [E_OK; b_val x; -1]
            | None => [E_NOT_DEFINED; 0; -1]
            end
  end.

Definition spec_lookup_m (self : Z) (n : Z) (e : env) : list Z :=
  match predef n with
  | Some g => [E_OK; g; NATIVE_MODULE]
  | None => match env_find n e with
            | Some x => [E_OK; b_val x; match b_ext x with Some m => m | None => self end]
            | None => [E_NOT_DEFINED; 0; -1]
            end
  end.

(* one step: new environment and the answer [code; value; module] *)
Definition spec_step (self : Z) (e : env) (o : op) : env * list Z :=
  match o with
  | OBegin => (spec_begin e, [0; 0; -1])
  | OEnd => (spec_end e, [0; 0; -1])
  | ODeclare n v => let '(e', c) := spec_declare n (mkB v false None) e in (e', [c; 0; -1])
  | ODeclareConst n v => let '(e', c) := spec_declare n (mkB v true None) e in (e', [c; 0; -1])
  | ODeclareExt n v m => let '(e', c) := spec_declare n (mkB v true (Some m)) e in (e', [c; 0; -1])
  | OAssign n v => let '(e', c) := spec_assign n v e in (e', [c; 0; -1])
  | OLookup n => (e, spec_lookup n e)
  | OLookupM n => (e, spec_lookup_m self n e)
  end.

Fixpoint spec_run (self : Z) (e : env) (ops : list op) : env * list (list Z) :=
  match ops with
  | [] => (e, [])
  | o :: r => let '(e1, a) := spec_step self e o in
              let '(e2, l) := spec_run self e1 r in (e2, a :: l)
  end.

(* observables the verif accessor exposes: block depth and number of live symbols *)
Definition env_depth (e : env) : Z := Z.of_nat (length e) - 1.
Definition env_count (e : env) : Z := Z.of_nat (length (concat e)).

(* ---- well-formed histories ------------------------------------------------------------
   (1) no block is ended that was not begun ([d] = number of open blocks above the outermost);
   (2) values are real elements (the nil element, id 0, is never stored);
   (3) module ids of imports are real module ids (>= 0). *)
Fixpoint balanced_from (d : nat) (ops : list op) : bool :=
  match ops with
  | [] => true
  | OBegin :: r => balanced_from (S d) r
  | OEnd :: r => match d with O => false | S d' => balanced_from d' r end
  | _ :: r => balanced_from d r
  end.

Definition op_args_ok (o : op) : bool :=
  match o with
  | ODeclare _ v | ODeclareConst _ v | OAssign _ v => negb (v =? 0)
  | ODeclareExt _ v m => negb (v =? 0) && (0 <=? m)
  | _ => true
  end.

Definition wf_history (ops : list op) : bool := balanced_from 0 ops && forallb op_args_ok ops.

(* The evaluator opens and closes blocks only as  BeginScope(); defer EndScope()  pairs, so the
   history it applies to one symbol table is a prefix of a properly bracketed word. *)
Inductive paired : list op -> Prop :=
| paired_nil : paired []
| paired_op : forall o r, o <> OBegin -> o <> OEnd -> paired r -> paired (o :: r)
| paired_block : forall body r, paired body -> paired r -> paired (OBegin :: body ++ OEnd :: r).

(* the trace the differential run compares: per step the answer followed by depth and live-symbol count *)
Fixpoint spec_trace (self : Z) (e : env) (ops : list op) : list (list Z) :=
  match ops with
  | [] => []
  | o :: r => let '(e1, a) := spec_step self e o in
              (a ++ [env_depth e1; env_count e1]) :: spec_trace self e1 r
  end.
