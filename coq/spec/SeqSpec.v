(* SeqSpec.v — the abstract data type "finite sequence with positions 1..n" (C12 specification
   side, independent of pkg/value). Definitions only. *)
From Coq Require Import List ZArith Bool.
Import ListNotations.
Open Scope Z_scope.

Section Seq.
Context {A : Type}.

Definition seq_len (l : list A) : Z := Z.of_nat (length l).
Definition seq_valid (l : list A) (i : Z) : bool := (1 <=? i) && (i <=? seq_len l).

(* element at position i (1-based); None outside 1..n *)
Definition seq_get (l : list A) (i : Z) : option A :=
  if seq_valid l i then nth_error l (Z.to_nat (i - 1)) else None.

(* replace the element at position i; None outside 1..n *)
Definition seq_set (l : list A) (i : Z) (v : A) : option (list A) :=
  if seq_valid l i then Some (firstn (Z.to_nat (i - 1)) l ++ v :: skipn (Z.to_nat i) l) else None.

Definition seq_first (l : list A) : option A := seq_get l 1.
Definition seq_last (l : list A) : option A := seq_get l (seq_len l).
Definition seq_push_front (v : A) (l : list A) : list A := v :: l.
Definition seq_push_back (l : list A) (v : A) : list A := l ++ [v].
Definition seq_pop_front (l : list A) : option (A * list A) :=
  match l with [] => None | h :: t => Some (h, t) end.
Definition seq_pop_back (l : list A) : option (A * list A) :=
  match rev l with [] => None | h :: t => Some (h, rev t) end.
(* new element becomes the one after the first k elements *)
Definition seq_insert_after (l : list A) (k : nat) (v : A) : list A := firstn k l ++ v :: skipn k l.
Definition seq_swap (l : list A) (i j : Z) : option (list A) :=
  match seq_get l i, seq_get l j with
  | Some a, Some b => match seq_set l i b with Some l1 => seq_set l1 j a | None => None end
  | _, _ => None
  end.
Definition seq_reverse (l : list A) : list A := rev l.
Definition seq_concat (l : list A) (ls : list (list A)) : list A := l ++ concat ls.
(* the (position, element) pairs in order *)
Fixpoint seq_enumerate_from (i : Z) (l : list A) : list (Z * A) :=
  match l with [] => [] | h :: t => (i, h) :: seq_enumerate_from (i + 1) t end.
Definition seq_enumerate (l : list A) : list (Z * A) := seq_enumerate_from 1 l.
(* position (1-based) of the first element satisfying p *)
Fixpoint seq_find_from (i : Z) (p : A -> bool) (l : list A) : option Z :=
  match l with [] => None | h :: t => if p h then Some i else seq_find_from (i + 1) p t end.
Definition seq_find (p : A -> bool) (l : list A) : option Z := seq_find_from 1 p l.
End Seq.
