(* OMapSpec.v — the abstract data type "insertion-ordered map": an association list with distinct
   keys. Overwriting keeps the position, inserting appends, removing deletes, re-inserting appends.
   (C12 specification side, independent of pkg/value). Definitions only. *)
From Coq Require Import List Bool.
Import ListNotations.

Section OMap.
Context {K V : Type}.
Variable K_eq_dec : forall a b : K, {a = b} + {a <> b}.

Definition omap := list (K * V).
Definition om_wf (m : omap) : Prop := NoDup (map fst m).
Definition om_keys (m : omap) : list K := map fst m.
Definition om_values (m : omap) : list V := map snd m.
Definition om_size (m : omap) : nat := length m.

Fixpoint om_get (m : omap) (k : K) : option V :=
  match m with
  | [] => None
  | (k', v) :: r => if K_eq_dec k k' then Some v else om_get r k
  end.

(* overwrite in place, or append *)
Fixpoint om_put (m : omap) (k : K) (v : V) : omap :=
  match m with
  | [] => [(k, v)]
  | (k', w) :: r => if K_eq_dec k k' then (k', v) :: r else (k', w) :: om_put r k v
  end.

Fixpoint om_remove (m : omap) (k : K) : omap :=
  match m with
  | [] => []
  | (k', w) :: r => if K_eq_dec k k' then om_remove r k else (k', w) :: om_remove r k
  end.

(* the map built from a list of pairs that may repeat keys: first-insertion order, last value *)
Definition om_of_pairs (kvs : list (K * V)) : omap :=
  fold_left (fun m kv => om_put m (fst kv) (snd kv)) kvs [].
End OMap.
Arguments omap : clear implicits.
