(* StmtSpec.v — structured-outcome semantics of statements and blocks (property C02), written without the
   return slot and without error-encoded signals: a statement ends Normal / Return / Break / Continue / Raise.
   Parametric in the expression evaluator, like the mechanism model in model/Sem.v. *)
From Coq Require Import List ZArith Bool.
From Zn.model Require Import SemDefs Sem.
Import ListNotations.
Open Scope Z_scope.

Inductive outcome :=
| ONormal (v : val)        (* ran to its end; v = value of the statement / last executed statement *)
| OReturn (v : val)        (* 输出 v was executed *)
| OBreak                   (* 结束循环 *)
| OContinue                (* 继续循环 *)
| ORaise (e : err).        (* an error or exception propagates *)

Inductive ores :=
| OR (o : outcome) (s : state)
| OFuel
| OCrash (w : Z).

Section Spec.
  Variable ev : state -> expr -> res val.

  (* an expression-level computation seen as a statement outcome *)
  Definition lift {A} (r : res A) (f : A -> val) : ores :=
    match r with
    | Ok a s => OR (ONormal (f a)) s
    | Er e s => OR (ORaise e) s
    | Fuel => OFuel
    | Crash w => OCrash w
    end.

  (* sequencing: continue only after Normal *)
  Definition oseq (o : ores) (k : val -> state -> ores) : ores :=
    match o with
    | OR (ONormal v) s => k v s
    | o => o
    end.

  Definition ebind {A} (r : res A) (k : A -> state -> ores) : ores :=
    match r with
    | Ok a s => k a s
    | Er e s => OR (ORaise e) s
    | Fuel => OFuel
    | Crash w => OCrash w
    end.

  (* a loop: Break ends it normally, Continue and Normal go to the next pass, Return and Raise leave it *)
  Fixpoint o_while (body : state -> ores) (c : expr) (l : Z) (j : nat) (st : state) : ores :=
    match j with
    | O => OFuel
    | S j' =>
      ebind (ev (set_line st l) c) (fun cv s1 =>
        match cv with
        | VBool true =>
          match body s1 with
          | OR (ONormal _) s2 | OR OContinue s2 => o_while body c l j' s2
          | OR OBreak s2 => OR (ONormal VNull) s2
          | o => o
          end
        | VBool false => OR (ONormal VNull) s1
        | _ => OR (ORaise (ERun E_EXPRTYPE)) s1
        end)
    end.

  Fixpoint o_iter (body : state -> ores) (names : list name) (items : list (val * val)) (st : state) : ores :=
    match items with
    | [] => OR (ONormal VNull) st
    | (key, item) :: tl =>
      match ebind (bind_loop_vars names key item st) (fun _ sa => body sa) with
      | OR (ONormal _) s2 | OR OContinue s2 => o_iter body names tl s2
      | OR OBreak s2 => OR (ONormal VNull) s2
      | o => o
      end
    end.

  (* the first branch whose condition is 真, else 否则, else nothing *)
  Fixpoint o_others (blk : block -> state -> ores) (others : list (expr * block)) (els : option block) (st : state) : ores :=
    match others with
    | [] =>
      match els with
      | Some b => oseq (blk b st) (fun _ s => OR (ONormal VNull) s)
      | None => OR (ONormal VNull) st
      end
    | (ce, b) :: tl =>
      ebind (ev st ce) (fun cv s1 =>
        match cv with
        | VBool true => oseq (blk b s1) (fun _ s => OR (ONormal VNull) s)
        | VBool false => o_others blk tl els s1
        | _ => OR (ORaise (ERun E_EXPRTYPE)) s1
        end)
    end.

  (* a block is a scope: whatever the outcome, its declarations end with it *)
  Definition o_scoped (o : ores) : ores :=
    match o with
    | OR oc s => OR oc (end_scope s)
    | o => o
    end.

  (* statements in order; the first non-Normal outcome is the block's outcome;
     definitions (hoisted) are skipped *)
  Fixpoint o_block_go (exec : state -> stmt -> ores) (b : block) (st : state) (last : val) : ores :=
    match b with
    | [] => OR (ONormal last) st
    | (line, s) :: tl =>
      if is_def s then o_block_go exec tl st last
      else oseq (exec (set_line st line) s) (fun v s1 => o_block_go exec tl s1 v)
    end.

  Fixpoint o_stmt (k : nat) (st : state) (s : stmt) {struct k} : ores :=
    match k with
    | O => OFuel
    | S k' =>
      match s with
      | SDecl pairs => lift (decl_pairs ev k' pairs st) (fun v => v)
      | SWhile c body => o_while (fun s1 => o_block k' s1 body) c (cur_line st) k' st
      | SBranch c t others els =>
        ebind (ev st c) (fun cv s1 =>
          match cv with
          | VBool true => oseq (o_block k' s1 t) (fun _ s => OR (ONormal VNull) s)
          | VBool false => o_others (fun b s => o_block k' s b) others els s1
          | _ => OR (ORaise (ERun E_EXPRTYPE)) s1
          end)
      | SIter e names body =>
        o_scoped
          (ebind (ev (begin_scope st) e) (fun target s1 =>
           ebind (declare_loop_vars names s1) (fun _ s2 =>
             if is_collection target then
               match iter_pairs s2 target with
               | Some items => o_iter (fun sa => o_block k' sa body) names items s2
               | None => OCrash UNMODELLED
               end
             else OR (ORaise (ERun E_EXPRTYPE)) s2)))
      | SReturn e => ebind (ev st e) (fun v s1 => OR (OReturn v) s1)
      | SBreak => OR OBreak st
      | SContinue => OR OContinue st
      | SThrow cls args =>
        ebind (vm_find st cls) (fun cv s1 =>
          match cv with
          | VClass _ => ebind (ev s1 (ENew cls args)) (fun obj s2 => OR (ORaise (EExc obj)) s2)
          | _ => OR (ORaise (ERun E_EXCTYPE)) s1
          end)
      | SExpr e => lift (ev st e) (fun v => v)
      | SEmpty => OR (ONormal VNull) st
      | SFunc _ _ _ _ | SCtor _ _ _ _ | SClass _ _ _ => OR (ONormal VNull) st
      end
    end
  with o_block (k : nat) (st : state) (b : block) {struct k} : ores :=
    match k with
    | O => OFuel
    | S k' => o_scoped (o_block_go (o_stmt k') b (begin_scope st) VNull)
    end.
End Spec.
