(* C04 - proofs about the number recogniser (model/NumDfa.v). *)
From Coq Require Import List ZArith Bool Lia.
Import ListNotations.
From Zn.model Require Import NumDfa.
From Zn.gen Require Import GenC04NumDfa.
Open Scope Z_scope.

(* ================================================================== A. the checker is sound *)
Section Sound.
  Context {A B : Type} (eqA : A -> A -> bool) (eqB : B -> B -> bool).
  Hypothesis eqA_ok : forall x y, eqA x y = true -> x = y.
  Hypothesis eqB_ok : forall x y, eqB x y = true -> x = y.
  Variables (ma : machine A) (mb : machine B).

  Lemma memR_In : forall p R, memR eqA eqB p R = true -> In p R.
  Proof.
    intros p R H. unfold memR in H. apply existsb_exists in H. destruct H as [q [Hin Heq]].
    unfold pair_eqb in Heq. apply andb_true_iff in Heq. destruct Heq as [H1 H2].
    apply eqA_ok in H1. apply eqB_ok in H2. destruct p, q; simpl in *; subst. exact Hin.
  Qed.

  Definition reps_complete (reps : list Z) : Prop :=
    forall c, exists r, In r reps /\ (forall p, m_step ma p c = m_step ma p r) /\ (forall q, m_step mb q c = m_step mb q r).

  Theorem closed_check_sound : forall reps R,
    closed_check eqA eqB ma mb reps R = true -> reps_complete reps ->
    forall w, run ma w = run mb w.
  Proof.
    intros reps R Hc Hreps.
    unfold closed_check in Hc. apply andb_true_iff in Hc. destruct Hc as [Hinit Hall].
    rewrite forallb_forall in Hall.
    assert (Hmain : forall w p q, In (p, q) R -> run_from ma p w = run_from mb q w).
    { induction w as [|c w IH]; intros p q Hin.
      - specialize (Hall _ Hin). apply andb_true_iff in Hall. destruct Hall as [Ho _].
        apply Z.eqb_eq in Ho. exact Ho.
      - specialize (Hall _ Hin). apply andb_true_iff in Hall. destruct Hall as [_ Hs].
        rewrite forallb_forall in Hs.
        destruct (Hreps c) as [r [Hr [Ha Hb]]].
        unfold run_from. simpl. rewrite Ha, Hb.
        apply (IH (m_step ma p r) (m_step mb q r)).
        apply memR_In. apply (Hs r Hr). }
    intro w. unfold run. apply Hmain. apply memR_In. exact Hinit.
  Qed.

  Corollary equiv_check_sound : forall fuel reps,
    equiv_check eqA eqB ma mb fuel reps = true -> reps_complete reps ->
    forall w, run ma w = run mb w.
  Proof. intros fuel reps H. unfold equiv_check in H. eapply closed_check_sound; eauto. Qed.
End Sound.

Lemma cfg_eqb_ok : forall x y, cfg_eqb x y = true -> x = y.
Proof.
  intros [[s1 a1] t1] [[s2 a2] t2] H. unfold cfg_eqb in H.
  apply andb_true_iff in H. destruct H as [H H3]. apply andb_true_iff in H. destruct H as [H1 H2].
  apply Z.eqb_eq in H1. apply Bool.eqb_prop in H2. apply Bool.eqb_prop in H3. subst. reflexivity.
Qed.

Lemma rstate_eqb_ok : forall x y, rstate_eqb x y = true -> x = y.
Proof. intros x y H. unfold rstate_eqb in H. apply Z.eqb_eq in H. destruct x, y; simpl in H; try reflexivity; discriminate. Qed.

(* ================================================================== B. representatives are complete *)
Lemma memZ_In : forall x l, memZ x l = true <-> In x l.
Proof.
  intros x l. unfold memZ. rewrite existsb_exists. split.
  - intros [y [Hin He]]. apply Z.eqb_eq in He. subst. exact Hin.
  - intro H. exists x. split; [exact H | apply Z.eqb_refl].
Qed.

Lemma find_case_notin : forall (A : Type) x (cs : list (list Z * A)),
  ~ In x (flat_map fst cs) -> find_case x cs = None.
Proof.
  induction cs as [|[ls a] cs IH]; intro H; simpl in *; [reflexivity|].
  destruct (memZ x ls) eqn:E.
  - exfalso. apply H. apply in_or_app. left. apply memZ_In. exact E.
  - apply IH. intro H'. apply H. apply in_or_app. right. exact H'.
Qed.

Lemma fresh_above_spec : forall l x, x <= fresh_above l x /\ forall y, In y l -> y < fresh_above l x.
Proof.
  induction l as [|a l IH]; intro x; simpl.
  - split; [lia | intros y []].
  - destruct (Z.leb_spec x a).
    + destruct (IH (a + 1)) as [H1 H2]. split; [lia|]. intros y [Hy|Hy]; [subst; lia | auto].
    + destruct (IH x) as [H1 H2]. split; [lia|]. intros y [Hy|Hy]; [subst; lia | auto].
Qed.

Lemma fresh_above_notin : forall l x, ~ In (fresh_above l x) l.
Proof. intros l x H. destruct (fresh_above_spec l x) as [_ H2]. specialize (H2 _ H). lia. Qed.

Lemma classify_other : forall c, ~ In c num_chars -> classify c = Cother.
Proof.
  intros c H. unfold num_chars in H. simpl in H.
  assert (c <> 48 /\ c <> 49 /\ c <> 50 /\ c <> 51 /\ c <> 52 /\ c <> 53 /\ c <> 54 /\ c <> 55 /\ c <> 56 /\ c <> 57
          /\ c <> 43 /\ c <> 45 /\ c <> 46 /\ c <> 101 /\ c <> 69 /\ c <> 42 /\ c <> 94) as Hn.
  { repeat split; intro; subst; apply H; tauto. }
  clear H. unfold classify.
  repeat match goal with
         | |- context [?a =? ?b] => destruct (Z.eqb_spec a b); [lia|]
         end.
  destruct (Z.leb_spec 50 c); destruct (Z.leb_spec c 57); simpl; try reflexivity. lia.
Qed.

Lemma tab_step_unmentioned : forall T c x, ~ In x (tab_chars T) -> forall y, ~ In y (tab_chars T) ->
  tab_step T c x = tab_step T c y.
Proof.
  intros T [[st any] stopped] x Hx y Hy. unfold tab_step, nt_next.
  rewrite (find_case_notin _ x (nt_cases T) Hx), (find_case_notin _ y (nt_cases T) Hy). reflexivity.
Qed.

Lemma reps_for_complete : forall T, reps_complete (tab_machine T) ref_machine (reps_for T).
Proof.
  intros T c. unfold reps_for.
  set (ms := tab_chars T ++ num_chars).
  destruct (in_dec Z.eq_dec c ms) as [Hin|Hnin].
  - exists c. split; [right; exact Hin | split; reflexivity].
  - exists (fresh_above ms 0). split; [left; reflexivity|].
    pose proof (fresh_above_notin ms 0) as Hf.
    assert (~ In c (tab_chars T) /\ ~ In c num_chars) as [Hc1 Hc2].
    { split; intro; apply Hnin; apply in_or_app; [left|right]; assumption. }
    assert (~ In (fresh_above ms 0) (tab_chars T) /\ ~ In (fresh_above ms 0) num_chars) as [Hf1 Hf2].
    { split; intro; apply Hf; apply in_or_app; [left|right]; assumption. }
    split.
    + intro p. simpl. apply tab_step_unmentioned; assumption.
    + intro q. simpl. rewrite (classify_other _ Hc2), (classify_other _ Hf2). reflexivity.
Qed.

(* ================================================================== C. the table machine is tryParseNumber *)
Lemma fold_stopped : forall T w st any, fold_left (tab_step T) w (st, any, true) = (st, any, true).
Proof. induction w as [|c w IH]; intros; simpl; [reflexivity | apply IH]. Qed.

Lemma tp_loop_fold : forall T w st parsed,
  0 <= parsed ->
  let '(st', p') := tp_loop T w st parsed in
  fold_left (tab_step T) w (st, 0 <? parsed, false) = (st', 0 <? p', p' - parsed <? Z.of_nat (length w))
  /\ parsed <= p' <= parsed + Z.of_nat (length w).
Proof.
  induction w as [|c w IH]; intros st parsed Hp.
  - simpl. rewrite Z.sub_diag. split; [reflexivity | lia].
  - cbn [tp_loop fold_left]. unfold tab_step at 2.
    destruct (nt_next T st c) as [st'|] eqn:E.
    + specialize (IH st' (parsed + 1) ltac:(lia)).
      destruct (tp_loop T w st' (parsed + 1)) as [s2 p2]. destruct IH as [IH1 IH2].
      replace (0 <? parsed + 1) with true in IH1 by (symmetry; apply Z.ltb_lt; lia).
      rewrite IH1. split.
      * f_equal. cbn [length]. rewrite Nat2Z.inj_succ.
        destruct (Z.ltb_spec (p2 - (parsed + 1)) (Z.of_nat (length w))); destruct (Z.ltb_spec (p2 - parsed) (Z.succ (Z.of_nat (length w)))); try reflexivity; lia.
      * cbn [length]. rewrite Nat2Z.inj_succ. lia.
    + rewrite fold_stopped. split.
      * f_equal. rewrite Z.sub_diag. cbn [length]. rewrite Nat2Z.inj_succ. symmetry. apply Z.ltb_lt. lia.
      * lia.
Qed.

Lemma epilogue_abs : forall T tests st p len,
  forallb (fun t => let '(kind, arg, _) := t in negb (kind =? 0) || (arg =? 0)) tests = true ->
  0 <= p <= len ->
  epilogue T tests st p len =
  epilogue T tests st (if 0 <? p then 1 else 0) (if p <? len then 2 else if 0 <? p then 1 else 0).
Proof.
  induction tests as [|[[kind arg] res] tests IH]; intros st p len Hreg Hp; [reflexivity|].
  simpl in Hreg. apply andb_true_iff in Hreg. destruct Hreg as [Hk Hreg].
  cbn [epilogue]. rewrite <- (IH st p len Hreg Hp).
  assert (epi_test T st p len kind arg =
          epi_test T st (if 0 <? p then 1 else 0) (if p <? len then 2 else if 0 <? p then 1 else 0) kind arg) as ->; [|reflexivity].
  unfold epi_test.
  destruct (Z.eqb_spec kind 0) as [->|Hk0].
  - simpl in Hk. apply Z.eqb_eq in Hk. subst arg.
    destruct (Z.ltb_spec 0 p); destruct (Z.eqb_spec p 0); try reflexivity; lia.
  - destruct (kind =? 1); [reflexivity|]. destruct (kind =? 2); [reflexivity|].
    destruct (kind =? 3); [|reflexivity].
    destruct (Z.ltb_spec p len); destruct (Z.ltb_spec 0 p); simpl; try reflexivity;
      repeat match goal with |- context [?a <? ?b] => destruct (Z.ltb_spec a b) end; try reflexivity; lia.
Qed.

Theorem tab_machine_correct : forall T, tab_regular T = true ->
  forall w, try_parse_number T w = run (tab_machine T) w.
Proof.
  intros T Hreg w. unfold try_parse_number, run, run_from. cbn [tab_machine m_init m_step m_out].
  pose proof (tp_loop_fold T w (nt_init T) 0 ltac:(lia)) as H.
  destruct (tp_loop T w (nt_init T) 0) as [st p]. destruct H as [H1 H2].
  change (0 <? 0) with false in H1. rewrite H1. unfold tab_out.
  rewrite Z.sub_0_r.
  rewrite (epilogue_abs T (nt_epilogue T) st p (Z.of_nat (length w)) Hreg ltac:(lia)).
  destruct (0 <? p); destruct (p <? Z.of_nat (length w)); reflexivity.
Qed.

(* ================================================================== D. the reference machine is the documented form *)
Definition rrun (q : rstate) (w : list cc) : Z := ref_out (fold_left ref_step w q).

Lemma run_from_ref : forall w q, run_from ref_machine q w = rrun q (map classify w).
Proof. induction w as [|c w IH]; intro q; [reflexivity|]. unfold run_from, rrun in *. simpl. apply IH. Qed.

Definition num_or_rej (b : bool) : Z := if b then RNumber else RRejected.

Lemma rrun_cons : forall q c w, rrun q (c :: w) = rrun (ref_step q c) w.
Proof. reflexivity. Qed.

Lemma rrun_namesink : forall w, rrun RNameSink w = RName.
Proof. induction w; [reflexivity | rewrite rrun_cons; exact IHw]. Qed.
Lemma rrun_rejsink : forall w, rrun RRejSink w = RRejected.
Proof. induction w; [reflexivity | rewrite rrun_cons; exact IHw]. Qed.

Lemma rrun_exp : forall w, rrun RExp w = num_or_rej (all_digits w).
Proof.
  induction w as [|c w IH]; [reflexivity|]. rewrite rrun_cons.
  destruct c; cbn [ref_step is_digit all_digits andb]; try exact IH; apply rrun_rejsink.
Qed.

Lemma rrun_expsign : forall w, rrun RExpSign w = num_or_rej (digits1 w).
Proof.
  destruct w as [|c w]; [reflexivity|]. rewrite rrun_cons.
  destruct c; cbn [ref_step is_digit digits1 andb]; try apply rrun_exp; apply rrun_rejsink.
Qed.

Lemma rrun_hat : forall w, rrun RHat w = num_or_rej (digits1 (opt_sign w)).
Proof.
  destruct w as [|c w]; [reflexivity|]. rewrite rrun_cons.
  destruct c; cbn [ref_step is_digit is_sign opt_sign digits1 andb]; try apply rrun_exp; try apply rrun_rejsink.
  apply rrun_expsign.
Qed.

Lemma rrun_star : forall w, rrun RStar w = num_or_rej (doc_exponent (Cstar :: w)).
Proof.
  destruct w as [|c w]; [reflexivity|]. rewrite rrun_cons.
  destruct c; cbn [ref_step doc_exponent]; try apply rrun_rejsink; try apply rrun_hat.
  (* '1' *)
  destruct w as [|c w]; [reflexivity|]. rewrite rrun_cons.
  destruct c; cbn [ref_step]; try apply rrun_rejsink.
  destruct w as [|c w]; [reflexivity|]. rewrite rrun_cons.
  destruct c; cbn [ref_step]; try apply rrun_rejsink. apply rrun_hat.
Qed.

Lemma rrun_e : forall w, rrun RE w = num_or_rej (doc_exponent (Ce :: w)).
Proof.
  destruct w as [|c w]; [reflexivity|]. rewrite rrun_cons.
  destruct c; cbn [ref_step is_sign doc_exponent andb]; try apply rrun_rejsink. apply rrun_expsign.
Qed.

Lemma rrun_frac : forall w, rrun RFrac w = num_or_rej (doc_frac_tail w).
Proof.
  induction w as [|c w IH]; [reflexivity|]. rewrite rrun_cons.
  destruct c; cbn [ref_step is_digit doc_frac_tail]; try exact IH; try apply rrun_rejsink.
  - apply rrun_e.
  - apply rrun_star.
Qed.

Lemma rrun_dot : forall w, rrun RDot w = num_or_rej (doc_frac w).
Proof.
  destruct w as [|c w]; [reflexivity|]. rewrite rrun_cons.
  destruct c; cbn [ref_step is_digit doc_frac andb]; try apply rrun_frac; apply rrun_rejsink.
Qed.

Lemma rrun_int : forall w, rrun RInt w = num_or_rej (doc_int_tail w).
Proof.
  induction w as [|c w IH]; [reflexivity|]. rewrite rrun_cons.
  destruct c; cbn [ref_step is_digit doc_int_tail]; try exact IH; try apply rrun_rejsink.
  - apply rrun_dot.
  - apply rrun_e.
  - apply rrun_star.
Qed.

Theorem ref_is_documented_cc : forall w, rrun R0 w = classify_doc_cc w.
Proof.
  intro w. unfold classify_doc_cc, doc_number_cc.
  destruct w as [|c w]; [reflexivity|]. rewrite rrun_cons.
  destruct c; cbn [ref_step is_digit is_sign opt_sign doc_unsigned starts_like_number_cc andb];
    try (rewrite rrun_int; destruct (doc_int_tail w); reflexivity);
    try (rewrite rrun_namesink; reflexivity).
  (* sign *)
  destruct w as [|d w]; [reflexivity|]. rewrite rrun_cons.
  destruct d; cbn [ref_step is_digit doc_unsigned andb];
    try (rewrite rrun_int; destruct (doc_int_tail w); reflexivity);
    try (rewrite rrun_namesink; reflexivity).
Qed.

Theorem ref_is_documented : forall w, run ref_machine w = classify_doc w.
Proof. intro w. unfold run. rewrite run_from_ref. apply ref_is_documented_cc. Qed.

(* ================================================================== E. the generated recogniser *)
Definition GenT : numtab :=
  {| nt_init := gen_num_init; nt_end := gen_num_end; nt_cases := gen_num_cases;
     nt_epilogue := gen_num_epilogue; nt_final := gen_num_final |}.

(* general: any table that passes the check recognises the documented form *)
Theorem checked_table_is_documented : forall T, num_equiv_check T = true ->
  forall w, try_parse_number T w = classify_doc w.
Proof.
  intros T H w. unfold num_equiv_check in H. apply andb_true_iff in H. destruct H as [Hreg Heq].
  rewrite (tab_machine_correct T Hreg).
  rewrite <- ref_is_documented.
  eapply equiv_check_sound; [exact cfg_eqb_ok | exact rstate_eqb_ok | exact Heq | apply reps_for_complete].
Qed.

(* the obligation that is re-opened by every change of tryParseNumber: evaluated on the regenerated table *)
Lemma gen_translated : gen_num_ok = true.
Proof. vm_compute. reflexivity. Qed.

Lemma gen_num_equiv : num_equiv_check GenT = true.
Proof. vm_compute. reflexivity. Qed.

Theorem gen_is_documented : forall w, try_parse_number GenT w = classify_doc w.
Proof. exact (checked_table_is_documented GenT gen_num_equiv). Qed.

(* consequences, in the words of the property *)
Theorem gen_number_iff_documented : forall w, try_parse_number GenT w = RNumber <-> doc_number w = true.
Proof.
  intro w. rewrite gen_is_documented. unfold classify_doc, classify_doc_cc, doc_number.
  destruct (doc_number_cc (map classify w)); [split; reflexivity|].
  destruct (starts_like_number_cc (map classify w)); split; intro H; discriminate.
Qed.

Theorem gen_prefix_numbers_rejected : forall w,
  starts_like_number_cc (map classify w) = true -> doc_number w = false ->
  try_parse_number GenT w = RRejected.
Proof.
  intros w Hs Hd. rewrite gen_is_documented. unfold classify_doc, classify_doc_cc.
  unfold doc_number in Hd. rewrite Hd, Hs. reflexivity.
Qed.

Theorem gen_name_iff : forall w,
  try_parse_number GenT w = RName <-> (doc_number w = false /\ starts_like_number_cc (map classify w) = false).
Proof.
  intro w. rewrite gen_is_documented. unfold classify_doc, classify_doc_cc, doc_number.
  destruct (doc_number_cc (map classify w)); destruct (starts_like_number_cc (map classify w));
    split; intro H; try discriminate; try (destruct H; discriminate); auto.
Qed.
