(* SemExpr.v — operator expressions (property C01): the evaluator's result on an expression built from literals,
   variables and the arithmetic / comparison / logical operators is the value of a fuel-free, state-free denotation
   that transcribes the manual's rules; plus the individual clauses (short circuit, error conditions). *)
From Coq Require Import List ZArith Bool Lia.
From Zn.lib Require Import Float64.
From Zn.model Require Import SemDefs Sem.
Import ListNotations.
Open Scope Z_scope.

(* ---------- the operator fragment ---------- *)
Inductive pexpr :=
| PNum (bits : Z)
| PStr (s : str)
| PVar (x : name)
| PArith (op : arith) (l r : pexpr)
| PLogic (op : logic) (l r : pexpr).

Fixpoint inj (e : pexpr) : expr :=
  match e with
  | PNum b => ENum b
  | PStr s => EStr s
  | PVar x => EVar x
  | PArith op l r => EArith op (inj l) (inj r)
  | PLogic op l r => ELogic op (inj l) (inj r)
  end.

Fixpoint pdepth (e : pexpr) : nat :=
  match e with
  | PArith _ l r | PLogic _ l r => S (Nat.max (pdepth l) (pdepth r))
  | _ => O
  end.

Definition scalar (v : val) : bool :=
  match v with VNull | VBool _ | VNum _ | VStr _ => true | _ => false end.

(* ---------- the documented semantics, as a function of the variables' values ---------- *)
Inductive sres := SV (v : val) | SE (code : Z).

Definition arith_val (op : arith) (x y : Z) : Z :=
  match op with
  | AAdd => fadd x y
  | ASub => fsub x y
  | AMul => fmul x y
  | ADiv => fdiv x y
  | AIntDiv => ffloor (fdiv x y)                       (* a | b = floor(a / b) *)
  | AMod => fsub x (fmul (ffloor (fdiv x y)) y)        (* a % b = a - floor(a / b) * b *)
  end.

Definition divides (op : arith) : bool := match op with ADiv | AIntDiv | AMod => true | _ => false end.

(* structural equality of two scalars: different types are simply unequal *)
Definition scalar_eq (a b : val) : bool :=
  match a, b with
  | VNull, VNull => true
  | VNum x, VNum y => feq x y
  | VStr x, VStr y => str_eqb x y
  | VBool x, VBool y => Bool.eqb x y
  | _, _ => false
  end.

Definition den_arith (op : arith) (a b : val) : sres :=
  match a, b with
  | VNum x, VNum y => if divides op && fis_zero y then SE E_DIVZERO else SV (VNum (arith_val op x y))
  | _, _ => SE E_EXPRTYPE
  end.

Definition den_compare (op : logic) (a b : val) : sres :=
  match op with
  | LEq | LXeq => SV (VBool (scalar_eq a b))
  | LNeq | LXneq => SV (VBool (negb (scalar_eq a b)))
  | _ =>
    match a with
    | VNum x =>
      match b with
      | VNum y => SV (VBool (match op with LGt => fgt x y | LGte => fge x y | LLt => flt x y | _ => fle x y end))
      | _ => SE E_CMPR
      end
    | _ => SE E_CMPL
    end
  end.

Fixpoint den (st : state) (e : pexpr) : sres :=
  match e with
  | PNum b => SV (VNum b)
  | PStr s => SV (VStr s)
  | PVar x => match vm_find st x with Ok v _ => SV v | _ => SE E_UNDEF end
  | PArith op l r =>
    match den st l with
    | SE c => SE c
    | SV a =>
      (* arithmetic stops at a non-number left operand before looking at the right one (except %, whose
         left operand may be a text) *)
      if (match op with AMod => false | _ => negb (is_num a) end) then SE E_EXPRTYPE else
      match den st r with
      | SE c => SE c
      | SV b => den_arith op a b
      end
    end
  | PLogic op l r =>
    match op with
    | LAnd | LOr =>
      match den st l with
      | SE c => SE c
      | SV (VBool x) =>
        (* the right operand is looked at only when the left one does not decide *)
        match op, x with
        | LAnd, false => SV (VBool false)
        | LOr, true => SV (VBool true)
        | _, _ =>
          match den st r with
          | SE c => SE c
          | SV (VBool y) => SV (VBool (match op with LAnd => x && y | _ => x || y end))
          | SV _ => SE E_EXPRTYPE
          end
        end
      | SV _ => SE E_EXPRTYPE
      end
    | _ =>
      match den st l with
      | SE c => SE c
      | SV a => match den st r with
                | SE c => SE c
                | SV b => den_compare op a b
                end
      end
    end
  end.

Definition lift_s (st : state) (r : sres) : res val :=
  match r with SV v => Ok v st | SE c => Er (ERun c) st end.

(* every variable of e denotes a scalar (number, boolean, text, 空) or is undefined *)
Fixpoint scalar_vars (st : state) (e : pexpr) : Prop :=
  match e with
  | PVar x => match vm_find st x with Ok v _ => scalar v = true | _ => True end
  | PArith _ l r | PLogic _ l r => scalar_vars st l /\ scalar_vars st r
  | _ => True
  end.

(* values of the fragment are scalars *)
Lemma den_scalar st e v : scalar_vars st e -> den st e = SV v -> scalar v = true.
Proof.
  revert v. induction e as [b|s|x|op l IHl r IHr|op l IHl r IHr]; intros v Hs H; cbn in *.
  - inversion H; reflexivity.
  - inversion H; reflexivity.
  - destruct (vm_find st x) as [v0 s0|e0 s0| |w]; try discriminate. inversion H; subst. exact Hs.
  - destruct (den st l) as [a|c]; [|discriminate].
    destruct (match op with AMod => false | _ => negb (is_num a) end); [discriminate|].
    destruct (den st r) as [b|c]; [|discriminate]. unfold den_arith in H.
    destruct a; try discriminate. destruct b; try discriminate.
    destruct (divides op && fis_zero bits0); [discriminate|]. inversion H; reflexivity.
  - destruct op.
    + destruct (den st l) as [[| [|] | | | | | | | | | |]|c]; try discriminate.
      * destruct (den st r) as [[| y | | | | | | | | | |]|c]; try discriminate. inversion H; reflexivity.
      * inversion H; reflexivity.
    + destruct (den st l) as [[| [|] | | | | | | | | | |]|c]; try discriminate.
      * inversion H; reflexivity.
      * destruct (den st r) as [[| y | | | | | | | | | |]|c]; try discriminate. inversion H; reflexivity.
    + destruct (den st l) as [a|c]; [|discriminate]. destruct (den st r) as [b|c]; [|discriminate]. inversion H; reflexivity.
    + destruct (den st l) as [a|c]; [|discriminate]. destruct (den st r) as [b|c]; [|discriminate]. inversion H; reflexivity.
    + destruct (den st l) as [a|c]; [|discriminate]. destruct (den st r) as [b|c]; [|discriminate]. inversion H; reflexivity.
    + destruct (den st l) as [a|c]; [|discriminate]. destruct (den st r) as [b|c]; [|discriminate]. inversion H; reflexivity.
    + destruct (den st l) as [a|c]; [|discriminate]. destruct (den st r) as [b|c]; [|discriminate].
      cbn in H. destruct a; try discriminate. destruct b; try discriminate. inversion H; reflexivity.
    + destruct (den st l) as [a|c]; [|discriminate]. destruct (den st r) as [b|c]; [|discriminate].
      cbn in H. destruct a; try discriminate. destruct b; try discriminate. inversion H; reflexivity.
    + destruct (den st l) as [a|c]; [|discriminate]. destruct (den st r) as [b|c]; [|discriminate].
      cbn in H. destruct a; try discriminate. destruct b; try discriminate. inversion H; reflexivity.
    + destruct (den st l) as [a|c]; [|discriminate]. destruct (den st r) as [b|c]; [|discriminate].
      cbn in H. destruct a; try discriminate. destruct b; try discriminate. inversion H; reflexivity.
Qed.

(* the model's operator functions on scalars *)
Lemma xeq_scalar k h a b : scalar a = true -> xeq (S k) h a b = if scalar_eq a b then CTrue else CFalse.
Proof.
  destruct a; cbn; try discriminate; intros _; destruct b; try reflexivity.
Qed.

Lemma arith_op_den st op a b : scalar a = true -> scalar b = true ->
  arith_op st op a b = lift_s st (den_arith op a b).
Proof.
  intros Ha Hb. unfold arith_op, den_arith.
  destruct op; destruct a; try discriminate; destruct b; try discriminate; cbn; try reflexivity;
    try (destruct (fis_zero bits0); reflexivity).
Qed.

Lemma compare_op_den k st op a b : scalar a = true -> scalar b = true ->
  (op <> LAnd /\ op <> LOr) ->
  compare_op (S k) st op a b = lift_s st (den_compare op a b).
Proof.
  intros Ha Hb [Hn1 Hn2]. unfold compare_op, den_compare, xeq_res.
  destruct op; try congruence; try (rewrite (xeq_scalar k _ a b Ha); destruct (scalar_eq a b); reflexivity).
  all: unfold order_op; destruct a; try reflexivity; destruct b; reflexivity.
Qed.

Lemma vm_find_state st x v s : vm_find st x = Ok v s -> s = st.
Proof. unfold vm_find. destruct (is_global x); [intros H; inversion H; reflexivity|]. destruct (find_sym x (syms st)); intros H; inversion H; reflexivity. Qed.
Lemma vm_find_er st x e s : vm_find st x = Er e s -> e = ERun E_UNDEF /\ s = st.
Proof. unfold vm_find. destruct (is_global x); [discriminate|]. destruct (find_sym x (syms st)); intros H; inversion H; split; reflexivity. Qed.

(* ---------- the theorem ---------- *)
Theorem eval_operator_expression : forall e st n,
  (pdepth e < n)%nat -> scalar_vars st e ->
  eval_expr n st (inj e) = lift_s st (den st e).
Proof.
  induction e as [b|s|x|op l IHl r IHr|op l IHl r IHr]; intros st n Hd Hs; destruct n as [|n]; try lia; cbn [inj eval_expr den].
  - reflexivity.
  - reflexivity.
  - destruct (vm_find st x) as [v s0|e0 s0| |w] eqn:E; cbn.
    + rewrite (vm_find_state _ _ _ _ E). reflexivity.
    + destruct (vm_find_er _ _ _ _ E) as [-> ->]. reflexivity.
    + unfold vm_find in E. destruct (is_global x); [discriminate|]. destruct (find_sym x (syms st)); discriminate.
    + unfold vm_find in E. destruct (is_global x); [discriminate|]. destruct (find_sym x (syms st)); discriminate.
  - (* arithmetic *)
    cbn in Hd, Hs. destruct Hs as [Hsl Hsr].
    rewrite IHl by (try lia; assumption).
    destruct (den st l) as [a|c] eqn:El; cbn [lift_s bind]; [|destruct op; reflexivity].
    pose proof (den_scalar st l a Hsl El) as Sa.
    destruct op; cbn [negb];
      try (destruct (is_num a) eqn:Ia; cbn [negb]; [|reflexivity]);
      rewrite IHr by (try lia; assumption);
      (destruct (den st r) as [b|c] eqn:Er; cbn [lift_s bind]; [|reflexivity]);
      (apply arith_op_den; [exact Sa|exact (den_scalar st r b Hsr Er)]).
  - (* logic *)
    cbn in Hd, Hs. destruct Hs as [Hsl Hsr].
    destruct op.
    + rewrite IHl by (try lia; assumption).
      destruct (den st l) as [a|c] eqn:El; cbn [lift_s bind]; [|reflexivity].
      destruct a; try reflexivity. destruct b; [|reflexivity].
      rewrite IHr by (try lia; assumption).
      destruct (den st r) as [b|c] eqn:Er; cbn [lift_s bind]; [|reflexivity]. destruct b; reflexivity.
    + rewrite IHl by (try lia; assumption).
      destruct (den st l) as [a|c] eqn:El; cbn [lift_s bind]; [|reflexivity].
      destruct a; try reflexivity. destruct b; [reflexivity|].
      rewrite IHr by (try lia; assumption).
      destruct (den st r) as [b|c] eqn:Er; cbn [lift_s bind]; [|reflexivity]. destruct b; reflexivity.
    + rewrite IHl by (try lia; assumption).
      destruct (den st l) as [a|c] eqn:El; cbn [lift_s bind]; [|reflexivity].
      rewrite IHr by (try lia; assumption).
      destruct (den st r) as [b|c] eqn:Er; cbn [lift_s bind]; [|reflexivity].
      destruct n as [|k]; [lia|]. apply compare_op_den;
        [exact (den_scalar st l a Hsl El)|exact (den_scalar st r b Hsr Er)|split; discriminate].
    + rewrite IHl by (try lia; assumption).
      destruct (den st l) as [a|c] eqn:El; cbn [lift_s bind]; [|reflexivity].
      rewrite IHr by (try lia; assumption).
      destruct (den st r) as [b|c] eqn:Er; cbn [lift_s bind]; [|reflexivity].
      destruct n as [|k]; [lia|]. apply compare_op_den;
        [exact (den_scalar st l a Hsl El)|exact (den_scalar st r b Hsr Er)|split; discriminate].
    + rewrite IHl by (try lia; assumption).
      destruct (den st l) as [a|c] eqn:El; cbn [lift_s bind]; [|reflexivity].
      rewrite IHr by (try lia; assumption).
      destruct (den st r) as [b|c] eqn:Er; cbn [lift_s bind]; [|reflexivity].
      destruct n as [|k]; [lia|]. apply compare_op_den;
        [exact (den_scalar st l a Hsl El)|exact (den_scalar st r b Hsr Er)|split; discriminate].
    + rewrite IHl by (try lia; assumption).
      destruct (den st l) as [a|c] eqn:El; cbn [lift_s bind]; [|reflexivity].
      rewrite IHr by (try lia; assumption).
      destruct (den st r) as [b|c] eqn:Er; cbn [lift_s bind]; [|reflexivity].
      destruct n as [|k]; [lia|]. apply compare_op_den;
        [exact (den_scalar st l a Hsl El)|exact (den_scalar st r b Hsr Er)|split; discriminate].
    + rewrite IHl by (try lia; assumption).
      destruct (den st l) as [a|c] eqn:El; cbn [lift_s bind]; [|reflexivity].
      rewrite IHr by (try lia; assumption).
      destruct (den st r) as [b|c] eqn:Er; cbn [lift_s bind]; [|reflexivity].
      destruct n as [|k]; [lia|]. apply compare_op_den;
        [exact (den_scalar st l a Hsl El)|exact (den_scalar st r b Hsr Er)|split; discriminate].
    + rewrite IHl by (try lia; assumption).
      destruct (den st l) as [a|c] eqn:El; cbn [lift_s bind]; [|reflexivity].
      rewrite IHr by (try lia; assumption).
      destruct (den st r) as [b|c] eqn:Er; cbn [lift_s bind]; [|reflexivity].
      destruct n as [|k]; [lia|]. apply compare_op_den;
        [exact (den_scalar st l a Hsl El)|exact (den_scalar st r b Hsr Er)|split; discriminate].
    + rewrite IHl by (try lia; assumption).
      destruct (den st l) as [a|c] eqn:El; cbn [lift_s bind]; [|reflexivity].
      rewrite IHr by (try lia; assumption).
      destruct (den st r) as [b|c] eqn:Er; cbn [lift_s bind]; [|reflexivity].
      destruct n as [|k]; [lia|]. apply compare_op_den;
        [exact (den_scalar st l a Hsl El)|exact (den_scalar st r b Hsr Er)|split; discriminate].
    + rewrite IHl by (try lia; assumption).
      destruct (den st l) as [a|c] eqn:El; cbn [lift_s bind]; [|reflexivity].
      rewrite IHr by (try lia; assumption).
      destruct (den st r) as [b|c] eqn:Er; cbn [lift_s bind]; [|reflexivity].
      destruct n as [|k]; [lia|]. apply compare_op_den;
        [exact (den_scalar st l a Hsl El)|exact (den_scalar st r b Hsr Er)|split; discriminate].
Qed.

(* ---------- individual clauses, for arbitrary (not only pure) operands ---------- *)

(* 且 / 或 evaluate the right operand only when the left one does not decide: whatever b is *)
Theorem and_short_circuit n st a b s1 :
  eval_expr n st a = Ok (VBool false) s1 -> eval_expr (S n) st (ELogic LAnd a b) = Ok (VBool false) s1.
Proof. intros H. cbn [eval_expr]. rewrite H. reflexivity. Qed.

Theorem or_short_circuit n st a b s1 :
  eval_expr n st a = Ok (VBool true) s1 -> eval_expr (S n) st (ELogic LOr a b) = Ok (VBool true) s1.
Proof. intros H. cbn [eval_expr]. rewrite H. reflexivity. Qed.

Theorem logic_evaluates_right_otherwise n st op a b x s1 :
  (op = LAnd /\ x = true) \/ (op = LOr /\ x = false) ->
  eval_expr n st a = Ok (VBool x) s1 ->
  eval_expr (S n) st (ELogic op a b) =
    match eval_expr n s1 b with
    | Ok (VBool y) s2 => Ok (VBool y) s2
    | Ok _ s2 => Er (ERun E_EXPRTYPE) s2
    | r => r
    end.
Proof.
  intros [[-> ->]|[-> ->]] H; cbn [eval_expr]; rewrite H; cbn [bind];
    destruct (eval_expr n s1 b) as [v s2|e s2| |w]; try reflexivity; destruct v; try reflexivity; destruct b0; reflexivity.
Qed.

Theorem logic_non_bool_is_error n st op a b v s1 :
  (op = LAnd \/ op = LOr) -> eval_expr n st a = Ok v s1 -> (forall x, v <> VBool x) ->
  eval_expr (S n) st (ELogic op a b) = Er (ERun E_EXPRTYPE) s1.
Proof.
  intros [-> | ->] H Hn; cbn [eval_expr]; rewrite H; cbn [bind]; destruct v; try reflexivity; exfalso; eapply Hn; reflexivity.
Qed.

(* arithmetic: exactly the number x number cases with a non-zero divisor yield a value *)
Theorem arith_value_iff st op a b v s :
  arith_op st op a b = Ok v s <->
  exists x y, a = VNum x /\ b = VNum y /\ (divides op && fis_zero y = false) /\ v = VNum (arith_val op x y) /\ s = st.
Proof.
  split.
  - unfold arith_op. destruct op; destruct a; try discriminate; destruct b; try discriminate;
      try (destruct (fis_zero bits0) eqn:Z; try discriminate);
      intros H; inversion H; subst; do 2 eexists; repeat split; cbn; try rewrite Z; reflexivity.
  - intros (x & y & -> & -> & Hz & -> & ->). unfold arith_op.
    destruct op; cbn in *; try reflexivity; rewrite Hz; reflexivity.
Qed.

Theorem arith_div_zero st op x y :
  divides op = true -> fis_zero y = true -> arith_op st op (VNum x) (VNum y) = Er (ERun E_DIVZERO) st.
Proof. intros Hd Hz. unfold arith_op. destruct op; try discriminate; rewrite Hz; reflexivity. Qed.

(* ordering on non-numbers is an error, never a value *)
Theorem order_non_number_left st op a b : (forall x, a <> VNum x) -> order_op st op a b = Er (ERun E_CMPL) st.
Proof. intros H. unfold order_op. destruct a; try reflexivity. exfalso. eapply H; reflexivity. Qed.

Theorem order_non_number_right st op x b : (forall y, b <> VNum y) -> order_op st op (VNum x) b = Er (ERun E_CMPR) st.
Proof. intros H. unfold order_op. destruct b; try reflexivity. exfalso. eapply H; reflexivity. Qed.

Theorem order_numbers st op x y : exists r, order_op st op (VNum x) (VNum y) = Ok (VBool r) st.
Proof. unfold order_op. eexists. reflexivity. Qed.
