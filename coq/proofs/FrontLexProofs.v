(* C05 - progress of the lexer model: every token function consumes input or is the end-of-text token, and the fuel
   the model passes to its internal loops always suffices. *)
From Coq Require Import List ZArith Bool Lia.
Import ListNotations.
From Zn.gen Require Import GenFrontTokens.
From Zn.model Require Import LexerTok Lexer.
From Zn.model Require StringLit.
From Zn.proofs Require StringLitProofs.
Open Scope Z_scope.

Notation len l := (length (rest l)).

(* facts about the regenerated constants (hold for RuneEOF = 0 and for RuneEOF = -1) *)
Lemma eof_not_break : is_break EOFc = false. Proof. reflexivity. Qed.
Lemma eof_not_ws : is_ws EOFc = false. Proof. reflexivity. Qed.
Lemma eof_not_colon : (EOFc =? g_Colon) = false. Proof. reflexivity. Qed.
Lemma eof_not_zhu : (EOFc =? g_CharZHU) = false. Proof. reflexivity. Qed.
Lemma eof_not_slash : (EOFc =? g_SlashOp) = false. Proof. reflexivity. Qed.
Lemma eof_not_lquote : mem EOFc left_quotes = false. Proof. reflexivity. Qed.
Lemma eof_not_bt : (EOFc =? g_BackTick) = false. Proof. reflexivity. Qed.
Lemma eof_not_punct : mem EOFc g_markPunctuations = false. Proof. reflexivity. Qed.
Lemma eof_not_op : mem EOFc g_markOperators = false. Proof. reflexivity. Qed.
Lemma eof_not_idchar : is_id_char EOFc = false. Proof. vm_compute. reflexivity. Qed.
Lemma eof_not_idbody : is_id_body g_RuneEOF = false. Proof. vm_compute. reflexivity. Qed.

Lemma curc_nonempty : forall r c, curc r = c -> c <> EOFc -> r <> [].
Proof. intros r c H N E. subst r. cbn in H. congruence. Qed.

Lemma skip_ws_len : forall r p r' p', skip_ws r p = (r', p') -> (length r' <= length r)%nat.
Proof.
  induction r as [|c r IH]; intros p r' p' H; cbn [skip_ws] in H.
  - inversion H; subst. auto.
  - destruct (is_ws c).
    + apply IH in H. cbn. lia.
    + inversion H; subst. auto.
Qed.

Lemma skip_ws_strict : forall c r p r' p', is_ws c = true -> skip_ws (c :: r) p = (r', p') -> (length r' < length (c :: r))%nat.
Proof. intros c r p r' p' W H. cbn [skip_ws] in H. rewrite W in H. apply skip_ws_len in H. cbn. lia. Qed.

Lemma run_same_len : forall ch r p c r' p' c', run_same ch r p c = (r', p', c') -> (length r' <= length r)%nat.
Proof.
  induction r as [|x r IH]; intros p c r' p' c' H; cbn [run_same] in H.
  - inversion H; subst; auto.
  - destruct (x =? ch).
    + apply IH in H. cbn. lia.
    + inversion H; subst; auto.
Qed.

Lemma count_indent_len : forall st st' c, count_indent st = (st', c) -> (len st' <= len st)%nat.
Proof.
  intros st st' c H. unfold count_indent in H. destruct (rest st) as [|x r] eqn:E.
  - inversion H; subst. rewrite E. auto.
  - destruct (is_indent_char (curc (x :: r))).
    + destruct (run_same (curc (x :: r)) r (pos st) 1) as [[r' p'] c'] eqn:R.
      inversion H; subst. cbn. apply run_same_len in R. lia.
    + inversion H; subst. rewrite E. auto.
Qed.

Lemma set_indent_type_rest : forall count ch st n st', set_indent_type count ch st = LOk n st' -> rest st' = rest st.
Proof.
  intros count ch st n st' H. unfold set_indent_type in H.
  repeat match type of H with (if ?b then _ else _) = _ => destruct b end; inversion H; subst; reflexivity.
Qed.
Lemma set_indent_type_nofuel : forall count ch st, set_indent_type count ch st <> LFuel.
Proof.
  intros count ch st. unfold set_indent_type.
  repeat match goal with |- (if ?b then _ else _) <> _ => destruct b end; discriminate.
Qed.

Lemma parse_line_spec : forall fuel st, is_break (curc (rest st)) = true -> (len st < fuel)%nat ->
  parse_line fuel st <> LFuel /\ forall u st', parse_line fuel st = LOk u st' -> (len st' < len st)%nat.
Proof.
  induction fuel as [|f IH]; intros st Hb Hf; [lia|].
  assert (Hne : rest st <> []).
  { intro E. rewrite E in Hb. cbn in Hb. discriminate. }
  cbn [parse_line].
  set (st1 := nextc st).
  set (st2 := if is_pair (curc (rest st)) (curc (rest st1)) then nextc st1 else st1).
  assert (L2 : (len st2 < len st)%nat).
  { subst st2 st1. destruct (rest st) as [|x r] eqn:E; [congruence|].
    destruct (is_pair _ _); cbn; rewrite E; cbn; [destruct r; cbn; lia|lia]. }
  destruct (negb (line_text_ok st (pos st))); [split; [discriminate|intros; discriminate]|].
  set (st3 := set_lines st2 (lines st2 ++ [mkLine 0 (pos st2)])).
  destruct (count_indent st3) as [st4 count] eqn:CI.
  apply count_indent_len in CI. change (len st3) with (len st2) in CI.
  destruct (set_indent_type count (curc (rest st2)) st4) as [n st5| | |] eqn:SI;
    try (split; [discriminate|intros; discriminate]).
  2: { exfalso. eapply set_indent_type_nofuel; eauto. }
  apply set_indent_type_rest in SI.
  set (st6 := set_lines st5 (set_last_indent n (lines st5))).
  assert (L6 : (len st6 <= len st2)%nat) by (subst st6; cbn; rewrite SI; lia).
  destruct (is_break (curc (rest st6))) eqn:B6.
  - destruct (IH st6 B6 ltac:(lia)) as [N1 N2]. split; auto.
    intros u st' H. apply N2 in H. lia.
  - split; [discriminate|]. intros u st' H. inversion H; subst. lia.
Qed.

Lemma pre_next_token_spec : forall fuel st, (len st < fuel)%nat ->
  pre_next_token fuel st <> LFuel /\ forall u st', pre_next_token fuel st = LOk u st' -> (len st' <= len st)%nat.
Proof.
  induction fuel as [|f IH]; intros st Hf; [lia|].
  cbn [pre_next_token]. destruct (rest st) as [|x r] eqn:E.
  - split; [discriminate|]. intros u st' H. inversion H; subst. rewrite E. auto.
  - rewrite <- E. destruct (is_ws (curc (rest st))) eqn:W.
    + destruct (skip_ws (rest st) (pos st)) as [r' p'] eqn:S.
      assert (L : (length r' < len st)%nat).
      { rewrite E in S, W |- *. cbn in W. eapply skip_ws_strict; eauto. }
      assert (L' : (length r' < f)%nat) by (rewrite E in L; lia).
      destruct (IH (set_pos_rest st p' r') ltac:(cbn; lia)) as [N1 N2]. split; auto.
      intros u st' H. apply N2 in H. cbn in H. lia.
    + destruct (is_break (curc (rest st))) eqn:B.
      * destruct (parse_line_spec (S (len st)) st B ltac:(lia)) as [N1 N2].
        destruct (parse_line (S (len st)) st) as [u1 st1| | |] eqn:PL; try (split; [discriminate|intros; discriminate]).
        2: congruence.
        specialize (N2 _ _ eq_refl).
        assert (L' : (len st1 < f)%nat) by (rewrite E in N2; lia).
        destruct (IH st1 L') as [M1 M2]. split; auto.
        intros u st' H. apply M2 in H. lia.
      * split; [discriminate|]. intros u st' H. inversion H; subst. auto.
Qed.

Lemma scan_comment_len_aux : forall n r p cty q ls e r' ls', (length r <= n)%nat ->
  scan_comment r p cty q ls = (e, r', ls') -> (length r' <= length r)%nat.
Proof.
  induction n as [|n IH]; intros r p cty q ls e r' ls' Hn H.
  - destruct r; [|cbn in Hn; lia]. cbn in H. inversion H; subst; auto.
  - destruct r as [|c r]; cbn [scan_comment] in H; [inversion H; subst; auto|].
    cbn [length] in Hn.
    destruct (c =? EOFc); [inversion H; subst; auto|].
    destruct (is_break c).
    { destruct (cty =? g_commentTypeSingle); [inversion H; subst; auto|].
      destruct r as [|c2 r2].
      - apply IH in H; [cbn in *; lia|cbn; lia].
      - destruct (is_pair c c2).
        + apply IH in H; [cbn in *; lia|cbn in *; lia].
        + apply IH in H; [cbn in *; lia|cbn in *; lia]. }
    destruct (c =? g_LeftDoubleQuoteI); [apply IH in H; [cbn; lia|lia]|].
    destruct (c =? g_LeftDoubleQuoteII); [apply IH in H; [cbn; lia|lia]|].
    destruct ((c =? g_RightDoubleQuoteI) && (cty =? g_commentTypeQuoteI)).
    { destruct (q - 1 =? 0); [inversion H; subst; cbn; lia|apply IH in H; [cbn; lia|lia]]. }
    destruct ((c =? g_RightDoubleQuoteII) && (cty =? g_commentTypeQuoteII)).
    { destruct (q - 1 =? 0); [inversion H; subst; cbn; lia|apply IH in H; [cbn; lia|lia]]. }
    destruct ((c =? g_MultiplyOp) && (cty =? g_commentTypeSlash) && (curc r =? g_SlashOp)).
    { inversion H; subst. destruct r; cbn; lia. }
    apply IH in H; [cbn; lia|lia].
Qed.

Lemma scan_comment_len : forall r p cty q ls e r' ls', scan_comment r p cty q ls = (e, r', ls') -> (length r' <= length r)%nat.
Proof. intros. eapply scan_comment_len_aux; eauto. Qed.

Lemma skip_digits_p_len : forall r p r' p', skip_digits_p r p = (r', p') -> (length r' <= length r)%nat.
Proof.
  induction r as [|c r IH]; intros p r' p' H; cbn [skip_digits_p] in H.
  - inversion H; subst; auto.
  - destruct (is_pure_number c); [apply IH in H; cbn; lia|inversion H; subst; auto].
Qed.

Lemma tl_len : forall (r : list Z), (length (tl r) <= length r)%nat.
Proof. destruct r; cbn; lia. Qed.

Lemma parse_comment_len : forall st tk st', parse_comment st = Some (tk, st') -> (len st' < len st)%nat /\ t_ty tk = g_TypeComment.
Proof.
  intros st tk st' H. unfold parse_comment in H.
  destruct (curc (rest st) =? g_CharZHU) eqn:Z.
  - assert (Hne : rest st <> []).
    { eapply curc_nonempty; [reflexivity|]. apply Z.eqb_eq in Z. rewrite Z. intro E. pose proof eof_not_zhu. rewrite <- E, Z.eqb_refl in H0. discriminate. }
    destruct (rest st) as [|x r] eqn:E; [congruence|]. cbn [tl] in H.
    destruct (skip_digits_p r (pos st + 1)) as [r1 p1] eqn:SD. apply skip_digits_p_len in SD.
    destruct (curc r1 =? g_Colon) eqn:C; [|discriminate].
    assert (Hne1 : r1 <> []).
    { eapply curc_nonempty; [reflexivity|]. apply Z.eqb_eq in C. rewrite C. intro E1. pose proof eof_not_colon. rewrite <- E1, Z.eqb_refl in H0. discriminate. }
    destruct r1 as [|y r1']; [congruence|]. cbn [tl length] in *.
    repeat match type of H with (if ?b then _ else _) = _ => destruct b end;
      match type of H with context [scan_comment ?a ?b ?c ?d ?e] => destruct (scan_comment a b c d e) as [[e0 r0] l0] eqn:SC end;
      apply scan_comment_len in SC; inversion H; subst; cbn; (split; [|reflexivity]);
      pose proof (tl_len r1'); lia.
  - destruct (curc (rest st) =? g_SlashOp) eqn:S; [|discriminate].
    assert (Hne : rest st <> []).
    { eapply curc_nonempty; [reflexivity|]. apply Z.eqb_eq in S. rewrite S. intro E. pose proof eof_not_slash. rewrite <- E, Z.eqb_refl in H0. discriminate. }
    destruct (rest st) as [|x r] eqn:E; [congruence|]. cbn [tl] in H.
    repeat match type of H with (if ?b then _ else _) = _ => destruct b end; try discriminate;
      match type of H with context [scan_comment ?a ?b ?c ?d ?e] => destruct (scan_comment a b c d e) as [[e0 r0] l0] eqn:SC end;
      apply scan_comment_len in SC; inversion H; subst; cbn; (split; [|reflexivity]);
      pose proof (tl_len r); lia.
Qed.

(* ------------------------------------------------------------------ strings (through the C13 lemma ps_loop_shape) *)
Lemma parse_string_spec : forall st, rest st <> [] ->
  parse_string st <> LFuel /\ forall tk st', parse_string st = LOk tk st' -> (len st' < len st)%nat.
Proof.
  intros st Hne. unfold parse_string.
  pose proof (StringLitProofs.ps_loop_shape (S (len st)) (curc (rest st)) 1 [] [] (pos st) (tl (rest st))) as SH.
  assert (Hl : (length (tl (rest st)) < S (len st))%nat) by (pose proof (tl_len (rest st)); lia).
  specialize (SH Hl).
  destruct (StringLit.ps_loop (S (len st)) (curc (rest st)) 1 [] [] (pos st) (tl (rest st))) as [ty l e starts|c k|];
    cbn [StringLitProofs.shape] in SH.
  - split; [discriminate|]. intros tk st' H. inversion H; subst. cbn [rest].
    destruct SH as (pre & post & E1 & E2 & E3).
    rewrite skipn_length. destruct (rest st) as [|x r]; [congruence|]. cbn [length]. lia.
  - split; [discriminate|]. intros; discriminate.
  - contradiction.
Qed.

(* ------------------------------------------------------------------ the C04 recognisers *)
Definition brs_ok (brs : list (list (Z * Z) * Z * Z)) : bool := forallb (fun b => 1 <=? snd (fst b)) brs.
Definition els_ok (els : option (Z * Z)) : bool := match els with Some (wl, _) => 1 <=? wl | None => true end.
Definition tree_ok (tree : kwtree) : bool :=
  forallb (fun e : Z * list (list (Z * Z) * Z * Z) * option (Z * Z) => brs_ok (snd (fst e)) && els_ok (snd e)) tree.

Lemma eval_chain_wl : forall brs els r wl ty, brs_ok brs = true -> els_ok els = true ->
  eval_chain brs els r = Some (wl, ty) -> 1 <= wl.
Proof.
  induction brs as [|[[conds w] t] brs IH]; intros els r wl ty Hb He H; cbn [eval_chain] in H.
  - subst els. cbn in He. apply Z.leb_le in He. exact He.
  - cbn in Hb. apply andb_true_iff in Hb. destruct Hb as [Hb1 Hb2].
    destruct (conds_hold conds r).
    + inversion H; subst. apply Z.leb_le in Hb1. exact Hb1.
    + eapply IH; eauto.
Qed.

Lemma find_lead_ok : forall tree ch brs els, tree_ok tree = true -> find_lead ch tree = Some (brs, els) ->
  brs_ok brs = true /\ els_ok els = true.
Proof.
  induction tree as [|[[lead b] e] tree IH]; intros ch brs els Ht H; cbn [find_lead] in H; [discriminate|].
  cbn in Ht. apply andb_true_iff in Ht. destruct Ht as [Ht1 Ht2].
  destruct (ch =? lead).
  - inversion H; subst. apply andb_true_iff in Ht1. exact Ht1.
  - eapply IH; eauto.
Qed.

Lemma gkw_tree_ok : tree_ok g_kw_tree = true. Proof. vm_compute. reflexivity. Qed.

Lemma gkw_wl : forall r wl ty, gkw r = Some (wl, ty) -> 1 <= wl.
Proof.
  intros r wl ty H. unfold gkw, parse_keyword in H.
  destruct (find_lead (cur r) g_kw_tree) as [[brs els]|] eqn:F; [|discriminate].
  destruct (find_lead_ok _ _ _ _ gkw_tree_ok F) as [A B].
  destruct (eval_chain brs els r) as [[w t]|] eqn:EC; [|discriminate].
  destruct (t =? 0); [discriminate|]. inversion H; subst. eapply eval_chain_wl; eauto.
Qed.

Definition tres_ok (n : nat) (t : tres) : Prop :=
  match t with
  | TTok _ _ _ _ r' => (length r' < n)%nat
  | TErr _ => True
  | _ => False
  end.

Lemma ident_loop_ok : forall r start p l, tres_ok (S (length r)) (ident_loop gkw start r p l).
Proof.
  induction r as [|c r IH]; intros start p l.
  - cbn [ident_loop]. destruct (ident_stop gkw []).
    + unfold ident_finish. destruct (hd 0 l =? g_SlashOp); cbn; lia.
    + rewrite eof_not_idbody. exact I.
  - cbn [ident_loop]. destruct (ident_stop gkw (c :: r)).
    + unfold ident_finish. destruct (hd 0 l =? g_SlashOp); cbn; lia.
    + destruct (is_id_body c); [|exact I].
      specialize (IH start (p + 1) (c :: l)). destruct (ident_loop gkw start r (p + 1) (c :: l)); cbn in *; auto; lia.
Qed.

Lemma varquote_loop_ok : forall r start p l, tres_ok (S (length r)) (varquote_loop start r p l).
Proof.
  induction r as [|c r IH]; intros start p l; cbn [varquote_loop].
  - rewrite eof_not_idbody. exact I.
  - destruct (is_id_body c).
    + specialize (IH start (p + 1) (c :: l)). destruct (varquote_loop start r (p + 1) (c :: l)); cbn in *; auto; lia.
    + destruct (c =? g_BackTick); cbn; auto; lia.
Qed.

Lemma generic_token_ok : forall r p, r <> [] -> tres_ok (length r) (generic_token gkw r p).
Proof.
  intros r p Hne. destruct r as [|x r]; [congruence|]. unfold generic_token.
  destruct (mem (cur (x :: r)) g_markPunctuations).
  { unfold parse_punct. destruct (assoc (cur (x :: r)) g_punctuationTypeMap); cbn; auto; lia. }
  assert (OP : match (if mem (cur (x :: r)) g_markOperators then parse_operators (x :: r) p else None) with
               | Some t => tres_ok (length (x :: r)) t | None => True end).
  { destruct (mem (cur (x :: r)) g_markOperators); [|exact I]. unfold parse_operators. cbv zeta.
    repeat match goal with |- match (if ?b then _ else _) with _ => _ end => destruct b end;
      cbn [tres_ok tl length]; auto; try lia; destruct r; cbn; lia. }
  destruct (if mem (cur (x :: r)) g_markOperators then parse_operators (x :: r) p else None) as [t|]; [exact OP|].
  destruct (gkw (x :: r)) as [[wl ty]|] eqn:K.
  - apply gkw_wl in K. cbn [tres_ok]. rewrite skipn_length. cbn [length]. lia.
  - unfold parse_identifier. destruct (negb (is_id_char (cur (x :: r)))); [exact I|].
    cbn [tl]. pose proof (ident_loop_ok r p (p + 1) [cur (x :: r)]) as IL.
    destruct (ident_loop gkw p r (p + 1) [cur (x :: r)]); cbn in *; auto.
Qed.

Lemma conv_spec : forall t st n, tres_ok n t -> (n <= len st)%nat ->
  conv t st <> LFuel /\ forall tk st', conv t st = LOk tk st' -> (len st' < len st)%nat.
Proof.
  intros t st n H Hn. destruct t; cbn [tres_ok] in H; try contradiction; cbn [conv].
  - split; [discriminate|]. intros tk st' E. inversion E; subst. cbn. lia.
  - split; [discriminate|]. intros; discriminate.
Qed.

(* ------------------------------------------------------------------ NextToken *)
Definition tok_progress (l : lstate) (tk : token) (l' : lstate) : Prop :=
  (len l' <= len l)%nat /\ (t_ty tk = g_TypeEOF \/ (len l' < len l)%nat).

Lemma parse_eof_spec : forall st, parse_eof st <> LFuel /\ forall tk st', parse_eof st = LOk tk st' -> tok_progress st tk st'.
Proof.
  intro st. unfold parse_eof. destruct (line_text_ok st (pos st)); split; try discriminate.
  intros tk st' H. inversion H; subst. split; auto.
Qed.

Lemma next_token_spec : forall st0,
  next_token st0 <> LFuel /\ forall tk st', next_token st0 = LOk tk st' -> tok_progress st0 tk st'.
Proof.
  intro st0. unfold next_token.
  destruct (pre_next_token_spec (S (len st0)) st0 ltac:(lia)) as [N1 N2].
  destruct (pre_next_token (S (len st0)) st0) as [u st| | |] eqn:PN; try (split; [discriminate|intros; discriminate]).
  2: congruence.
  specialize (N2 _ _ eq_refl).
  assert (W : forall (r : lres token),
             (r <> LFuel /\ forall tk st', r = LOk tk st' -> (len st' < len st)%nat) ->
             (r <> LFuel /\ forall tk st', r = LOk tk st' -> tok_progress st0 tk st')).
  { intros r [A B]. split; auto. intros tk st' E. apply B in E. split; [lia|right; lia]. }
  assert (WE : parse_eof st <> LFuel /\ forall tk st', parse_eof st = LOk tk st' -> tok_progress st0 tk st').
  { destruct (parse_eof_spec st) as [A B]. split; auto. intros tk st' E. apply B in E. destruct E as [E1 E2].
    split; [lia|]. destruct E2; [left; auto|right; lia]. }
  destruct (rest st) as [|x r] eqn:E; [exact WE|]. rewrite <- E. rewrite <- E in N2, W.
  assert (Hne : rest st <> []) by (rewrite E; discriminate).
  destruct (curc (rest st) =? EOFc); [exact WE|].
  assert (G : conv (generic_token gkw (rest st) (pos st)) st <> LFuel /\
              forall tk st', conv (generic_token gkw (rest st) (pos st)) st = LOk tk st' -> (len st' < len st)%nat).
  { eapply conv_spec; [apply generic_token_ok; auto|apply Nat.le_refl]. }
  destruct ((curc (rest st) =? g_CharZHU) || (curc (rest st) =? g_SlashOp)).
  { destruct (parse_comment st) as [[tk st1]|] eqn:PC.
    - apply parse_comment_len in PC. destruct PC as [PC _]. split; [discriminate|].
      intros tk0 st' H. inversion H; subst. split; [lia|right; lia].
    - apply W. exact G. }
  destruct (mem (curc (rest st)) left_quotes).
  { apply W. apply parse_string_spec. auto. }
  destruct (curc (rest st) =? g_BackTick).
  { apply W. eapply conv_spec; [apply varquote_loop_ok|]. pose proof (tl_len (rest st)).
    rewrite E. cbn. lia. }
  apply W. exact G.
Qed.

