(* SemRefine.v — the return-slot / signal mechanism of model/Sem.v implements the structured outcome
   semantics of spec/StmtSpec.v (property C02), for any nesting depth, for every expression evaluator that
   keeps the control state balanced. *)
From Coq Require Import List ZArith Bool Lia.
From Zn.lib Require Import Float64.
From Zn.model Require Import SemDefs Sem.
From Zn.spec Require Import StmtSpec.
From Zn.proofs Require Import SemBase SemStmt SemCalls.
Import ListNotations.
Open Scope Z_scope.

(* mechanism result [r] realises structured outcome [o] *)
Definition rel (r : res val) (o : ores) : Prop :=
  match o with
  | OR (ONormal v) s => r = Ok v s /\ top_ret s = None
  | OR (OReturn v) s => (exists v', r = Ok v' (set_ret s (Some v))) /\ top_ret s = None
  | OR OBreak s => r = Er EBreak s /\ top_ret s = None
  | OR OContinue s => r = Er EContinue s /\ top_ret s = None
  | OR (ORaise e) s => r = Er e s /\ no_sig e
  | OFuel => r = Fuel
  | OCrash w => r = Crash w
  end.

(* for blocks the value handed back on Return is the 输出 value itself *)
Definition rel_b (r : res val) (o : ores) : Prop :=
  match o with
  | OR (OReturn v) s => r = Ok v (set_ret s (Some v)) /\ top_ret s = None
  | _ => rel r o
  end.

Lemma rel_b_rel r o : rel_b r o -> rel r o.
Proof. destruct o as [[v|v| | |e] s| |w]; cbn; try tauto. intros [H1 H2]. split; [eauto|exact H2]. Qed.

(* ---- small facts about the slot ---- *)
Lemma top_ret_begin s : top_ret (begin_scope s) = top_ret s. Proof. reflexivity. Qed.
Lemma top_ret_end s : top_ret (end_scope s) = top_ret s. Proof. reflexivity. Qed.
Lemma top_ret_set_line s l : top_ret (set_line s l) = top_ret s.
Proof. unfold top_ret, set_line. destruct (stack s) eqn:E; [rewrite E; reflexivity|reflexivity]. Qed.
Lemma top_ret_set_ret s r : stack s <> [] -> top_ret (set_ret s r) = r.
Proof. unfold top_ret, set_ret. destruct (stack s) eqn:E; [congruence|reflexivity]. Qed.
Lemma end_scope_set_ret s r : end_scope (set_ret s r) = set_ret (end_scope s) r.
Proof. unfold end_scope, set_ret. cbn. destruct (stack s) eqn:E; reflexivity. Qed.
Lemma stack_set_ret_ne s r : stack (set_ret s r) <> [] -> stack s <> [].
Proof. unfold set_ret. destruct (stack s) eqn:E; [rewrite E; congruence|congruence]. Qed.
Lemma top_ret_of_stack a b : stack a = stack b -> top_ret a = top_ret b.
Proof. unfold top_ret. intros ->. reflexivity. Qed.

Section Refine.
  Variable ev : state -> expr -> res val.
  Hypothesis Hev : forall st e, bal_e st (ev st e).

  (* expression-level steps keep the slot; their errors are never loop signals *)
  Lemma e_ok_ret {A} st (r : res A) a s1 : wf st -> bal_e st r -> r = Ok a s1 -> top_ret s1 = top_ret st /\ wf s1.
  Proof.
    intros W H ->. specialize (H W). destruct H as (Hs & _ & _ & Hw). split; [apply top_ret_of_stack; exact Hs|exact Hw].
  Qed.
  Lemma e_er_nosig {A} st (r : res A) e s1 : wf st -> bal_e st r -> r = Er e s1 -> no_sig e.
  Proof. intros W H ->. specialize (H W). apply H. Qed.

  Lemma s_ok_wf st (r : res val) v s1 : wf st -> bal_s st r -> r = Ok v s1 -> wf s1.
  Proof. intros W H ->. specialize (H W). apply H. Qed.
  Lemma s_er_sig_wf st (r : res val) e s1 : wf st -> bal_s st r -> r = Er e s1 -> ~ no_sig e -> wf s1.
  Proof. intros W H -> Hn. specialize (H W). destruct H as [_ H]. apply (R_wf_ok_s _ _ (H Hn)). Qed.

  (* rel through an expression-level bind *)
  Lemma rel_ebind {A} st (r : res A) (km : A -> state -> res val) (ko : A -> state -> ores) :
    wf st -> top_ret st = None -> bal_e st r ->
    (forall a s, wf s -> top_ret s = None -> rel (km a s) (ko a s)) ->
    rel (bind r km) (ebind r ko).
  Proof.
    intros W T H Hk. destruct r as [a s|e s| |w] eqn:E; cbn [bind ebind]; try reflexivity.
    - destruct (e_ok_ret st _ a s W H eq_refl) as [Ht Hw]. apply Hk; [exact Hw|congruence].
    - split; [reflexivity|]. exact (e_er_nosig st _ e s W H eq_refl).
  Qed.

  Lemma rel_lift st (r : res val) : wf st -> top_ret st = None -> bal_e st r -> rel r (lift r (fun v => v)).
  Proof.
    intros W T H. destruct r as [a s|e s| |w] eqn:E; cbn; try reflexivity.
    - destruct (e_ok_ret st _ a s W H eq_refl) as [Ht Hw]. split; [reflexivity|congruence].
    - split; [reflexivity|]. exact (e_er_nosig st _ e s W H eq_refl).
  Qed.

  (* a pass of a loop body, mechanism vs outcome *)
  Lemma rel_after_pass s1 (r : res val) (o : ores) :
    wf s1 -> bal_s s1 r -> rel r o ->
    match o with
    | OR (ONormal _) s2 | OR OContinue s2 => after_pass r = (None, Some s2) /\ wf s2 /\ top_ret s2 = None
    | OR OBreak s2 => after_pass r = (Some (Ok VNull s2), None) /\ top_ret s2 = None
    | OR (OReturn v) s2 => after_pass r = (Some (Ok VNull (set_ret s2 (Some v))), None) /\ top_ret s2 = None
    | OR (ORaise e) s2 => after_pass r = (Some (Er e s2), None) /\ no_sig e
    | OFuel => after_pass r = (Some Fuel, None)
    | OCrash w => after_pass r = (Some (Crash w), None)
    end.
  Proof.
    intros W Hb Hr. destruct o as [[v|v| | |e] s2| |w]; cbn [rel] in Hr.
    - destruct Hr as [-> T]. cbn [after_pass]. rewrite T.
      split; [reflexivity|split; [exact (s_ok_wf s1 _ v s2 W Hb eq_refl)|first [exact T|reflexivity]]].
    - destruct Hr as [[v' ->] T]. cbn [after_pass].
      pose proof (s_ok_wf s1 _ v' _ W Hb eq_refl) as Hw.
      rewrite top_ret_set_ret by (apply stack_set_ret_ne with (r := Some v); apply Hw). split; [reflexivity|exact T].
    - destruct Hr as [-> T]. cbn. split; [reflexivity|exact T].
    - destruct Hr as [-> T]. cbn. split; [reflexivity|split; [|exact T]].
      apply (s_er_sig_wf s1 _ EContinue s2 W Hb eq_refl). discriminate.
    - destruct Hr as [-> Hn]. cbn [after_pass]. unfold no_sig in Hn. rewrite Hn. split; [reflexivity|exact Hn].
    - subst r. reflexivity.
    - subst r. reflexivity.
  Qed.

  Lemma rel_while (body : state -> res val) (obody : state -> ores) c l :
    (forall s, bal_s s (body s)) ->
    (forall s, wf s -> top_ret s = None -> rel (body s) (obody s)) ->
    forall j st, wf st -> top_ret st = None -> rel (while_loop ev body c l j st) (o_while ev obody c l j st).
  Proof.
    intros Hbal Hb. induction j as [|j IH]; intros st W0 T0; cbn [while_loop o_while]; [reflexivity|].
    assert (W : wf (set_line st l)) by (apply (R_wf_ok_s st), R_ok_s_set_line; exact W0).
    assert (T : top_ret (set_line st l) = None) by (rewrite top_ret_set_line; exact T0).
    apply (rel_ebind (set_line st l)); [exact W|exact T|apply Hev|]. intros cv s1 W1 T1.
    destruct cv; try (split; reflexivity). destruct b; [|split; [reflexivity|exact T1]].
    pose proof (rel_after_pass s1 (body s1) (obody s1) W1 (Hbal s1) (Hb s1 W1 T1)) as H.
    destruct (obody s1) as [[v|v| | |e] s2| |w].
    - destruct H as (-> & W2 & T2). apply IH; assumption.
    - destruct H as [-> T2]. cbn. split; [eauto|exact T2].
    - destruct H as [-> T2]. cbn. split; [reflexivity|exact T2].
    - destruct H as (-> & W2 & T2). apply IH; assumption.
    - destruct H as [-> Hn]. cbn. split; [reflexivity|exact Hn].
    - rewrite H. reflexivity.
    - rewrite H. reflexivity.
  Qed.

  Lemma rel_iter (body : state -> res val) (obody : state -> ores) names :
    (forall s, bal_s s (body s)) ->
    (forall s, wf s -> top_ret s = None -> rel (body s) (obody s)) ->
    forall items st, wf st -> top_ret st = None -> rel (iter_items body names items st) (o_iter obody names items st).
  Proof.
    intros Hbal Hb. induction items as [|[key item] tl IH]; intros st W T; cbn [iter_items o_iter].
    - split; [reflexivity|exact T].
    - set (r := let! (_, sa) := bind_loop_vars names key item st in body sa).
      set (o := ebind (bind_loop_vars names key item st) (fun _ sa => obody sa)).
      assert (Hr : rel r o).
      { apply (rel_ebind st); [exact W|exact T|apply bal_bind_loop_vars|]. intros _ sa Wa Ta. apply Hb; assumption. }
      assert (Hbl : bal_s st r).
      { apply bal_s_bind_e; [apply bal_bind_loop_vars|]. intros _ sa _. apply Hbal. }
      pose proof (rel_after_pass st r o W Hbl Hr) as H.
      destruct o as [[v|v| | |e] s2| |w].
      + destruct H as (-> & W2 & T2). apply IH; assumption.
      + destruct H as [-> T2]. cbn. split; [eauto|exact T2].
      + destruct H as [-> T2]. cbn. split; [reflexivity|exact T2].
      + destruct H as (-> & W2 & T2). apply IH; assumption.
      + destruct H as [-> Hn]. cbn. split; [reflexivity|exact Hn].
      + rewrite H. reflexivity.
      + rewrite H. reflexivity.
  Qed.

  (* "run this block, then the statement's value is 空" *)
  Lemma rel_then_null st0 (r : res val) (o : ores) :
    wf st0 -> bal_s st0 r -> rel_b r o ->
    rel (let! (_, s2) := r in Ok VNull s2) (oseq o (fun _ s => OR (ONormal VNull) s)).
  Proof.
    intros W Hbl Hr. destruct o as [[v|v| | |e] s2| |w]; cbn [rel_b rel] in Hr; cbn [oseq].
    - destruct Hr as [-> T]. cbn. split; [reflexivity|exact T].
    - destruct Hr as [-> T]. cbn. split; [eauto|exact T].
    - destruct Hr as [-> T]. cbn. split; [reflexivity|exact T].
    - destruct Hr as [-> T]. cbn. split; [reflexivity|exact T].
    - destruct Hr as [-> T]. cbn. split; [reflexivity|exact T].
    - subst r. reflexivity.
    - subst r. reflexivity.
  Qed.

  Lemma rel_others (blk : block -> state -> res val) (oblk : block -> state -> ores) :
    (forall b s, bal_s s (blk b s)) ->
    (forall b s, wf s -> top_ret s = None -> rel_b (blk b s) (oblk b s)) ->
    forall others els st, wf st -> top_ret st = None ->
      rel (branch_others ev blk others els st) (o_others ev oblk others els st).
  Proof.
    intros Hbal Hb. induction others as [|[ce b] tl IH]; intros els st W T; cbn [branch_others o_others].
    - destruct els as [b|]; [|split; [reflexivity|exact T]].
      apply (rel_then_null st); [exact W|apply Hbal|apply Hb; assumption].
    - apply (rel_ebind st); [exact W|exact T|apply Hev|]. intros cv s1 W1 T1.
      destruct cv; try (split; reflexivity). destruct b0.
      + apply (rel_then_null s1); [exact W1|apply Hbal|apply Hb; assumption].
      + apply IH; assumption.
  Qed.

  Lemma rel_block_go (exec : state -> stmt -> res val) (oexec : state -> stmt -> ores) :
    (forall st s, bal_s st (exec st s)) ->
    (forall st s, wf st -> top_ret st = None -> rel (exec st s) (oexec st s)) ->
    forall b st last, wf st -> top_ret st = None ->
      rel_b (block_go exec b st last) (o_block_go oexec b st last).
  Proof.
    intros Hbal He. induction b as [|[line s] tl IH]; intros st last W T; cbn [block_go o_block_go].
    - cbn. split; [reflexivity|exact T].
    - destruct (is_def s).
      + rewrite T. apply IH; assumption.
      + assert (Wl : wf (set_line st line)) by (apply (R_wf_ok_s st), R_ok_s_set_line; exact W).
        assert (Tl : top_ret (set_line st line) = None) by (rewrite top_ret_set_line; exact T).
        pose proof (He (set_line st line) s Wl Tl) as Hr.
        pose proof (Hbal (set_line st line) s) as Hb.
        destruct (oexec (set_line st line) s) as [[v|v| | |e] s2| |w]; cbn [rel] in Hr; cbn [oseq].
        * destruct Hr as [Hr T2]. rewrite Hr. cbn [bind]. rewrite T2. apply IH; [|exact T2].
          exact (s_ok_wf _ _ v s2 Wl Hb Hr).
        * destruct Hr as [[v' Hr] T2]. rewrite Hr. cbn [bind].
          pose proof (s_ok_wf _ _ v' _ Wl Hb Hr) as Hw.
          rewrite top_ret_set_ret by (apply stack_set_ret_ne with (r := Some v); apply Hw).
          cbn. split; [reflexivity|exact T2].
        * destruct Hr as [-> T2]. cbn. split; [reflexivity|exact T2].
        * destruct Hr as [-> T2]. cbn. split; [reflexivity|exact T2].
        * destruct Hr as [-> T2]. cbn. split; [reflexivity|exact T2].
        * rewrite Hr. reflexivity.
        * rewrite Hr. reflexivity.
  Qed.

  Lemma rel_scoped (r : res val) (o : ores) : rel_b r o -> rel_b (scoped r) (o_scoped o).
  Proof.
    destruct o as [[v|v| | |e] s2| |w]; cbn [rel_b rel o_scoped].
    - intros [-> T]. cbn. split; [reflexivity|exact T].
    - intros [-> T]. cbn [scoped]. rewrite end_scope_set_ret. split; [reflexivity|exact T].
    - intros [-> T]. cbn. split; [reflexivity|exact T].
    - intros [-> T]. cbn. split; [reflexivity|exact T].
    - intros [-> T]. cbn. split; [reflexivity|exact T].
    - intros ->. reflexivity.
    - intros ->. reflexivity.
  Qed.

  Lemma rel_scoped_s (r : res val) (o : ores) : rel r o -> rel (scoped r) (o_scoped o).
  Proof.
    destruct o as [[v|v| | |e] s2| |w]; cbn [rel o_scoped].
    - intros [-> T]. cbn. split; [reflexivity|exact T].
    - intros [[v' ->] T]. cbn [scoped]. rewrite end_scope_set_ret. split; [eauto|exact T].
    - intros [-> T]. cbn. split; [reflexivity|exact T].
    - intros [-> T]. cbn. split; [reflexivity|exact T].
    - intros [-> T]. cbn. split; [reflexivity|exact T].
    - intros ->. reflexivity.
    - intros ->. reflexivity.
  Qed.

  (* the refinement, by induction on the fuel *)
  Theorem exec_refines_outcomes : forall k,
    (forall st s, wf st -> top_ret st = None -> rel (exec_stmt ev k st s) (o_stmt ev k st s)) /\
    (forall st b, wf st -> top_ret st = None -> rel_b (exec_block ev k st b) (o_block ev k st b)).
  Proof.
    induction k as [|k [IHs IHb]]; [split; intros; reflexivity|].
    pose proof (bal_stmt_block ev Hev k) as [Bs Bb].
    assert (Bblk : forall st b, bal_s st (exec_block ev k st b)) by (intros; apply bal_b_s, Bb).
    split.
    - intros st s W T. cbn [exec_stmt o_stmt]. destruct s.
      + apply (rel_lift st); [exact W|exact T|apply bal_decl_pairs; exact Hev].
      + apply rel_while; try assumption.
        * intros s1. apply Bblk.
        * intros s1 W1 T1. apply rel_b_rel, IHb; assumption.
      + apply (rel_ebind st); [exact W|exact T|apply Hev|]. intros cv s1 W1 T1.
        destruct cv; try (split; reflexivity). destruct b.
        * apply (rel_then_null s1); [exact W1|apply Bblk|apply IHb; assumption].
        * apply rel_others; try assumption.
          -- intros b s. apply Bblk.
          -- intros b s Ws Ts. apply IHb; assumption.
      + (* 遍历 *)
        apply rel_scoped_s.
        assert (W0 : wf (begin_scope st)) by (apply wf_begin_scope; exact W).
        apply (rel_ebind (begin_scope st)); [exact W0|exact T|apply Hev|]. intros target s1 W1 T1.
        apply (rel_ebind s1); [exact W1|exact T1|apply bal_declare_loop_vars|]. intros _ s2 W2 T2.
        destruct (is_collection target); [|split; reflexivity].
        destruct (iter_pairs s2 target); [|reflexivity].
        apply rel_iter; try assumption.
        * intros sa. apply Bblk.
        * intros sa Wa Ta. apply rel_b_rel, IHb; assumption.
      + apply (rel_ebind st); [exact W|exact T|apply Hev|]. intros v s1 W1 T1. cbn. split; [eauto|exact T1].
      + cbn. split; [reflexivity|exact T].
      + cbn. split; [reflexivity|exact T].
      + apply (rel_ebind st); [exact W|exact T|apply pres_bal_e, pres_vm_find|]. intros cv s1 W1 T1.
        destruct cv; try (split; reflexivity).
        pose proof (Hev s1 (ENew cls args)) as He.
        destruct (ev s1 (ENew cls args)) as [obj s2|e s2| |w] eqn:E; cbn [bind ebind]; try reflexivity.
        * split; reflexivity.
        * split; [reflexivity|]. exact (e_er_nosig s1 _ e s2 W1 He eq_refl).
      + apply (rel_lift st); [exact W|exact T|apply Hev].
      + cbn. split; [reflexivity|exact T].
      + cbn. split; [reflexivity|exact T].
      + cbn. split; [reflexivity|exact T].
      + cbn. split; [reflexivity|exact T].
    - intros st b W T. cbn [exec_block o_block]. apply rel_scoped.
      apply rel_block_go; try assumption.
      + apply wf_begin_scope; exact W.
  Qed.
End Refine.
