(* C05 - the parser model terminates: with fuel linear in the length of the source no production runs out of fuel.
   Progress lemma: every production either raises or does not increase the measure [mu] (characters not yet lexed,
   plus one while the peek token is not the end-of-text token); the consumers of parseItemListBlock strictly decrease it
   on every iteration. *)
From Coq Require Import List ZArith Bool Lia.
Import ListNotations.
From Zn.gen Require Import GenFrontTokens.
From Zn.model Require Import LexerTok Lexer Ast Parser.
From Zn.proofs Require Import FrontLexProofs FrontCompleteProofs.
Open Scope Z_scope.

Lemma type_comment_not_eof : (g_TypeComment =? g_TypeEOF) = false. Proof. reflexivity. Qed.

Lemma lex_skip_comments_spec : forall fuel l, (len l < fuel)%nat ->
  lex_skip_comments fuel l <> LFuel /\ forall tk l', lex_skip_comments fuel l = LOk tk l' -> tok_progress l tk l'.
Proof.
  induction fuel as [|f IH]; intros l Hf; [lia|].
  cbn [lex_skip_comments]. destruct (next_token_spec l) as [N1 N2].
  destruct (next_token l) as [tk l1| | |] eqn:NT; try (split; [discriminate|intros; discriminate]).
  2: congruence.
  specialize (N2 _ _ eq_refl). destruct N2 as [P1 P2].
  destruct (t_ty tk =? g_TypeComment) eqn:C.
  - apply Z.eqb_eq in C. destruct P2 as [P2|P2].
    { rewrite C in P2. pose proof type_comment_not_eof. rewrite P2, Z.eqb_refl in H. discriminate. }
    destruct (IH l1 ltac:(lia)) as [M1 M2]. split; auto.
    intros tk0 l' H. apply M2 in H. destruct H as [H1 H2]. split; [lia|]. destruct H2; [left; auto|right; lia].
  - split; [discriminate|]. intros tk0 l' H. inversion H; subst. split; auto.
Qed.

(* ------------------------------------------------------------------ the measure *)
Definition mu (st : pstate) : nat :=
  (length (rest (lx st)) + (if (peek_ty st =? g_TypeEOF)%Z then 0 else 1))%nat.

Definition good {A} (m0 : nat) (strict : bool) (r : res A) : Prop :=
  r <> Fuel /\ forall x st', r = Ok x st' -> (mu st' <= m0)%nat /\ (strict = true -> (mu st' < m0)%nat).

Lemma good_ret : forall A (a : A) st m0 b, (mu st <= m0)%nat -> (b = true -> (mu st < m0)%nat) -> good m0 b (ret a st).
Proof. intros. split; [discriminate|]. intros x st' H1. inversion H1; subst. auto. Qed.
Lemma good_ok : forall A (a : A) st m0 b, (mu st <= m0)%nat -> (b = true -> (mu st < m0)%nat) -> good m0 b (Ok a st).
Proof. intros. split; [discriminate|]. intros x st' H1. inversion H1; subst. auto. Qed.
Lemma good_err : forall A m0 b c k, good m0 b (@Err A c k).
Proof. intros. split; [discriminate|]. intros; discriminate. Qed.
Lemma good_fail_peek : forall A m0 b c st, good m0 b (@fail_peek A c st).
Proof. intros. apply good_err. Qed.
Lemma good_fail_curr : forall A m0 b c st, good m0 b (@fail_curr A c st).
Proof. intros. apply good_err. Qed.
Lemma good_bind : forall A B (m : M A) (k : A -> M B) st m0 b,
  m st <> Fuel -> (forall a s, m st = Ok a s -> good m0 b (k a s)) -> good m0 b (bind m k st).
Proof.
  intros A B m k st m0 b NF K. unfold bind. destruct (m st) as [a s| | |] eqn:E.
  - apply K. reflexivity.
  - apply good_err.
  - split; [discriminate|intros; discriminate].
  - congruence.
Qed.
Lemma good_bind2 : forall A B (m : M A) (k : A -> M B) st m1 b1 m0 b,
  good m1 b1 (m st) -> (forall a s, (mu s <= m1)%nat -> good m0 b (k a s)) -> good m0 b (bind m k st).
Proof.
  intros A B m k st m1 b1 m0 b [NF G] K. apply good_bind; auto.
  intros a s E. apply K. apply G in E. lia.
Qed.
Lemma bind_assoc : forall A B C (m : M A) (g : A -> M B) (k : B -> M C) st,
  bind (bind m g) k st = bind m (fun x => bind (g x) k) st.
Proof. intros. unfold bind. destruct (m st); reflexivity. Qed.
Lemma bind_ret : forall A B (a : A) (k : A -> M B) st, bind (ret a) k st = k a st.
Proof. reflexivity. Qed.
Lemma good_weaken : forall A (r : res A) m1 b1 m0 b, good m1 b1 r -> (m1 <= m0)%nat ->
  (b = true -> b1 = true \/ (m1 < m0)%nat) -> good m0 b r.
Proof.
  intros A r m1 b1 m0 b [NF G] L S. split; auto. intros x st' E. destruct (G _ _ E) as [G1 G2]. split; [lia|].
  intro Hb. destruct (S Hb) as [S1|S1]; [specialize (G2 S1); lia|lia].
Qed.

(* ------------------------------------------------------------------ primitives *)
Lemma set_flag_spec : forall b st, set_flag b st <> Fuel /\ forall u s, set_flag b st = Ok u s -> mu s = mu st.
Proof. intros. split; [discriminate|]. intros u s H. inversion H; subst. reflexivity. Qed.
Lemma set_bind_spec : forall i st, set_bind i st <> Fuel /\ forall u s, set_bind i st = Ok u s -> mu s = mu st.
Proof. intros. split; [discriminate|]. intros u s H. inversion H; subst. reflexivity. Qed.
Lemma get_bind_spec : forall st, get_bind st <> Fuel /\ forall u s, get_bind st = Ok u s -> mu s = mu st.
Proof. intros. split; [discriminate|]. intros u s H. inversion H; subst. reflexivity. Qed.
Lemma expect_spec : forall i st, expect_block_indent i st <> Fuel /\ forall u s, expect_block_indent i st = Ok u s -> mu s = mu st.
Proof.
  intros. unfold expect_block_indent. destruct (peek_indent st =? i + 1); (split; [discriminate|]); intros u s H; inversion H; subst; reflexivity.
Qed.
Lemma require_spec : forall st, require_stmt_done st <> Fuel /\ forall u s, require_stmt_done st = Ok u s -> mu s = mu st.
Proof.
  intros. unfold require_stmt_done. destruct (stmt_done st); (split; [discriminate|]); intros u s H; inversion H; subst; reflexivity.
Qed.

Lemma p_next_spec : forall st,
  p_next st <> Fuel /\ forall u s, p_next st = Ok u s -> (mu s <= length (rest (lx st)))%nat.
Proof.
  intro st. unfold p_next.
  destruct (lex_skip_comments_spec (S (len (lx st))) (lx st) ltac:(lia)) as [N1 N2].
  destruct (lex_skip_comments (S (len (lx st))) (lx st)) as [tk l'| | |] eqn:E;
    try (split; [discriminate|intros; discriminate]).
  2: congruence.
  destruct (N2 _ _ eq_refl) as [P1 P2].
  assert (G : forall fl, (mu (mkP l' (p2 st) (Some tk) (sl2 st) (el2 st)
                         (find_line_idx (lines l') (t_s tk) (sl2 st)) (find_line_idx (lines l') (t_e tk) (el2 st)) fl (bind_ st))
                     <= len (lx st))%nat).
  { intro fl. unfold mu, peek_ty. cbn [lx p2 tok_ty]. destruct (t_ty tk =? g_TypeEOF) eqn:T.
    - lia.
    - destruct P2 as [P2|P2]; [rewrite P2, Z.eqb_refl in T; discriminate|lia]. }
  destruct (meet_line_break _); (split; [discriminate|]); intros u s H; inversion H; subst; apply G.
Qed.

Lemma try_tail_spec : forall valid st, mem g_TypeEOF valid = false ->
  try_tail valid st <> Fuel /\
  forall o s, try_tail valid st = Ok o s -> match o with Some _ => (mu s < mu st)%nat | None => mu s = mu st end.
Proof.
  intros valid st HV. unfold try_tail. destruct (p2 st) as [tk|] eqn:P; [|split; [discriminate|intros; discriminate]].
  destruct (flag st); [split; [discriminate|intros o s H; inversion H; subst; reflexivity]|].
  destruct (mem (t_ty tk) valid) eqn:MV.
  - destruct (p_next_spec st) as [N1 N2]. unfold bind. destruct (p_next st) as [u s1| | |] eqn:E;
      try (split; [discriminate|intros; discriminate]).
    2: congruence.
    specialize (N2 _ _ eq_refl). split; [discriminate|]. intros o s H. unfold ret in H. inversion H; subst.
    unfold mu at 2. unfold peek_ty. rewrite P. cbn [tok_ty].
    destruct (t_ty tk =? g_TypeEOF) eqn:T; [|lia].
    apply Z.eqb_eq in T. rewrite T in MV. congruence.
  - split; [discriminate|]. intros o s H. inversion H; subst. reflexivity.
Qed.

Lemma comma_not_eof : (g_TypeCommaSep =? g_TypeEOF) = false. Proof. reflexivity. Qed.

Lemma tc_spec : forall valid st, mem g_TypeEOF valid = false ->
  tc valid st <> Fuel /\
  forall o s, tc valid st = Ok o s -> match o with Some _ => (mu s < mu st)%nat | None => (mu s <= mu st)%nat end.
Proof.
  intros valid st HV. unfold tc. destruct (p2 st) as [tk|] eqn:P; [|split; [discriminate|intros; discriminate]].
  destruct (t_ty tk =? g_TypeCommaSep) eqn:C.
  - destruct (p_next_spec st) as [N1 N2]. unfold bind. destruct (p_next st) as [u s1| | |] eqn:E;
      try (split; [discriminate|intros; discriminate]).
    2: congruence.
    specialize (N2 _ _ eq_refl).
    assert (L : (mu s1 < mu st)%nat).
    { unfold mu at 2. unfold peek_ty. rewrite P. cbn [tok_ty]. apply Z.eqb_eq in C. rewrite C, comma_not_eof. lia. }
    destruct (try_tail_spec valid s1 HV) as [T1 T2]. split; auto.
    intros o s H. apply T2 in H. destruct o; lia.
  - destruct (try_tail_spec valid st HV) as [T1 T2]. split; auto.
    intros o s H. apply T2 in H. destruct o; lia.
Qed.

Lemma consume_spec : forall valid st, mem g_TypeEOF valid = false ->
  consume valid st <> Fuel /\ forall u s, consume valid st = Ok u s -> (mu s < mu st)%nat.
Proof.
  intros valid st HV. unfold consume, bind. destruct (tc_spec valid st HV) as [N1 N2].
  destruct (tc valid st) as [o s1| | |] eqn:E; try (split; [discriminate|intros; discriminate]).
  2: congruence.
  specialize (N2 _ _ eq_refl). destruct o.
  - split; [discriminate|]. intros u s H. inversion H; subst. exact N2.
  - split; [discriminate|]. intros; discriminate.
Qed.

Lemma parse_id_spec : forall st, parse_id st <> Fuel /\ forall u s, parse_id st = Ok u s -> (mu s < mu st)%nat.
Proof.
  intro st. unfold parse_id, bind. destruct (tc_spec [g_TypeIdentifier] st eq_refl) as [N1 N2].
  destruct (tc [g_TypeIdentifier] st) as [o s1| | |] eqn:E; try (split; [discriminate|intros; discriminate]).
  2: congruence.
  specialize (N2 _ _ eq_refl). destruct o.
  - split; [discriminate|]. intros u s H. inversion H; subst. exact N2.
  - split; [discriminate|]. intros; discriminate.
Qed.

(* ------------------------------------------------------------------ ParseExecBlock returns only when its block is over *)
Lemma exec_exit : forall fuel ind hs ins ss cs st (x : execblock) st',
  parse fuel (NExec ind hs ins ss cs) st = Ok x st' -> block_goes_on ind st' = false.
Proof.
  induction fuel as [|f IH]; intros ind hs ins ss cs st x st' H; [discriminate|].
  cbn [parse] in H. destruct (block_goes_on ind st) eqn:G.
  - bd H. destruct (hs =? 1).
    + bd H. destruct a0; [bd H|]; apply (IH _ _ _ _ _ _ _ _ H).
    + destruct (hs =? 2).
      * bd H. bd H. destruct a1; bd H; apply (IH _ _ _ _ _ _ _ _ H).
      * bd H. bd H. destruct a1; [|discriminate]. bd H. apply (IH _ _ _ _ _ _ _ _ H).
  - destruct ((hs =? 2) || (hs =? 3)); [|discriminate]. inversion H; subst. exact G.
Qed.

(* ------------------------------------------------------------------ ranks: length of the longest chain of calls that consume nothing *)
Definition rank (n : nt) : nat :=
  match n with
  | NBasic => 0 | NMember => 1 | NMulDiv => 2 | NArith => 3 | NLv4 _ => 4 | NLv3 _ => 5 | NLv2 _ => 6 | NExpr _ => 7
  | NArray | NArrayItems _ | NMapItems _ | NExprList _ | NMethodCall => 8
  | NStmt | NBranch _ _ _ _ _ _ | NWhile | NVarOne | NIterRest _ => 9
  | NVDPair => 1 | NVarDecl | NVDBlock _ _ => 2
  | NBlock _ _ => 10
  | NExec _ hs _ _ _ => if hs =? 1 then 12 else 11
  | NProgram _ hs _ _ => if hs =? 1 then 14 else 13
  | _ => 0
  end.

(* productions that consume at least one token whenever they succeed *)
Definition strict (n : nt) : bool :=
  match n with
  | NLv1Tail _ _ | NLv2Tail _ _ | NLv3Tail _ _ | NArithTail _ | NMulDivTail _ | NMemberTail _ | NChain _
  | NVDBlock _ _ | NBranch _ _ _ _ _ _ | NBlock _ _ | NExec _ _ _ _ _ | NClassItems _ _ _ _ | NProgram _ _ _ _ => false
  | _ => true
  end.

Section Total.
Variable f : nat.
Hypothesis IH : forall n st, (16 * mu st + rank n < f)%nat -> good (mu st) (strict n) (parse f n st).

(* one step of a bind chain *)
Ltac g_tc := match goal with
  | |- good _ _ (bind (tc ?v) _ ?st) =>
      let NF := fresh "NF" in let MU := fresh "MU" in
      destruct (tc_spec v st eq_refl) as [NF MU]; apply good_bind; [exact NF|];
      let o := fresh "o" in let s := fresh "s" in let E := fresh "E" in
      intros o s E; specialize (MU _ _ E); clear NF E
  end.
Ltac g_consume := match goal with
  | |- good _ _ (bind (consume ?v) _ ?st) =>
      let NF := fresh "NF" in let MU := fresh "MU" in
      destruct (consume_spec v st eq_refl) as [NF MU]; apply good_bind; [exact NF|];
      let o := fresh "u" in let s := fresh "s" in let E := fresh "E" in
      intros o s E; specialize (MU _ _ E); clear NF E
  end.
Ltac g_id := match goal with
  | |- good _ _ (bind parse_id _ ?st) =>
      let NF := fresh "NF" in let MU := fresh "MU" in
      destruct (parse_id_spec st) as [NF MU]; apply good_bind; [exact NF|];
      let o := fresh "id" in let s := fresh "s" in let E := fresh "E" in
      intros o s E; specialize (MU _ _ E); clear NF E
  end.
Ltac g_same := match goal with
  | |- good _ _ (bind (set_flag ?b) _ ?st) => g_same_with (set_flag_spec b st)
  | |- good _ _ (bind (set_bind ?b) _ ?st) => g_same_with (set_bind_spec b st)
  | |- good _ _ (bind get_bind _ ?st) => g_same_with (get_bind_spec st)
  | |- good _ _ (bind (expect_block_indent ?b) _ ?st) => g_same_with (expect_spec b st)
  | |- good _ _ (bind require_stmt_done _ ?st) => g_same_with (require_spec st)
  end
with g_same_with L :=
      let NF := fresh "NF" in let MU := fresh "MU" in
      destruct L as [NF MU]; apply good_bind; [exact NF|];
      let o := fresh "u" in let s := fresh "s" in let E := fresh "E" in
      intros o s E; specialize (MU _ _ E); clear NF E.
(* a call of a production through the induction hypothesis *)
Ltac g_ih := match goal with
  | |- good _ _ (bind (parse f ?n) _ ?st) =>
      let G := fresh "G" in
      assert (G : good (mu st) (strict n) (parse f n st)) by (apply IH; cbn [rank Z.eqb Pos.eqb]; lia);
      let NF := fresh "NF" in let MU := fresh "MU" in
      destruct G as [NF MU]; apply good_bind; [exact NF|];
      let o := fresh "r" in let s := fresh "s" in let E := fresh "E" in
      intros o s E; specialize (MU _ _ E); cbn [strict] in MU; destruct MU as [? MU];
      try (specialize (MU eq_refl)); clear NF E
  end.
(* a final call *)
Ltac g_last := match goal with
  | |- good ?m0 ?b (parse f ?n ?st) =>
      apply (good_weaken _ _ (mu st) (strict n)); [apply (IH n st); cbn [rank Z.eqb Pos.eqb]; lia | lia | cbn [strict]; let Hb := fresh in intro Hb; first [discriminate Hb | left; reflexivity | right; lia]]
  end.
Ltac g_ret := first [apply good_ret | apply good_ok]; [lia | first [discriminate | intros _; lia]].
Ltac g_fail := first [apply good_fail_peek | apply good_fail_curr | apply good_err].
Ltac g_step := first [g_tc | g_consume | g_id | g_same | g_ih].

Lemma total_step : forall n st, (16 * mu st + rank n < S f)%nat -> good (mu st) (strict n) (parse (S f) n st).
Proof.
  intros n st HF. destruct n; cbn [parse]; cbn [rank] in HF; cbn [strict].
  - (* NExpr *) g_ih. g_last.
  - (* NLv1Tail *) g_tc. destruct o; [g_ih; g_last|g_ret].
  - (* NLv2 *) g_ih. g_last.
  - (* NLv2Tail *) g_tc. destruct o; [g_ih; g_last|g_ret].
  - (* NLv3 *) g_ih. g_last.
  - (* NLv3Tail *) g_tc. destruct o; [g_ih; g_last|g_ret].
  - (* NLv4 *) g_ih. destruct mp; (g_tc; destruct o; [|g_ret]; destruct (assignable r); [g_ih; g_ret|g_fail]).
  - (* NArith *) g_ih. g_last.
  - (* NArithTail *) g_tc. destruct o; [g_ih; g_last|g_ret].
  - (* NMulDiv *) g_ih. g_last.
  - (* NMulDivTail *) g_tc. destruct o; [g_ih; g_last|g_ret].
  - (* NMember *) g_tc. destruct o.
    + g_tc. destruct o; [g_last|g_fail].
    + g_ih. g_last.
  - (* NMemberTail *) g_tc. destruct o; [|g_ret].
    destruct (t_ty t =? g_TypeMapHash).
    + g_tc. destruct o; [|g_fail].
      destruct (t_ty t0 =? g_TypeIdentifier); [g_last|].
      destruct (t_ty t0 =? g_TypeString); [g_last|].
      g_ih. g_consume. g_last.
    + g_tc. destruct o; [g_last|g_fail].
  - (* NBasic *) g_tc. destruct o; [|g_fail]. cbv zeta.
    destruct (t_ty t =? g_TypeIdentifier); [g_ret|].
    destruct (t_ty t =? g_TypeString); [g_ret|].
    destruct (t_ty t =? g_TypeArrayQuoteL); [g_last|].
    destruct (t_ty t =? g_TypeStmtQuoteL); [g_ih; g_consume; g_ret|].
    destruct (t_ty t =? g_TypeFuncQuoteL).
    { g_tc. destruct o; [g_last|]. g_ih. g_ret. }
    g_last.
  - (* NArray *) g_tc. destruct o.
    + destruct (t_ty t =? g_TypeArrayQuoteR); [g_ret|]. g_consume. g_ret.
    + g_ih. g_tc. destruct o.
      * destruct (t_ty t =? g_TypeArrayQuoteR); [g_ret|]. g_ih. g_same. g_last.
      * g_last.
  - (* NArrayItems *) g_ih. g_tc. destruct o; [g_ret|g_last].
  - (* NMapItems *) g_tc. destruct o; [g_ret|]. g_ih. g_consume. g_ih. g_same. g_last.
  - (* NFuncCall *) g_id. g_tc.
    assert (K : forall ps s1, (mu s1 <= mu s0)%nat ->
              good (mu st) true ((consume [g_TypeFuncQuoteR];;;
                 (if y then o2 <- tc [g_TypeGetResultW];;
                            match o2 with
                            | Some _ => id0 <- parse_id;; ret (Call id ps (Some id0))
                            | None => ret (Call id ps None)
                            end
                  else ret (Call id ps None))) s1)).
    { intros ps s1 L1. destruct o; (g_consume; destruct y; [|g_ret]; g_tc; destruct o; [g_id; g_ret|g_ret]). }
    destruct o.
    + g_ih. apply K. lia.
    + unfold bind at 1. unfold ret at 1. apply K. lia.
  - (* NExprList *) g_ih. g_tc. destruct o; [g_last|g_ret].
  - (* NMethodCall *) g_ih. g_consume. g_ih. g_ih. g_tc. destruct o; [g_id; g_ret|g_ret].
  - (* NChain *) g_tc. destruct o; [|g_ret]. g_consume. g_ih. g_last.
  - (* NObjNew *) g_id. g_tc. destruct o; [g_ih; g_consume; g_ret|g_consume; g_ret].
  - (* NStmt *) g_same. g_tc. destruct o.
    + cbv zeta. destruct (t_ty t =? g_TypeStmtSep); [g_ret|].
      apply (good_bind2 _ _ _ _ _ (mu s0) false).
      * destruct (t_ty t =? g_TypeDeclareW); [g_last|].
        destruct (t_ty t =? g_TypeCondW); [g_same; g_last|].
        destruct (t_ty t =? g_TypeFuncW).
        { g_tc. assert (L : (mu s1 <= mu s0)%nat) by (destruct o; lia). g_ih. g_ret. }
        destruct (t_ty t =? g_TypeReturnW); [g_ih; g_ret|].
        destruct (t_ty t =? g_TypeWhileLoopW); [g_last|].
        destruct (t_ty t =? g_TypeVarOneW); [g_last|].
        destruct (t_ty t =? g_TypeIteratorW); [g_last|].
        destruct (t_ty t =? g_TypeObjDefineW); [g_last|].
        destruct (t_ty t =? g_TypeThrowErrorW); [g_last|].
        destruct (t_ty t =? g_TypeBreakW); g_ret.
      * intros r s1 L. g_same. g_ret.
    + g_ih. g_same. g_ret.
  - (* NVarDecl *) g_tc. destruct o.
    + g_same. g_same. destruct u0; [|g_fail]. g_ih. g_ret.
    + g_ih. g_ret.
  - (* NVDPair *) g_ih. g_tc. destruct o; [|g_fail]. g_ih. g_ret.
  - (* NIdList *) g_id. g_tc. destruct o; [g_last|g_ret].
  - (* NVDBlock *) destruct (block_goes_on ind st); [|g_ret].
    g_same. g_same. g_tc. destruct o; [g_last|]. g_ih. g_same. g_last.
  - (* NBranch *)
    assert (DONE : forall eb he s, (mu s <= mu st)%nat -> good (mu st) false (ret (SBranch ifE ifB eb otherE otherB he) s)).
    { intros. g_ret. }
    destruct (hs =? 0) eqn:E0.
    + cbn [orb]. change (1 =? 2) with false. change (1 =? 1) with true. cbv iota.
      rewrite bind_assoc. g_ih. rewrite bind_ret. g_consume. g_same. destruct u0; [|g_fail]. g_ih. g_last.
    + cbn [orb]. destruct (negb (peek_ty st =? g_TypeEOF)); [|apply DONE; lia].
      destruct (negb (peek_indent st =? main)); [apply DONE; lia|].
      g_same. g_tc. destruct o; [|g_same; apply DONE; lia].
      destruct (t_ty t =? g_TypeCondOtherW).
      * change (3 =? 2) with false. change (3 =? 1) with false. change (3 =? 3) with true. cbv iota.
        rewrite bind_assoc. g_ih. rewrite bind_ret. g_consume. g_same. destruct u1; [|g_fail]. g_ih. g_last.
      * change (2 =? 2) with true. change (2 =? 1) with false. change (2 =? 3) with false. cbv iota.
        rewrite bind_ret. g_consume. g_same. destruct u1; [|g_fail]. g_ih. g_ret.
  - (* NWhile *) g_ih. g_consume. g_same. g_same. destruct u1; [|g_fail]. g_ih. g_ret.
  - (* NBlock *) destruct (block_goes_on ind st); [|g_ret]. g_same. g_ih. g_last.
  - (* NFuncBlock *) g_id. g_consume. g_same. g_same. destruct u1; [|g_fail]. g_ih. g_ret.
  - (* NExec *) destruct (block_goes_on ind st).
    + g_same. destruct (hs =? 1) eqn:E1.
      * g_tc. destruct o; [g_ih; g_last|g_last].
      * destruct (hs =? 2) eqn:E2.
        -- g_same. g_tc. destruct o; [g_ih; g_last|g_ih; g_last].
        -- g_same. g_tc. destruct o; [g_ih; g_last|g_fail].
    + destruct ((hs =? 2) || (hs =? 3)); [g_ret|g_fail].
  - (* NCatch *) g_id. g_consume. g_same. g_same. destruct u1; [|g_fail]. g_ih. g_ret.
  - (* NVarOne *) g_ih. g_tc. destruct o.
    + destruct (t_ty t =? g_TypeIteratorW).
      * destruct r; try g_fail. g_last.
      * g_ih. g_ih. g_tc. destruct o; [g_id; g_ret|g_ret].
    + g_consume. g_ih. g_tc. destruct o; [|g_fail].
      destruct r; try g_fail. destruct r0; try g_fail. g_last.
  - (* NIterRest *) g_ih. g_consume. g_same. g_same. destruct u1; [|g_fail]. g_ih. g_ret.
  - (* NThrow *) g_id. g_consume. g_ih. g_consume. g_ret.
  - (* NImport *) g_tc. destruct o; [|g_fail]. cbv zeta. g_tc. destruct o; [g_ih; g_ret|g_ret].
  - (* NClass *) g_id. g_consume. g_same. g_same. destruct u1; [|g_fail]. g_ih. g_ret.
  - (* NClassItems *) destruct (block_goes_on ind st); [|g_ret].
    g_same. g_same. g_tc. destruct o; [|g_fail].
    destruct (t_ty t =? g_TypeFuncW); [g_ih; g_last|].
    destruct (t_ty t =? g_TypeGetterW); [g_ih; g_last|].
    g_id. g_consume. g_ih. g_last.
  - (* NProgram *) destruct (block_goes_on ind st) eqn:BG; [|g_ret].
    g_same. g_same. destruct (hs =? 1) eqn:E1.
    + g_tc. destruct o; [g_ih; g_last|g_last].
    + assert (G : good (mu s0) false (parse f (NExec ind 1 [] [] []) s0)) by (apply (IH (NExec ind 1 [] [] []) s0); cbn [rank Z.eqb Pos.eqb]; lia).
      destruct G as [NF G]. apply good_bind; [exact NF|]. intros x' s1 EX.
      pose proof (exec_exit _ _ _ _ _ _ _ _ _ EX) as XE. apply G in EX. destruct EX as [L _].
      destruct f as [|f']; [cbn in NF; congruence|].
      cbn [parse]. rewrite XE. g_ret.
Qed.
End Total.

Theorem parse_total : forall fuel n st, (16 * mu st + rank n < fuel)%nat -> good (mu st) (strict n) (parse fuel n st).
Proof.
  induction fuel as [|f IH]; intros n st H; [lia|]. apply total_step; auto.
Qed.

(* ------------------------------------------------------------------ the whole front end *)
Lemma parse_begin_lex_spec : forall st, parse_begin_lex st <> LFuel /\ forall u st', parse_begin_lex st = LOk u st' -> (len st' <= len st)%nat.
Proof.
  intro st. unfold parse_begin_lex.
  assert (SAME : forall (u u' : unit) st', @LOk unit u st = LOk u' st' -> (len st' <= len st)%nat)
    by (intros u u' st' H; inversion H; subst; auto).
  destruct (rest st) as [|ch r] eqn:E; [split; [discriminate|apply SAME]|].
  destruct (ch =? EOFc); [split; [discriminate|apply SAME]|].
  destruct (is_indent_char ch).
  - destruct (count_indent (set_lines st (lines st ++ [mkLine 0 0]))) as [st2 count] eqn:CI.
    apply count_indent_len in CI. cbn [set_lines rest] in CI.
    destruct (set_indent_type count ch st2) as [n st3| | |] eqn:SI; try (split; [discriminate|intros; discriminate]).
    + apply set_indent_type_rest in SI. split; [discriminate|]. intros u st' H. inversion H; subst. cbn. rewrite SI. rewrite E in CI. exact CI.
    + exfalso. eapply set_indent_type_nofuel; eauto.
  - split; [discriminate|]. intros u st' H. inversion H; subst. cbn. rewrite E. auto.
Qed.

Theorem compile_total : forall src, compile (default_fuel src) src <> OFuel.
Proof.
  intro src. unfold compile, lex_init.
  destruct (parse_begin_lex_spec (mkL 0 src g_IndentUnknown [] (Z.of_nat (length src)))) as [B1 B2].
  destruct (parse_begin_lex (mkL 0 src g_IndentUnknown [] (Z.of_nat (length src)))) as [u l0| | |] eqn:E; try discriminate.
  2: congruence.
  specialize (B2 _ _ eq_refl). cbn [rest] in B2.
  unfold bind. destruct (p_next_spec (init_pstate l0)) as [N1 N2].
  destruct (p_next (init_pstate l0)) as [u1 s| | |] eqn:PN; try discriminate.
  2: congruence.
  specialize (N2 _ _ eq_refl). cbn [init_pstate lx] in N2.
  assert (G : good (mu s) (strict (NProgram (peek_indent s) 1 [] None))
                   (parse (default_fuel src) (NProgram (peek_indent s) 1 [] None) s)).
  { apply parse_total. unfold default_fuel. cbn [rank Z.eqb Pos.eqb]. lia. }
  destruct G as [NF _].
  destruct (parse (default_fuel src) (NProgram (peek_indent s) 1 [] None) s) as [pg st| | |]; try discriminate.
  - destruct (negb (peek_ty st =? g_TypeEOF)); discriminate.
  - congruence.
Qed.
