(* JsonNumProofs.v — the exact decimal expansion of a finite binary64 reads back to the same bits. *)
From Coq Require Import List ZArith Bool Lia.
Import ListNotations.
From Zn.model Require Import Json JsonNum.
Open Scope Z_scope.

Lemma div_eucl_eq a b : Z.div_eucl a b = (a / b, a mod b).
Proof. unfold Z.div, Z.modulo. destruct (Z.div_eucl a b). reflexivity. Qed.

Lemma P52 : 2 ^ 52 = 4503599627370496. Proof. reflexivity. Qed.
Lemma P53 : 2 ^ 53 = 9007199254740992. Proof. reflexivity. Qed.
Lemma P63 : 2 ^ 63 = 9223372036854775808. Proof. reflexivity. Qed.
Lemma P64 : 2 ^ 64 = 18446744073709551616. Proof. reflexivity. Qed.

(* ---------- 1. bit fields ---------- *)
Lemma bits_decomp b : is_bits b = true ->
  b = b_sign b * 2 ^ 63 + b_exp b * 2 ^ 52 + b_frac b /\
  0 <= b_sign b <= 1 /\ 0 <= b_exp b <= 2047 /\ 0 <= b_frac b < 2 ^ 52.
Proof.
  unfold is_bits, b_sign, b_exp, b_frac. intros H.
  apply andb_true_iff in H. destruct H as [H0 H1].
  apply Z.leb_le in H0. apply Z.ltb_lt in H1.
  rewrite P64 in H1. rewrite P63, P52.
  pose proof (Z.div_mod b 9223372036854775808 ltac:(lia)).
  pose proof (Z.mod_pos_bound b 9223372036854775808 ltac:(lia)).
  pose proof (Z.div_mod b 4503599627370496 ltac:(lia)).
  pose proof (Z.mod_pos_bound b 4503599627370496 ltac:(lia)).
  pose proof (Z.div_mod (b / 4503599627370496) 2048 ltac:(lia)).
  pose proof (Z.mod_pos_bound (b / 4503599627370496) 2048 ltac:(lia)).
  lia.
Qed.

(* ---------- 3. digits ---------- *)
Definition dstep (a c : Z) : Z := a * 10 + (c - 48).

Lemma digits_val_eq ds : digits_val ds = fold_left dstep ds 0.
Proof. reflexivity. Qed.

Lemma digits_fuel_val : forall f n acc, 0 <= n < 2 ^ Z.of_nat f ->
  fold_left dstep (digits_fuel f n acc) 0 = fold_left dstep acc n.
Proof.
  induction f; intros n acc H.
  - change (2 ^ Z.of_nat 0) with 1 in H. assert (n = 0) by lia. subst. reflexivity.
  - cbn [digits_fuel]. destruct (n <? 10) eqn:Hn.
    + cbn [fold_left]. f_equal. unfold dstep. lia.
    + apply Z.ltb_ge in Hn. rewrite div_eucl_eq.
      rewrite Nat2Z.inj_succ, Z.pow_succ_r in H by lia.
      pose proof (Z.div_mod n 10 ltac:(lia)).
      pose proof (Z.mod_pos_bound n 10 ltac:(lia)).
      rewrite IHf by lia. cbn [fold_left]. f_equal. unfold dstep. lia.
Qed.

Lemma digits_fuel_shape : forall f n acc, 0 < n < 2 ^ Z.of_nat f ->
  exists c ds, digits_fuel f n acc = c :: ds ++ acc /\ is_digit19 c = true /\ all_digits ds = true.
Proof.
  induction f; intros n acc H.
  - change (2 ^ Z.of_nat 0) with 1 in H. lia.
  - cbn [digits_fuel]. destruct (n <? 10) eqn:Hn.
    + apply Z.ltb_lt in Hn. exists (48 + n), []. split; [reflexivity|]. split; [|reflexivity].
      unfold is_digit19. apply andb_true_iff. split; apply Z.leb_le; lia.
    + apply Z.ltb_ge in Hn. rewrite div_eucl_eq.
      rewrite Nat2Z.inj_succ, Z.pow_succ_r in H by lia.
      pose proof (Z.div_mod n 10 ltac:(lia)).
      pose proof (Z.mod_pos_bound n 10 ltac:(lia)).
      destruct (IHf (n / 10) ((48 + n mod 10) :: acc) ltac:(lia)) as (c & ds & E & Hc & Hd).
      exists c, (ds ++ [48 + n mod 10]). rewrite E. split.
      * rewrite <- app_assoc. reflexivity.
      * split; [exact Hc|]. unfold all_digits in *. rewrite forallb_app, Hd. cbn [forallb andb].
        unfold is_digit. rewrite andb_true_r. apply andb_true_iff. split; apply Z.leb_le; lia.
Qed.

Lemma digits_of_fuel n : 0 < n -> 0 < n < 2 ^ Z.of_nat (S (Z.to_nat (Z.log2 n))).
Proof.
  intros H. rewrite Nat2Z.inj_succ, Z2Nat.id by apply Z.log2_nonneg.
  pose proof (Z.log2_spec n H). lia.
Qed.

Lemma digits_of_val n : 0 < n -> digits_val (digits_of n) = n.
Proof.
  intros H. rewrite digits_val_eq. unfold digits_of.
  rewrite digits_fuel_val by (pose proof (digits_of_fuel n H); lia). reflexivity.
Qed.

Lemma digits_of_shape n : 0 < n ->
  exists c ds, digits_of n = c :: ds /\ is_digit19 c = true /\ all_digits ds = true.
Proof.
  intros H. unfold digits_of.
  destruct (digits_fuel_shape _ n [] (digits_of_fuel n H)) as (c & ds & E & Hc & Hd).
  exists c, ds. rewrite E, app_nil_r. auto.
Qed.

Lemma digit19_digit c : is_digit19 c = true -> is_digit c = true.
Proof.
  unfold is_digit19, is_digit. intros H. apply andb_true_iff in H. destruct H as [H1 H2].
  apply Z.leb_le in H1. apply andb_true_iff. split; [apply Z.leb_le; lia | exact H2].
Qed.

Lemma wf_int_digits c ds : is_digit19 c = true -> all_digits ds = true -> wf_int (c :: ds) = true.
Proof. intros H1 H2. cbn [wf_int]. rewrite H1, H2. apply orb_true_r. Qed.

Lemma digits_val_zeros z ds : digits_val (repeat 48 z ++ ds) = digits_val ds.
Proof.
  rewrite !digits_val_eq, fold_left_app. f_equal.
  induction z; [reflexivity|]. cbn [repeat fold_left]. exact IHz.
Qed.

Lemma all_digits_zeros z : all_digits (repeat 48 z) = true.
Proof. induction z; [reflexivity|]. cbn [repeat all_digits forallb]. exact IHz. Qed.

(* ---------- 4. reduce2 ---------- *)
Lemma reduce2_inv : forall n M0 k0 M1 k1, reduce2 n M0 k0 = (M1, k1) -> 0 < M0 -> 0 <= k0 ->
  M0 * 2 ^ k1 = M1 * 2 ^ k0 /\ 0 <= k1 <= k0 /\ 0 < M1.
Proof.
  induction n; intros M0 k0 M1 k1 H HM Hk.
  - cbn [reduce2] in H. inversion H; subst. lia.
  - cbn [reduce2] in H. destruct ((k0 <=? 0) || Z.odd M0) eqn:Hc.
    + inversion H; subst. lia.
    + apply orb_false_iff in Hc. destruct Hc as [Hc1 Hc2]. apply Z.leb_gt in Hc1.
      pose proof (Z.div2_odd M0) as Hd. rewrite Hc2, Z.div2_div in Hd. cbn [Z.b2z] in Hd.
      apply IHn in H; [| lia | lia]. destruct H as (H1 & H2 & H3).
      split; [| lia].
      replace k0 with (Z.succ (k0 - 1)) by lia. rewrite Z.pow_succ_r by lia.
      rewrite Hd at 1. rewrite Z.add_0_r.
      replace (2 * (M0 / 2) * 2 ^ k1) with (2 * (M0 / 2 * 2 ^ k1)) by ring. rewrite H1. ring.
Qed.

(* ---------- 5. rounding an exactly representable quotient ---------- *)
Lemma round_ne_exact M q : 0 < q -> round_ne (M * q) q = M.
Proof.
  intros H. unfold round_ne. rewrite div_eucl_eq, Z.div_mul, Z.mod_mul by lia.
  replace (2 * 0 <? q) with true; [reflexivity|]. symmetry. apply Z.ltb_lt. lia.
Qed.

Definition valid_ME (M E : Z) : Prop :=
  (2 ^ 52 <= M < 2 ^ 53 /\ -1074 <= E <= 971) \/ (0 < M < 2 ^ 52 /\ E = -1074).

Definition bits_of (s M E : Z) : Z :=
  if M <? 2 ^ 52 then s + M else s + (E + 1075) * 2 ^ 52 + (M - 2 ^ 52).

Definition round_tail (s p q E : Z) : option Z :=
  let M := if 0 <=? E then round_ne p (q * 2 ^ E) else round_ne (p * 2 ^ (- E)) q in
  let (M', E') := if M =? 2 ^ 53 then (2 ^ 52, E + 1) else (M, E) in
  if M' <? 2 ^ 52 then Some (s + M')
  else if 971 <? E' then None
  else Some (s + (E' + 1075) * 2 ^ 52 + (M' - 2 ^ 52)).

Lemma round_core_tail s p q :
  round_core s p q = round_tail s p q (Z.max (Z.log2 ((p * 2 ^ 1100) / q) - 1100 - 52) (-1074)).
Proof. reflexivity. Qed.

Lemma exact_div p q M E K : 0 < q -> 0 <= K -> 0 <= E + K ->
  (0 <= E -> p = M * 2 ^ E * q) -> (E < 0 -> p * 2 ^ (- E) = M * q) ->
  p * 2 ^ K / q = M * 2 ^ (E + K).
Proof.
  intros Hq HK HEK H1 H2. destruct (Z_le_gt_dec 0 E) as [HE|HE].
  - rewrite (H1 HE). rewrite Z.pow_add_r by lia.
    replace (M * 2 ^ E * q * 2 ^ K) with (M * (2 ^ E * 2 ^ K) * q) by ring.
    apply Z.div_mul. lia.
  - replace K with (- E + (E + K)) at 1 by lia. rewrite Z.pow_add_r by lia.
    replace (p * (2 ^ (- E) * 2 ^ (E + K))) with (p * 2 ^ (- E) * 2 ^ (E + K)) by ring.
    rewrite (H2 ltac:(lia)).
    replace (M * q * 2 ^ (E + K)) with (M * 2 ^ (E + K) * q) by ring.
    apply Z.div_mul. lia.
Qed.

Lemma valid_log2 M E : valid_ME M E -> 0 < M /\ Z.max (Z.log2 M + E - 52) (-1074) = E.
Proof.
  intros [[HM HE]|[HM HE]].
  - assert (Z.log2 M = 52).
    { apply Z.log2_unique; [lia|]. change (2 ^ Z.succ 52) with (2 ^ 53). exact HM. }
    pose proof P52. lia.
  - assert (Z.log2 M < 52) by (apply Z.log2_lt_pow2; lia). lia.
Qed.

Lemma round_tail_exact s p q M E : 0 < q -> valid_ME M E ->
  (0 <= E -> p = M * 2 ^ E * q) -> (E < 0 -> p * 2 ^ (- E) = M * q) ->
  round_tail s p q E = Some (bits_of s M E).
Proof.
  intros Hq HV H1 H2. unfold round_tail, bits_of.
  assert (HR : (if 0 <=? E then round_ne p (q * 2 ^ E) else round_ne (p * 2 ^ (- E)) q) = M).
  { destruct (0 <=? E) eqn:HE.
    - apply Z.leb_le in HE. rewrite (H1 HE).
      replace (M * 2 ^ E * q) with (M * (q * 2 ^ E)) by ring.
      apply round_ne_exact. pose proof (Z.pow_pos_nonneg 2 E ltac:(lia) HE). nia.
    - apply Z.leb_gt in HE. rewrite (H2 HE). apply round_ne_exact. exact Hq. }
  rewrite HR. cbv zeta.
  pose proof P52 as Q52. pose proof P53 as Q53.
  assert (HM53 : (M =? 2 ^ 53) = false).
  { apply Z.eqb_neq. destruct HV as [[HM HE]|[HM HE]]; lia. }
  rewrite HM53.
  destruct (M <? 2 ^ 52) eqn:HM52; [reflexivity|].
  assert (HE971 : (971 <? E) = false).
  { apply Z.ltb_ge. destruct HV as [[HM HE]|[HM HE]]; lia. }
  rewrite HE971. reflexivity.
Qed.

Lemma round_core_exact s p q M E : 0 < q -> valid_ME M E ->
  (0 <= E -> p = M * 2 ^ E * q) -> (E < 0 -> p * 2 ^ (- E) = M * q) ->
  round_core s p q = Some (bits_of s M E).
Proof.
  intros Hq HV H1 H2. rewrite round_core_tail.
  destruct (valid_log2 M E HV) as [HM HL].
  assert (HE : -1074 <= E) by (destruct HV as [[? ?]|[? ?]]; lia).
  rewrite (exact_div p q M E 1100 Hq ltac:(lia) ltac:(lia) H1 H2).
  rewrite Z.log2_mul_pow2 by lia.
  replace (E + 1100 + Z.log2 M - 1100 - 52) with (Z.log2 M + E - 52) by ring.
  rewrite HL. apply round_tail_exact; assumption.
Qed.

Lemma dec2b64_exact neg m e10 M E : 0 < m -> e10 <= 0 -> -1080 <= Z.log2 m + 1 + 3 * e10 ->
  valid_ME M E ->
  (0 <= E -> m = M * 2 ^ E * 10 ^ (- e10)) -> (E < 0 -> m * 2 ^ (- E) = M * 10 ^ (- e10)) ->
  dec2b64 neg m e10 = Some (bits_of (if neg then 2 ^ 63 else 0) M E).
Proof.
  intros Hm He Hg HV H1 H2. unfold dec2b64.
  replace (m =? 0) with false by (symmetry; apply Z.eqb_neq; lia).
  replace (310 <? e10) with false by (symmetry; apply Z.ltb_ge; lia).
  replace (Z.log2 m + 1 + 3 * e10 <? -1080) with false by (symmetry; apply Z.ltb_ge; lia).
  destruct (0 <=? e10) eqn:H0.
  - apply Z.leb_le in H0. assert (e10 = 0) by lia. subst e10.
    change (- 0) with 0 in *. rewrite Z.pow_0_r in *.
    apply round_core_exact; [lia | exact HV | |].
    + intros HE. rewrite (H1 HE) at 1. ring.
    + intros HE. rewrite Z.mul_1_r. exact (H2 HE).
  - apply Z.leb_gt in H0. apply round_core_exact; [|exact HV|exact H1|exact H2].
    apply Z.pow_pos_nonneg; lia.
Qed.

(* ---------- 6. assembling ---------- *)
Lemma mant_exp_spec b M E : num_ok64 b = true -> mant_exp b = (M, E) ->
  let s := if b_sign b =? 1 then 2 ^ 63 else 0 in
  (M = 0 /\ b = s) \/ (valid_ME M E /\ b = bits_of s M E).
Proof.
  unfold num_ok64, finiteb, mant_exp. intros H HME.
  apply andb_true_iff in H. destruct H as [Hb Hf].
  apply negb_true_iff, Z.eqb_neq in Hf.
  destruct (bits_decomp b Hb) as (Hd & Hs & He & Hfr). clear Hb.
  pose proof P52 as Q52. pose proof P53 as Q53. pose proof P63 as Q63.
  cbv zeta. unfold bits_of, valid_ME.
  assert (Hsg : (if b_sign b =? 1 then 2 ^ 63 else 0) = b_sign b * 2 ^ 63).
  { destruct (b_sign b =? 1) eqn:H1; [apply Z.eqb_eq in H1 | apply Z.eqb_neq in H1]; lia. }
  rewrite Hsg.
  destruct (b_exp b =? 0) eqn:H0; [apply Z.eqb_eq in H0 | apply Z.eqb_neq in H0];
    pose proof (f_equal fst HME) as HM; pose proof (f_equal snd HME) as HE;
    cbn [fst snd] in HM, HE; clear HME; subst M E.
  - destruct (Z.eq_dec (b_frac b) 0) as [Hz|Hz].
    + left. split; [exact Hz|]. lia.
    + right. split; [right; lia|].
      replace (b_frac b <? 2 ^ 52) with true by (symmetry; apply Z.ltb_lt; lia). lia.
  - right. split; [left; lia|].
    replace (2 ^ 52 + b_frac b <? 2 ^ 52) with false by (symmetry; apply Z.ltb_ge; lia). lia.
Qed.

Lemma all_digits_app a b : all_digits (a ++ b) = all_digits a && all_digits b.
Proof. apply forallb_app. Qed.

Lemma place_point_spec c rest k ip fp :
  is_digit19 c = true -> all_digits rest = true ->
  place_point (c :: rest) k = (ip, fp) ->
  wf_int ip = true /\ all_digits fp = true /\ length fp = k /\
  digits_val (ip ++ fp) = digits_val (c :: rest).
Proof.
  intros Hc Hr H. unfold place_point in H. cbv zeta in H.
  set (ds := c :: rest) in *.
  set (ds' := repeat 48 (S k - length ds) ++ ds) in *.
  assert (Hlen : length ds' = ((S k - length ds) + length ds)%nat).
  { unfold ds'. rewrite app_length, repeat_length. reflexivity. }
  assert (Hall : all_digits ds' = true).
  { unfold ds'. rewrite all_digits_app, all_digits_zeros. unfold ds. cbn [andb all_digits forallb].
    rewrite (digit19_digit c Hc). exact Hr. }
  set (n := (length ds' - k)%nat) in *.
  inversion H; subst ip fp; clear H.
  rewrite <- (firstn_skipn n ds'), all_digits_app in Hall.
  apply andb_true_iff in Hall. destruct Hall as [Ha1 Ha2].
  split; [| split; [exact Ha2 | split]].
  - destruct (S k - length ds)%nat as [|z'] eqn:Hz.
    + assert (Hn : (n = S (length rest - k))%nat).
      { unfold n. rewrite Hlen. unfold ds in *. cbn [length] in *. lia. }
      rewrite Hn. unfold ds', ds. cbn [repeat app firstn].
      apply wf_int_digits; [exact Hc|].
      pose proof (firstn_skipn (length rest - k) rest) as Hfs.
      rewrite <- Hfs, all_digits_app in Hr. apply andb_true_iff in Hr. tauto.
    + assert (Hn : (n = 1)%nat) by (unfold n; lia).
      rewrite Hn. unfold ds'. cbn [repeat app firstn]. reflexivity.
  - rewrite skipn_length. unfold n. lia.
  - rewrite firstn_skipn. unfold ds'. apply digits_val_zeros.
Qed.

Theorem fmt64_reject : forall b, num_ok64 b = false -> fmt64 b = None.
Proof. intros b H. unfold fmt64. rewrite H. reflexivity. Qed.

Lemma log2_guard M1 k : 0 < M1 -> 0 <= k -> 2 * k <= Z.log2 (M1 * 5 ^ k).
Proof.
  intros HM Hk.
  assert (H4 : 2 ^ (2 * k) <= 5 ^ k).
  { rewrite Z.pow_mul_r by lia. change (2 ^ 2) with 4. apply Z.pow_le_mono_l. lia. }
  assert (H5 : 0 < 5 ^ k) by (apply Z.pow_pos_nonneg; lia).
  assert (H6 : 2 ^ (2 * k) <= M1 * 5 ^ k) by nia.
  apply Z.log2_le_mono in H6. rewrite Z.log2_pow2 in H6 by lia. exact H6.
Qed.

Theorem fmt64_bridge : forall b, num_ok64 b = true ->
  exists t, fmt64 b = Some t /\ wf_num t = true /\ num_val t = Some b.
Proof.
  intros b Hok. unfold fmt64. rewrite Hok. cbn [negb].
  destruct (mant_exp b) as [M E] eqn:HME.
  pose proof (mant_exp_spec b M E Hok HME) as Hspec. cbv zeta in Hspec. cbv zeta.
  clear Hok.
  set (neg := b_sign b =? 1) in *.
  destruct Hspec as [[HM0 Hb]|[HV Hb]].
  - (* zero *)
    subst M. cbn [Z.eqb]. eexists. split; [reflexivity|]. split; [reflexivity|].
    unfold num_val. cbn [n_neg n_int n_frac n_exp app length exp_val].
    change (digits_val [48]) with 0. unfold dec2b64. cbn [Z.eqb]. f_equal. symmetry. exact Hb.
  - assert (HMpos : 0 < M) by (destruct HV as [[? ?]|[? ?]]; pose proof P52; lia).
    assert (Hb' : Some (bits_of (if neg then 2 ^ 63 else 0) M E) = Some b)
      by (f_equal; symmetry; exact Hb).
    assert (HEr : -1074 <= E <= 971) by (destruct HV as [[? ?]|[? ?]]; lia).
    replace (M =? 0) with false by (symmetry; apply Z.eqb_neq; lia).
    destruct (0 <=? E) eqn:HE0.
    + (* integer, non-negative exponent *)
      apply Z.leb_le in HE0.
      assert (HN : 0 < M * 2 ^ E).
      { pose proof (Z.pow_pos_nonneg 2 E ltac:(lia) HE0). nia. }
      eexists. split; [reflexivity|]. split.
      * unfold wf_num. cbn [n_int n_frac n_exp all_digits forallb wf_exp].
        destruct (digits_of_shape _ HN) as (c & ds & Hd & Hc & Hds).
        rewrite Hd, (wf_int_digits c ds Hc Hds). reflexivity.
      * unfold num_val. cbn [n_neg n_int n_frac n_exp length exp_val].
        rewrite app_nil_r, digits_of_val by exact HN.
        change (0 - Z.of_nat 0) with 0. rewrite <- Hb'.
        apply dec2b64_exact; [exact HN | lia | | exact HV | |].
        -- pose proof (Z.log2_nonneg (M * 2 ^ E)). lia.
        -- intros _. change (- 0) with 0. rewrite Z.pow_0_r. ring.
        -- intros; lia.
    + apply Z.leb_gt in HE0.
      destruct (reduce2 53 M (- E)) as [M1 k] eqn:HR.
      destruct (reduce2_inv _ _ _ _ _ HR HMpos ltac:(lia)) as (Hinv & Hk & HM1).
      destruct (k =? 0) eqn:Hk0.
      * (* integer after removing the factors of two *)
        apply Z.eqb_eq in Hk0. subst k. rewrite Z.pow_0_r, Z.mul_1_r in Hinv.
        eexists. split; [reflexivity|]. split.
        -- unfold wf_num. cbn [n_int n_frac n_exp all_digits forallb wf_exp].
           destruct (digits_of_shape _ HM1) as (c & ds & Hd & Hc & Hds).
           rewrite Hd, (wf_int_digits c ds Hc Hds). reflexivity.
        -- unfold num_val. cbn [n_neg n_int n_frac n_exp length exp_val].
           rewrite app_nil_r, digits_of_val by exact HM1.
           change (0 - Z.of_nat 0) with 0. rewrite <- Hb'.
           apply dec2b64_exact; [exact HM1 | lia | | exact HV | |].
           ++ pose proof (Z.log2_nonneg M1). lia.
           ++ intros; lia.
           ++ intros _. change (- 0) with 0. rewrite Z.pow_0_r, Z.mul_1_r. symmetry. exact Hinv.
      * (* a fraction with k digits *)
        apply Z.eqb_neq in Hk0.
        assert (HN : 0 < M1 * 5 ^ k).
        { pose proof (Z.pow_pos_nonneg 5 k ltac:(lia) ltac:(lia)). nia. }
        destruct (digits_of_shape _ HN) as (c & ds & Hd & Hc & Hds).
        destruct (place_point (digits_of (M1 * 5 ^ k)) (Z.to_nat k)) as [ip fp] eqn:HP.
        rewrite Hd in HP.
        destruct (place_point_spec c ds _ ip fp Hc Hds HP) as (Hw1 & Hw2 & Hl & Hv).
        rewrite <- Hd, digits_of_val in Hv by exact HN.
        eexists. split; [reflexivity|]. split.
        -- unfold wf_num. cbn [n_int n_frac n_exp wf_exp]. rewrite Hw1, Hw2. reflexivity.
        -- unfold num_val. cbn [n_neg n_int n_frac n_exp exp_val].
           rewrite Hv, Hl, Z2Nat.id by lia. rewrite <- Hb'.
           pose proof (log2_guard M1 k HM1 ltac:(lia)) as Hg.
           apply dec2b64_exact; [exact HN | lia | lia | exact HV | intros; lia |].
           intros _. replace (- (0 - k)) with k by lia.
           replace (10 ^ k) with (2 ^ k * 5 ^ k) by (rewrite <- Z.pow_mul_l; reflexivity).
           replace (M1 * 5 ^ k * 2 ^ (- E)) with (M1 * 2 ^ (- E) * 5 ^ k) by ring.
           rewrite <- Hinv. ring.
Qed.
