(* SemCopy.v — C07 at program level: every assignment form and every declaration stores a COPY (value.DuplicateValue)
   of the value its right-hand side evaluated to; together with the theorems about [dup] (fresh cells, equal snapshot,
   isolation both ways) this is "lists and dictionaries are copied on assignment" for every program. *)
From Coq Require Import List ZArith Bool Lia.
From Zn.model Require Import SemDefs Sem.
Import ListNotations.
Open Scope Z_scope.

Definition is_assignment (e : expr) : option expr :=
  match e with
  | EAssignVar _ e1 | EAssignIndex _ _ e1 | EAssignMember _ _ e1 | EAssignThis _ e1 => Some e1
  | _ => None
  end.

(* an assignment that succeeds has evaluated its right-hand side first, then duplicated the result, and yields (and
   stores: see the model's clauses) that duplicate — for 变量 = e, 甲#i = e, 甲之p = e and 其p = e alike *)
Theorem assignment_stores_copy n st e e1 v' s' :
  is_assignment e = Some e1 -> eval_expr (S n) st e = Ok v' s' ->
  exists v s1 s2, eval_expr n st e1 = Ok v s1 /\ dup n s1 v = DOk v' s2.
Proof.
  intros A H. destruct e; try discriminate; cbn [is_assignment] in A; inversion A; subst; cbn [eval_expr] in H.
  - destruct (eval_expr n st e1) as [v s1|? ?| |?] eqn:E1; cbn [bind] in H; try discriminate.
    unfold dup_res in H. destruct (dup n s1 v) as [w s2|] eqn:D; cbn [bind] in H; try discriminate.
    destruct (vm_set s2 x w) as [u s3|? ?| |?]; cbn [bind] in H; try discriminate. inversion H; subst. eauto.
  - destruct (eval_expr n st e1) as [v s1|? ?| |?] eqn:E1; cbn [bind] in H; try discriminate.
    unfold dup_res in H. destruct (dup n s1 v) as [w s2|] eqn:D; cbn [bind] in H; try discriminate.
    destruct (eval_expr n s2 e2) as [rv s3|? ?| |?]; cbn [bind] in H; try discriminate.
    destruct (eval_expr n s3 e3) as [iv s4|? ?| |?]; cbn [bind] in H; try discriminate.
    destruct (index_set s4 rv iv w) as [u s5|? ?| |?]; cbn [bind] in H; try discriminate. inversion H; subst. eauto.
  - destruct (eval_expr n st e1) as [v s1|? ?| |?] eqn:E1; cbn [bind] in H; try discriminate.
    unfold dup_res in H. destruct (dup n s1 v) as [w s2|] eqn:D; cbn [bind] in H; try discriminate.
    destruct (eval_expr n s2 e2) as [rv s3|? ?| |?]; cbn [bind] in H; try discriminate.
    destruct (set_property s3 rv m w) as [u s4|? ?| |?]; cbn [bind] in H; try discriminate. inversion H; subst. eauto.
  - destruct (eval_expr n st e1) as [v s1|? ?| |?] eqn:E1; cbn [bind] in H; try discriminate.
    unfold dup_res in H. destruct (dup n s1 v) as [w s2|] eqn:D; cbn [bind] in H; try discriminate.
    destruct (top_this s2) as [this|]; try discriminate.
    destruct (set_property s2 this m w) as [u s3|? ?| |?]; cbn [bind] in H; try discriminate. inversion H; subst. eauto.
Qed.

(* 令 x1、x2、… = e: EVERY name — the first one too — is bound to a duplicate of its own (of the value before it) *)
Theorem declaration_binds_copies fuel c x names obj st s :
  decl_names fuel c (x :: names) obj st = Ok tt s ->
  exists obj' sa sb, dup fuel st obj = DOk obj' sa /\ vm_declare sa x obj' c = Ok tt sb /\
                     decl_names fuel c names obj' sb = Ok tt s.
Proof.
  cbn [decl_names]. unfold dup_res. intros H.
  destruct (dup fuel st obj) as [obj' sa|] eqn:D; cbn [bind] in H; try discriminate.
  destruct (vm_declare sa x obj' c) as [[] sb|? ?| |?] eqn:V; cbn [bind] in H; try discriminate.
  exists obj', sa, sb. repeat split; assumption.
Qed.

(* ------------------------------------------------------------------------------------------ *)
(* C08: every object created with 新建 starts from its own copies of the type's default values  *)

(* [dups_of fuel s ds ws s']: ws are duplicates of the values ds, made one after the other from state s to s' *)
Inductive dups_of (fuel : nat) : state -> list (name * val) -> list (name * val) -> state -> Prop :=
| dups_nil s : dups_of fuel s [] [] s
| dups_cons s p d w s1 tl tl' s2 :
    dup fuel s d = DOk w s1 -> dups_of fuel s1 tl tl' s2 -> dups_of fuel s ((p, d) :: tl) ((p, w) :: tl') s2.

  Theorem new_object_copies_defaults fuel st c cd v s2 :
    new_object fuel st c cd = Ok v s2 ->
    exists props s1, dups_of fuel st (c_props cd) props s1 /\
                     v = VObj (length (heap s1)) /\ s2 = snd (alloc s1 (CObj c props)).
  Proof.
    unfold new_object.
    match goal with |- (let! (_, _) := ?g (c_props cd) st [] in _) = _ -> _ => set (go := g) end.
    assert (G : forall ps s acc r s', go ps s acc = Ok r s' ->
                exists ws, dups_of fuel s ps ws s' /\ r = rev acc ++ ws).
    { induction ps as [|[p d] tl IH]; intros s acc r s' H; cbn in H.
      - inversion H; subst. exists []. split; [constructor|rewrite app_nil_r; reflexivity].
      - unfold dup_res in H. destruct (dup fuel s d) as [w s1|] eqn:D; cbn [bind] in H; try discriminate.
        destruct (IH s1 ((p, w) :: acc) r s' H) as (ws & Hd & Hr).
        exists ((p, w) :: ws). split; [econstructor; eassumption|].
        rewrite Hr. cbn [rev]. rewrite <- app_assoc. reflexivity. }
    intros H. destruct (go (c_props cd) st []) as [props s1|? ?| |?] eqn:E; cbn [bind] in H; try discriminate.
    destruct (G _ _ _ _ _ E) as (ws & Hd & Hr). cbn [rev app] in Hr. subst props.
    unfold alloc in H. cbn in H. inversion H; subst.
    exists ws, s1. repeat split; try assumption; reflexivity.
  Qed.
